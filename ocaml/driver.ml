(* Line-protocol driver around the code extracted from the Coq development.
   It only parses commands, calls extracted functions and prints their results; every decision
   is taken by extracted code.  One command per line on stdin, one reply line per command
   (a table reply is several lines terminated by "end"). *)

open Datatypes

let rec nat_of_int n = if n <= 0 then O else S (nat_of_int (n - 1))
let rec int_of_nat = function O -> 0 | S n -> 1 + int_of_nat n

let rec pos_of_int n : BinNums.positive =
  if n = 1 then BinNums.Coq_xH
  else if n land 1 = 0 then BinNums.Coq_xO (pos_of_int (n lsr 1))
  else BinNums.Coq_xI (pos_of_int (n lsr 1))

let n_of_int n : BinNums.coq_N = if n = 0 then BinNums.N0 else BinNums.Npos (pos_of_int n)

let rec int_of_pos = function
  | BinNums.Coq_xH -> 1
  | BinNums.Coq_xO p -> 2 * int_of_pos p
  | BinNums.Coq_xI p -> 2 * int_of_pos p + 1

let int_of_n = function BinNums.N0 -> 0 | BinNums.Npos p -> int_of_pos p

(* keys: hex string (2 chars per byte, MSB first) possibly followed by "/<bits>" to truncate *)
let hexval c =
  match c with
  | '0' .. '9' -> Char.code c - 48
  | 'a' .. 'f' -> Char.code c - 87
  | 'A' .. 'F' -> Char.code c - 55
  | _ -> failwith "hex"

let key_of_string (s : string) : bool list =
  let hex, nbits =
    match String.index_opt s '/' with
    | None -> (s, 4 * String.length s)
    | Some i -> (String.sub s 0 i, int_of_string (String.sub s (i + 1) (String.length s - i - 1)))
  in
  let bits = ref [] in
  for i = String.length hex - 1 downto 0 do
    let v = hexval hex.[i] in
    for b = 0 to 3 do
      bits := ((v lsr b) land 1 = 1) :: !bits
    done
  done;
  let rec take n l = if n = 0 then [] else match l with [] -> [] | x :: r -> x :: take (n - 1) r in
  take nbits !bits

let string_of_key (k : bool list) : string =
  let n = Stdlib.List.length k in
  let buf = Buffer.create 70 in
  let arr = Array.of_list k in
  let nnib = (n + 3) / 4 in
  for i = 0 to nnib - 1 do
    let v = ref 0 in
    for b = 0 to 3 do
      let idx = (4 * i) + b in
      v := (!v lsl 1) lor (if idx < n && arr.(idx) then 1 else 0)
    done;
    Buffer.add_char buf "0123456789abcdef".[!v]
  done;
  if n mod 4 <> 0 || n <> 256 then Buffer.add_string buf (Printf.sprintf "/%d" n);
  Buffer.contents buf

let key_len = nat_of_int 256

(* ------------------------------------------------------------------------------------- *)
let st = ref (Store.init None)
let saved : (string, Store.state) Hashtbl.t = Hashtbl.create 8
let cur_view : Base.kv ref = ref []
let cur_atrie : Emit.atrie ref = ref Emit.AE

let out = Buffer.create 65536
let flush_out () = print_string (Buffer.contents out); Buffer.clear out; flush stdout
let say s = Buffer.add_string out s; Buffer.add_char out '\n'

let set_view v =
  cur_view := v;
  let t = Trie.mk key_len O v in
  let at, _ = Emit.annotate t (n_of_int 1) in
  cur_atrie := at;
  State.store 0 v at

let () = State.set_view_hook := set_view

let print_table () =
  let entries = Emit.atable !cur_atrie [] in
  Stdlib.List.iter
    (function
      | Emit.EL (i, k, v) -> say (Printf.sprintf "L %d %s %d" (int_of_n i) (string_of_key k) (int_of_n v))
      | Emit.EI (i, l, r) -> say (Printf.sprintf "I %d %d %d" (int_of_n i) (int_of_n l) (int_of_n r)))
    entries;
  say (Printf.sprintf "root %d" (int_of_n (Emit.aid !cur_atrie)));
  say "end"

let string_of_terminal = function
  | Trie.TLeaf (k, v) -> Printf.sprintf "leaf %s %d" (string_of_key k) (int_of_n v)
  | Trie.TTerm p -> Printf.sprintf "term %d" (Stdlib.List.length p)

(* batch entry "<key>:r" | "<key>:w<vid>" | "<key>:d" | "<key>:R..." (read-then-...) *)
let parse_entry (s : string) =
  let i = String.index s ':' in
  let k = key_of_string (String.sub s 0 i) in
  let op = String.sub s (i + 1) (String.length s - i - 1) in
  let w =
    match op.[0] with
    | 'r' -> None
    | 'd' -> Some None
    | 'w' -> Some (Some (n_of_int (int_of_string (String.sub op 1 (String.length op - 1)))))
    | _ -> failwith "op"
  in
  (k, w)

let ids_of toks = Stdlib.List.map (fun s -> n_of_int (int_of_string s)) toks

let handle (line : string) =
  let toks = String.split_on_char ' ' line |> Stdlib.List.filter (fun s -> s <> "") in
  match toks with
  | [ "init"; ml ] ->
      let ml = int_of_string ml in
      st := Store.init (if ml < 0 then None else Some (nat_of_int ml));
      set_view [];
      say "ok"
  | "session" :: ids -> (
      match Store.check_chain !st (ids_of ids) with
      | Store.ChainOk m ->
          set_view (Store.view !st m);
          say ((if Store.chain_fresh !st m then "ok " else "stale ")
               ^ String.concat " " (Stdlib.List.map (fun i -> string_of_int (int_of_n i)) m))
      | Store.NotAncestor -> say "notancestor"
      | Store.Incomplete -> say "incomplete")
  | [ "viewcset"; id ] -> (
      match Store.find (Store.csets !st) (n_of_int (int_of_string id)) with
      | Some c -> set_view (Store.c_result c); say "ok"
      | None -> say "unknown")
  | [ "viewcur" ] -> set_view (Store.cur !st); say "ok"
  | [ "get"; k ] -> (
      match Base.get !cur_view (key_of_string k) with
      | Some v -> say (Printf.sprintf "some %d" (int_of_n v))
      | None -> say "none")
  | [ "dump" ] ->
      Stdlib.List.iter (fun (k, v) -> say (Printf.sprintf "%s %d" (string_of_key k) (int_of_n v))) !cur_view;
      say "end"
  | [ "table" ] -> print_table ()
  | [ "prove"; k ] ->
      let sibs, tm = Emit.awalk !cur_atrie (key_of_string k) O in
      say
        (Printf.sprintf "%s ; %s" (string_of_terminal tm)
           (String.concat " " (Stdlib.List.map (fun i -> string_of_int (int_of_n i)) sibs)))
  | "finish" :: id :: rest ->
      (* chain ids up to "--", then batch entries *)
      let rec split acc = function
        | "--" :: r -> (Stdlib.List.rev acc, r)
        | x :: r -> split (x :: acc) r
        | [] -> (Stdlib.List.rev acc, [])
      in
      let chain, entries = split [] rest in
      let batch = Stdlib.List.map parse_entry entries in
      (match Store.check_chain !st (ids_of chain) with
       | Store.ChainOk m ->
           st := Store.finish !st (n_of_int (int_of_string id)) m batch;
           say "ok"
       | _ -> say "badchain")
  | [ "overlay"; id ] -> st := Store.into_overlay !st (n_of_int (int_of_string id)); say "ok"
  | [ "drop"; id ] -> st := Store.drop !st (n_of_int (int_of_string id)); say "ok"
  | [ "commit"; id; busy ] ->
      let s', r = Store.commit !st (n_of_int (int_of_string id)) (busy = "1") in
      st := s';
      say
        (match r with
         | Store.COk -> "ok" | Store.CStale -> "stale" | Store.CParent -> "parent"
         | Store.CDeferred -> "deferred" | Store.CUnknown -> "unknown")
  | [ "rollback"; n ] ->
      let s', r = Store.rollback !st (nat_of_int (int_of_string n)) in
      st := s';
      say (match r with Store.ROk -> "ok" | Store.RErr -> "err")
  | [ "reopen" ] -> st := Store.reopen !st; say "ok"
  | [ "seqn" ] -> say (string_of_int (int_of_n (Store.seqn !st)))
  | [ "save"; name ] -> Hashtbl.replace saved name !st; say "ok"
  | [ "load"; name ] -> st := Hashtbl.find saved name; set_view (Store.cur !st); say "ok"
  | [ "histlen" ] -> say (string_of_int (Stdlib.List.length (Store.hist !st)))
  | _ -> (
      match Core_cmds.handle toks with
      | Some reply -> say reply
      | None -> (
          match Img_cmds.handle toks with
          | Some reply -> say reply
          | None -> (match Sync_cmds.handle toks with Some reply -> say reply | None -> (match Misc_cmds.handle toks with Some reply -> say reply | None -> (match Wal_cmds.handle toks with Some reply -> say reply | None -> (match Rb_cmds.handle toks with Some reply -> say reply | None -> (match Fl_cmds.handle toks with Some reply -> say reply | None -> (match Delta_cmds.handle toks with Some reply -> say reply | None -> (match Lb_cmds.handle toks with Some reply -> say reply | None -> (match Bb_cmds.handle toks with Some reply -> say reply | None -> (match Rbbook_cmds.handle toks with Some reply -> say reply | None -> say ("error unknown command: " ^ line))))))))))))

let () =
  try
    while true do
      let line = input_line stdin in
      (try handle line with e -> say ("error " ^ Printexc.to_string e));
      flush_out ()
    done
  with End_of_file -> ()
