(* Branch rebuild commands (engine `nv bb`, properties C01 / C16): run the extracted mirror of
   BranchGauge / BranchOpsTracker / BranchUpdater / BranchNodeBuilder (BranchBuild.v) on the stages
   the real updater was driven through, and check the real pages and gauge values with the
   extracted checks (which decode the pages with Image.decode_branch).  This module parses, stores
   the mirror's nodes of the last run, calls extracted functions and prints what they return.

   bbrun <fix12> <stage>...   one token per stage:
        S;<base page hex | ->;<cutoff_none 0|1>;<key hex>:<pn | d>,...
     -> "badbase <i>" "end"                a base page does not decode
      | "panic" "end"                      the mirror's builder panics / runs out of fuel
      | "stage <i> <needs_merge 0|1> <left body size>" per stage,
        "node <j> <stage> <gauge body> <n> <pc> <plen> <pushed> <node body> <wf 0|1>" per built node, "end"
   bbcheck <j> <gauge body> <n> <pc> <plen> <page hex>
     -> "V <code> <x> <y>" per finding of check_page / check_model against the mirror's node j
        (VcMCount when the mirror built fewer nodes),
        "K <key hex> <stored len> <pn>" per decoded separator of the page, "end"
   bbnode <j>  -> "K <key hex> <stored len> <pn>" per separator of the mirror's node j, "end" *)

open BinNums

let n_of_int = Img_cmds.n_of_int
let int_of_n = Img_cmds.int_of_n
let nat_of_int = State.nat_of_int
let int_of_nat = State.int_of_nat

let nodes : BranchBuild.built array ref = ref [||]

let lines (l : string list) : string = String.concat "\n" (l @ [ "end" ])

let vcode_name (c : BranchBuild.vcode) : string =
  match c with
  | BranchBuild.VcDecode -> "VcDecode" | BranchBuild.VcHdrN -> "VcHdrN" | BranchBuild.VcHdrPc -> "VcHdrPc"
  | BranchBuild.VcHdrPlen -> "VcHdrPlen" | BranchBuild.VcGaugeBody -> "VcGaugeBody"
  | BranchBuild.VcTooBig -> "VcTooBig" | BranchBuild.VcNonCanon -> "VcNonCanon"
  | BranchBuild.VcShape -> "VcShape" | BranchBuild.VcMPanic -> "VcMPanic"
  | BranchBuild.VcMCount -> "VcMCount" | BranchBuild.VcMGauge -> "VcMGauge" | BranchBuild.VcMN -> "VcMN"
  | BranchBuild.VcMPc -> "VcMPc" | BranchBuild.VcMPlen -> "VcMPlen" | BranchBuild.VcMKeys -> "VcMKeys"
  | BranchBuild.VcMLens -> "VcMLens" | BranchBuild.VcMPns -> "VcMPns" | BranchBuild.VcMStage -> "VcMStage"

let vline ((c, x), y) = Printf.sprintf "V %s %d %d" (vcode_name c) (int_of_n x) (int_of_n y)

let item_lines (b : BranchBuild.bnode) : string list =
  Stdlib.List.map
    (fun it ->
      Printf.sprintf "K %s %d %d" (Img_cmds.hex_of_key it.BranchBuild.it_key)
        (int_of_n it.BranchBuild.it_len) (int_of_n it.BranchBuild.it_pn))
    b.BranchBuild.bn_items

exception Bad_base of int

let parse_stage (i : int) (tok : string) : BranchBuild.stage =
  match String.split_on_char ';' tok with
  | [ "S"; base; cn; ops ] ->
      let base =
        if base = "-" then None
        else
          match BranchBuild.bnode_of_page (Img_cmds.bytes_of_hex base) with
          | Some b -> Some b
          | None -> raise (Bad_base i)
      in
      let ops =
        if ops = "" then []
        else
          Stdlib.List.map
            (fun s ->
              match String.split_on_char ':' s with
              | [ k; "d" ] -> (Img_cmds.key_of_hex k, None)
              | [ k; pn ] -> (Img_cmds.key_of_hex k, Some (n_of_int (int_of_string pn)))
              | _ -> failwith "bb op syntax")
            (String.split_on_char ',' ops)
      in
      { BranchBuild.sg_base = base; sg_ops = ops; sg_cutoff_none = cn = "1" }
  | _ -> failwith "bb stage syntax"

let b01 b = if b then 1 else 0

let handle (toks : string list) : string option =
  match toks with
  | "bbrun" :: fix :: stages -> (
      nodes := [||];
      match (try Ok (Stdlib.List.mapi parse_stage stages) with Bad_base i -> Error i) with
      | Error i -> Some (lines [ Printf.sprintf "badbase %d" i ])
      | Ok sgs -> (
          match BranchBuild.run_stages (fix = "1") BranchBuild.u0 sgs with
          | None -> Some (lines [ "panic" ])
          | Some res ->
              let all = ref [] in
              let out = ref [] in
              Stdlib.List.iteri
                (fun i ((built, nm), left) ->
                  out := Printf.sprintf "stage %d %d %d" i (b01 nm) (int_of_n left) :: !out;
                  Stdlib.List.iter
                    (fun m ->
                      let j = Stdlib.List.length !all in
                      all := m :: !all;
                      let nd = m.BranchBuild.bo_node in
                      out :=
                        Printf.sprintf "node %d %d %d %d %d %d %d %d %d" j i
                          (int_of_n m.BranchBuild.bo_gauge_body) (int_of_nat m.BranchBuild.bo_n)
                          (int_of_nat nd.BranchBuild.bn_pc) (int_of_n nd.BranchBuild.bn_plen)
                          (int_of_nat m.BranchBuild.bo_pushed) (int_of_n (BranchBuild.node_body nd))
                          (b01 (BranchBuild.node_wf nd))
                        :: !out)
                    built)
                res;
              nodes := Array.of_list (Stdlib.List.rev !all);
              Some (lines (Stdlib.List.rev !out))))
  | [ "bbcheck"; j; gbody; gn; gpc; gplen; page ] ->
      let j = int_of_string j in
      let pg = Img_cmds.bytes_of_hex page in
      let gbody = n_of_int (int_of_string gbody) in
      let gn = nat_of_int (int_of_string gn) in
      let gpc = nat_of_int (int_of_string gpc) in
      let gplen = n_of_int (int_of_string gplen) in
      let v1 = BranchBuild.check_page gbody gn gpc gplen pg in
      let v2 =
        if j < Array.length !nodes then BranchBuild.check_model !nodes.(j) gbody gn gpc gplen pg
        else [ ((BranchBuild.VcMCount, n_of_int (Array.length !nodes)), n_of_int (j + 1)) ]
      in
      let ks = match BranchBuild.bnode_of_page pg with Some b -> item_lines b | None -> [] in
      Some (lines (Stdlib.List.map vline (v1 @ v2) @ ks))
  | [ "bbnode"; j ] ->
      let j = int_of_string j in
      Some (lines (if j < Array.length !nodes then item_lines !nodes.(j).BranchBuild.bo_node else []))
  | _ -> None
