(* Rollback-log commands: evaluate the proved monitor of RbProto.v on the traces of the rollback segment
   files the real implementation produced (engine: harness/src/rbtrace.rs).  This module only parses the
   history file the harness wrote, builds the [inst] / [ev list] values, reads the 12-byte record
   headers of the pre-sync segment files for the Coq walk [RbProto.rb_scan], and prints what the extracted
   functions return: [rb_explain] (= [rb_discipline] with a verdict, RbProto_proofs.rb_explain_ok),
   [start_checks], [inst_checks]; the disk is advanced with [rb_run] only.

   rbcheck <file> [dump]   -> one "rbsync <id> k=v ..." line per sync section (with "dump": preceded by the
                              "rec <id> <seg> <off> <len>" lines of every record the decoder found),
                              then "end"

   History file, one item per line (numbers decimal; offsets and lengths in 4 KiB blocks; <seg> = the
   number in the file name rollback.<10 digits>.log):
     ev C <seg>                     segment created                       (ECreate)
     ev A <seg> <off> <rid> <len>   record <rid> written at [off, off+len) (EAppend)
     ev T <seg> <len>               ftruncate to <len> blocks returned    (ETrunc)
     ev F <seg>                     fsync / fdatasync of the segment      (ESync)
     ev D                           fsync / fdatasync of the directory    (EDirSync)
     ev U <seg>                     unlink returned                       (EUnlink)
     ev MW <s> <e>                  manifest written with live range      (EMetaWrite)
     ev MS                          manifest fsync returned               (EMetaSync)
   Outside a sync section an event advances the disk (dstep; manifest events are ignored there).
   A sync section
     rbsync <id> <label> / maxlen <m> / old <s> <e> / new <s> <e> / rec <id> <seg> <off> <len> / decode <dir> / ev ... / endsync
   holds the armed trace of one sync and what its instance is built from (RbProto.mk_inst): max_rollback_log_len,
   the live range stored in the old and in the new manifest (mapped through RbProto.guaranteed m: the records a
   manifest promises, and RbProto.scan_start: what the reader needs in front of them; maxlen 0 or absent = no
   guaranteed-mapping), and the records of the pre-sync segment files, explicit ("rec", used in replays and
   mutants) or decoded from the copies of the files in <dir> ("decode": rb_scan over every rollback.*.log).
   At endsync the section is evaluated on d0 = the disk reached so far; then the disk is advanced through
   the section's events and the manifest state is reset to "old" for the next sync. *)

open BinNums
open RbProto

let n_of_int = Img_cmds.n_of_int
let int_of_n = Img_cmds.int_of_n
let dec = Img_cmds.dec_of_n

let rec nat_of_int n = if n <= 0 then Datatypes.O else Datatypes.S (nat_of_int (n - 1))
let rec int_of_nat = function Datatypes.O -> 0 | Datatypes.S n -> 1 + int_of_nat n

let num s = n_of_int (int_of_string s)

let ev_of_tokens = function
  | [ "C"; s ] -> ECreate (num s)
  | [ "A"; s; off; rid; len ] -> EAppend (num s, num off, num rid, num len)
  | [ "T"; s; len ] -> ETrunc (num s, num len)
  | [ "F"; s ] -> ESync (num s)
  | [ "D" ] -> EDirSync
  | [ "U"; s ] -> EUnlink (num s)
  | [ "MW"; s; e ] -> EMetaWrite (num s, num e)
  | [ "MS" ] -> EMetaSync
  | l -> failwith ("rb event " ^ String.concat " " l)

let string_of_ev = function
  | ECreate s -> Printf.sprintf "C:%s" (dec s)
  | EAppend (s, off, rid, len) -> Printf.sprintf "A:%s:%s:%s:%s" (dec s) (dec off) (dec rid) (dec len)
  | ETrunc (s, len) -> Printf.sprintf "T:%s:%s" (dec s) (dec len)
  | ESync s -> Printf.sprintf "F:%s" (dec s)
  | EDirSync -> "D"
  | EUnlink s -> Printf.sprintf "U:%s" (dec s)
  | EMetaWrite (s, e) -> Printf.sprintf "MW:%s:%s" (dec s) (dec e)
  | EMetaSync -> "MS"

let string_of_rec (r : rrec) = Printf.sprintf "%s:%s:%s:%s" (dec r.r_id) (dec r.r_seg) (dec r.r_off) (dec r.r_len)

let clause_name = function
  | KNoSwitch -> "no-manifest-fsync" | KOrder -> "manifest-fsync-before-write" | KMetaWrite -> "manifest-range"
  | KMid -> "between-manifest-write-and-fsync" | KPreMeta -> "pre-manifest-event" | KPreCreate -> "pre-create-live-segment"
  | KPreUnlink -> "pre-unlink-live-segment" | KPreTrunc -> "pre-truncate-live-record" | KPreOverwrite -> "pre-overwrite-live-record"
  | KNewMissing -> "new-record-not-appended" | KNewOrder -> "new-record-misplaced" | KNewDir -> "new-record-dir-entry-not-durable"
  | KNewUnsynced -> "new-record-segment-unsynced" | KNewContent -> "new-record-not-in-durable-file"
  | KPostUnlink -> "post-unlink-new-live-segment" | KPostTrunc -> "post-truncate-new-live-record" | KPostWrite -> "post-write"

let start_name = function
  | 0 -> "manifest-is-old" | 1 -> "old-records-dir-entry-durable" | 2 -> "old-records-segment-synced"
  | 3 -> "old-records-in-durable-file" | n -> string_of_int n

let inst_name = function
  | 0 -> "old-range" | 1 -> "new-range" | 2 -> "old-placement-complete-and-consecutive" | 3 -> "old-records-live-and-nonempty"
  | 4 -> "start-moves-forward" | n -> string_of_int n

let failed name checks =
  let bad = Stdlib.List.filter (fun (_, b) -> not b) checks in
  if bad = [] then "ok" else "FAIL:" ^ String.concat "," (Stdlib.List.map (fun (i, _) -> name (int_of_nat i)) bad)

(* ---------------------------------------------------------------------------------------- *)
(* the pre-sync segment files: headers for RbProto.rb_scan *)

let seg_of_filename (f : string) : int option =
  (* rollback.<10 digits>.log *)
  let n = String.length f in
  if n = 23 && String.sub f 0 9 = "rollback." && String.sub f 19 4 = ".log" then int_of_string_opt (String.sub f 9 10)
  else None

let le_int (b : Bytes.t) (off : int) (len : int) : int =
  let v = ref 0 in
  for i = len - 1 downto 0 do
    v := (!v lsl 8) lor Char.code (Bytes.get b (off + i))
  done;
  !v

type decoded = { all : rrec list; files : int; info : string }

let decode_dir (dir : string) : decoded =
  let names = try Sys.readdir dir with Sys_error _ -> [||] in
  let segs =
    Array.to_list names |> Stdlib.List.filter_map (fun f -> match seg_of_filename f with Some s -> Some (s, f) | None -> None)
    |> Stdlib.List.sort compare
  in
  let all =
    Stdlib.List.concat_map
      (fun (seg, f) ->
        let ic = open_in_bin (Filename.concat dir f) in
        let size = in_channel_length ic in
        let hdr (b : coq_N) : (coq_N * coq_N) option =
          let off = int_of_n b * 4096 in
          if off + 12 > size then None
          else begin
            seek_in ic off;
            let buf = Bytes.create 12 in
            really_input ic buf 0 12;
            Some (n_of_int (le_int buf 0 4), n_of_int (le_int buf 4 7))
          end
        in
        let blocks = (size + 4095) / 4096 in
        let l = rb_scan (nat_of_int (blocks + 1)) (n_of_int seg) hdr (n_of_int blocks) N0 in
        close_in_noerr ic;
        l)
      segs
  in
  { all; files = Stdlib.List.length segs; info = Printf.sprintf "decode=ok files=%d decoded=%d" (Stdlib.List.length segs) (Stdlib.List.length all) }

(* ---------------------------------------------------------------------------------------- *)

type section = {
  id : string;
  mutable maxlen : coq_N;            (* N0 = ranges taken literally *)
  mutable os : coq_N; mutable oe : coq_N; mutable ns : coq_N; mutable ne : coq_N;   (* as stored in the manifests *)
  mutable recs_x : rrec list;        (* explicit rec lines, reversed *)
  mutable dir : string option;
  mutable tr : ev list;              (* reversed *)
}

let count p l = Stdlib.List.length (Stdlib.List.filter p l)

let evaluate (d0 : disk) (prev : coq_N) (s : section) (dump : bool) (emit : string -> unit) : ev list * coq_N =
  let tr0 = Stdlib.List.rev s.tr in
  (* every record found in the pre-sync segment files (or listed explicitly) *)
  let dec_info, all =
    match s.dir with
    | Some dir ->
        let d = decode_dir dir in
        (d.info, d.all @ Stdlib.List.rev s.recs_x)
    | None -> ("decode=explicit", Stdlib.List.rev s.recs_x)
  in
  let iw0 = match index_of is_meta_write tr0 with Some n -> int_of_nat n | None -> -1 in
  let pre0 = Stdlib.List.filteri (fun k _ -> iw0 < 0 || k < iw0) tr0 in
  (* ranges: what the manifests promise (guaranteed) and what the reader needs in front of it (scan_start) *)
  let i = mk_inst s.maxlen prev all s.os s.oe s.ns s.ne pre0 in
  let prev' = eff_start s.maxlen (eff_start s.maxlen prev s.os s.oe) s.ns s.ne in
  let recs = i.o_recs in
  let os, oe, ns, ne = (i.o_start, i.o_end, i.n_start, i.n_end) in
  (* a manifest write that carries the range of the "new" line carries the new range of the instance *)
  let same a b = int_of_n a = int_of_n b in
  let tr =
    Stdlib.List.map (function EMetaWrite (a, b) when same a s.ns && same b s.ne -> EMetaWrite (ns, ne) | e -> e) tr0
  in
  if dump then
    Stdlib.List.iter
      (fun (r : rrec) -> emit (Printf.sprintf "rec %s %s %s %s" (dec r.r_id) (dec r.r_seg) (dec r.r_off) (dec r.r_len)))
      all;
  let verdict = rb_explain i d0 tr in
  (* the theorem's hypothesis is [rb_discipline]; evaluate it too so that the two never drift apart *)
  let disc = rb_discipline i d0 tr in
  let arr = Array.of_list tr in
  let iw = match index_of is_meta_write tr with Some n -> int_of_nat n | None -> -1 in
  let pre = Stdlib.List.filteri (fun k _ -> iw < 0 || k < iw) tr in
  let new_ids = ids_of i.n_start i.n_end in
  let disc_s =
    match verdict with
    | None -> if disc then "discipline=ok" else "discipline=FAIL clause=explain-disagrees pos=0 at=-"
    | Some (c, pos) ->
        let p = int_of_nat pos in
        let at =
          match c with
          | KNewMissing | KNewDir | KNewUnsynced | KNewContent -> (
              match Stdlib.List.nth_opt new_ids p with
              | Some id -> (
                  match find_rec (new_recs i pre) id with
                  | Some r -> "rec:" ^ string_of_rec r
                  | None -> "id:" ^ dec id)
              | None -> "-")
          | _ -> if p < Array.length arr then string_of_ev arr.(p) else "-"
        in
        Printf.sprintf "discipline=FAIL%s clause=%s pos=%d at=%s" (if disc then "-BUT-discipline-true" else "") (clause_name c) p at
  in
  let st = start_checks i d0 in
  let ic = inst_checks i in
  let is_k f e = f e in
  emit
    (Printf.sprintf
       "rbsync %s %s start=%s inst=%s old=%s-%s new=%s-%s manifest_old=%s-%s manifest_new=%s-%s recs=%d events=%d \
        manifest_write_at=%d creates=%d appends=%d truncs=%d fsyncs=%d dirsyncs=%d unlinks=%d %s"
       s.id disc_s (failed start_name st) (failed inst_name ic) (dec os) (dec oe) (dec ns) (dec ne) (dec s.os) (dec s.oe)
       (dec s.ns) (dec s.ne)
       (Stdlib.List.length recs) (Array.length arr) iw
       (count (is_k (function ECreate _ -> true | _ -> false)) tr)
       (count (is_k (function EAppend _ -> true | _ -> false)) tr)
       (count (is_k (function ETrunc _ -> true | _ -> false)) tr)
       (count (is_k (function ESync _ -> true | _ -> false)) tr)
       (count (is_k (function EDirSync -> true | _ -> false)) tr)
       (count (is_k (function EUnlink _ -> true | _ -> false)) tr)
       dec_info);
  (tr, prev')

let rbcheck (path : string) (dump : bool) : string =
  let ic = open_in path in
  let out = Buffer.create 4096 in
  let emit s = Buffer.add_string out s; Buffer.add_char out '\n' in
  let disk : disk ref = ref dempty in
  let prev : coq_N ref = ref N0 in   (* the start the previous manifest promised *)
  let cur : section option ref = ref None in
  (try
     while true do
       let line = input_line ic in
       let toks = String.split_on_char ' ' line |> Stdlib.List.filter (fun s -> s <> "") in
       match (toks, !cur) with
       | [], _ -> ()
       | t :: _, _ when String.length t > 0 && t.[0] = '#' -> ()
       | "ev" :: e, None -> (
           match ev_of_tokens e with
           | EMetaWrite _ | EMetaSync -> ()
           | e -> disk := dstep !disk e)
       | "ev" :: e, Some s -> s.tr <- ev_of_tokens e :: s.tr
       | "rbsync" :: id :: _, None ->
           cur := Some { id; maxlen = N0; os = N0; oe = N0; ns = N0; ne = N0; recs_x = []; dir = None; tr = [] }
       | [ "maxlen"; m ], Some s -> s.maxlen <- num m
       | [ "old"; a; b ], Some s -> s.os <- num a; s.oe <- num b
       | [ "new"; a; b ], Some s -> s.ns <- num a; s.ne <- num b
       | [ "rec"; id; seg; off; len ], Some s ->
           s.recs_x <- { r_id = num id; r_seg = num seg; r_off = num off; r_len = num len } :: s.recs_x
       | [ "decode"; dir ], Some s -> s.dir <- Some dir
       | [ "endsync" ], Some s ->
           let tr, p = evaluate !disk !prev s dump emit in
           prev := p;
           let d = rb_run !disk tr in
           disk := { d_names = d.d_names; d_meta = MOld };
           cur := None
       | _ -> failwith ("rb history line: " ^ line)
     done
   with
   | End_of_file -> close_in_noerr ic
   | e -> close_in_noerr ic; raise e);
  Buffer.add_string out "end";
  Buffer.contents out

let handle (toks : string list) : string option =
  match toks with
  | [ "rbcheck"; path ] -> Some (rbcheck path false)
  | [ "rbcheck"; path; "dump" ] -> Some (rbcheck path true)
  | _ -> None
