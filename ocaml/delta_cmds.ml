(* Rollback delta commands: run the extracted Coq mirror of nomt/src/rollback/delta.rs (DeltaCodec.v)
   on the payload of a record of a real rollback log (engine: harness/src/rbtrace.rs, which cuts
   the payloads out of the segment files it reconstructs from the observed writes).  This module
   only reads the bytes and prints: the verdict is [DeltaCodec.decode_groups], the re-encoding test is
   [DeltaCodec.reencodes] (= [encode_groups] of the decoded groups, in the decoded order, compared
   with the payload by [Wal.bytes_eqb]).

   deltadec <file>      the file holds the payload bytes of ONE record
   deltadechex <hex>    the payload given in hex ("-" = the empty payload)
     -> "delta ok erase=<n> reinstate=<m> rest=<bytes left in the cursor> reencode=ok|diff"
        "e <key hex>"                         per key to erase (prior = None), in the order of the bytes
        "r <key hex> <len> <value hex>"       per key to reinstate (prior = Some value; len 0: no hex)
        "end"
      | "delta err <short:<place>|dup-erase <key hex>|dup-reinstate <key hex>>" "end"
      | "delta panic" "end"                   (never: DeltaCodec_proofs.delta_decode_total)
      | "delta nofile" "end" *)

open BinNums

let hex = Img_cmds.hex_of_bytes

let stage_name (s : DeltaCodec.dstage) : string =
  match s with
  | DeltaCodec.SEraseCount -> "erase-count"
  | DeltaCodec.SEraseKey -> "erase-key"
  | DeltaCodec.SReinstateCount -> "reinstate-count"
  | DeltaCodec.SReinstateKey -> "reinstate-key"
  | DeltaCodec.SValueLen -> "value-length"
  | DeltaCodec.SValue -> "value"

let err_name (e : DeltaCodec.delta_err) : string =
  match e with
  | DeltaCodec.DShort s -> "short:" ^ stage_name s
  | DeltaCodec.DDupErase k -> "dup-erase " ^ hex k
  | DeltaCodec.DDupReinstate k -> "dup-reinstate " ^ hex k

let decode_bytes (bytes : coq_N list) : string =
  let out = Buffer.create 4096 in
  let emit s = Buffer.add_string out s; Buffer.add_char out '\n' in
  (match DeltaCodec.decode_groups bytes with
   | Result.Ok (g, rest) ->
       emit
         (Printf.sprintf "delta ok erase=%d reinstate=%d rest=%d reencode=%s"
            (Stdlib.List.length g.DeltaCodec.g_erase)
            (Stdlib.List.length g.DeltaCodec.g_reinstate)
            (Stdlib.List.length rest)
            (if DeltaCodec.reencodes bytes g then "ok" else "diff"));
       Stdlib.List.iter (fun k -> emit ("e " ^ hex k)) g.DeltaCodec.g_erase;
       Stdlib.List.iter
         (fun (k, v) -> emit (Printf.sprintf "r %s %d %s" (hex k) (Stdlib.List.length v) (hex v)))
         g.DeltaCodec.g_reinstate
   | Result.Err e -> emit ("delta err " ^ err_name e)
   | Result.Panic -> emit "delta panic");
  Buffer.add_string out "end";
  Buffer.contents out

let handle (toks : string list) : string option =
  match toks with
  | [ "deltadec"; path ] -> (
      match Wal_cmds.read_all path with
      | Some bytes -> Some (decode_bytes bytes)
      | None -> Some "delta nofile\nend")
  | [ "deltadechex"; h ] -> Some (decode_bytes (if h = "-" then [] else Img_cmds.bytes_of_hex h))
  | _ -> None
