(* Image commands: run the extracted Coq decoder (Image.v) on the real files of a NOMT directory.
   This module only moves bytes and prints: it reads 4096-byte pages from meta / ln / bbn / ht on
   demand and hands them to the extracted code as lists of N, stores the two oracles uploaded by the
   harness (node id -> hash of the reference trie, page label -> xxh3 hash) and prints what the
   extracted functions return.  Every decision is taken by extracted code.

   imgopen <dir>                      -> ok            (forgets the previous image and both oracles)
   imghashes <id>:<hex64> ...         -> ok            (several lines allowed)
   imglabels                          -> seed <hex32>, then <hex64> per FULL bucket ... end
   imgoracle <hex64>:<hex16> ...      -> ok            (label -> xxh3_64 hash, several lines allowed)
   imgcheck                           -> <check> ok | <check> FAIL <code> <x> <y> ... end
   imgkv                              -> <keyhex> <len> <fnv64> i | <keyhex> <len> <fnv64> o <valuehash> ... end
   imgstats                           -> one line of k=v pairs
   imgseps <n>                        -> t <keyhex> (up to n separators stored without prefix compression behind
                                         compressed ones), b <keyhex> (first separators of up to n branches, evenly
                                         spread), l <keyhex> (separators of up to n leaves) ... end   (lookup targets)
   imglookup <keyhex> ...             -> prefix_unrecoverable <n> partial <m> (m = branches in which only some
                                         separators are prefix-compressed), then per key
                                         <keyhex> none <route> | <keyhex> <len> <fnv64> <route> ... end
                                         (ReadPath.lookup, the mirror of NOMT's read path, on the opened image;
                                          route = nobranch | nochild:<bbn> | noleaf:<bbn>:<i>:<ln> |
                                                  miss:<bbn>:<i>:<ln> | hit:<bbn>:<i>:<ln>)
   imgseekkeys <n>                    -> e <keyhex> for up to n present keys whose terminal lies below an ELIDED
                                         page (SeekPath.under_elided; evenly spread) ... end      (seek targets)
   imgseek <keyhex> ...               -> wf_root ok|FAIL, then per key
                                         <keyhex> none | <keyhex> leaf <leafkeyhex> <sd> <n> <hex64>*n |
                                         <keyhex> term <depth> <sd> <n> <hex64>*n ... end
                                         (SeekPath.seek_with, the mirror of Session::prove, on the opened image
                                          with the uploaded hash oracle; sd = stored pages on the key's page
                                          path, n siblings root first)
   imgreencode                        -> reencode FAIL <kind> <pn> <offset> per difference (kind = leaf | branch |
                                         overflow | manifest; at most 8 offsets per page; offset 4096 = the page or
                                         the expected page is not 4096 bytes long; offset 4097 = page not readable /
                                         cells not readable), then
                                         reencode note noncanon <bbn pn> <count> per branch page with separators of
                                         non-canonical stored length (information only), then
                                         reencode ok|bad leaves=.. branches=.. overflow=.. manifest=1 bytes_compared=..
                                         undef_nonzero=.. noncanon=.. ... end
                                         (NodeCodec.v: every leaf, branch and overflow page and the manifest of the
                                          decoded image is ENCODED again from its decoded content and compared with
                                          the file on the bytes the builders define; undef_nonzero = non-zero bytes in
                                          the undefined regions, noncanon = separators whose stored length is not
                                          separator_len(key)) *)

open BinNums

let rec pos_of_int n : positive =
  if n = 1 then Coq_xH
  else if n land 1 = 0 then Coq_xO (pos_of_int (n lsr 1))
  else Coq_xI (pos_of_int (n lsr 1))

let n_of_int n : coq_N = if n = 0 then N0 else Npos (pos_of_int n)

let rec int_of_pos = function
  | Coq_xH -> 1
  | Coq_xO p -> 2 * int_of_pos p
  | Coq_xI p -> (2 * int_of_pos p) + 1

let int_of_n = function N0 -> 0 | Npos p -> int_of_pos p

let hexval c =
  match c with
  | '0' .. '9' -> Char.code c - 48
  | 'a' .. 'f' -> Char.code c - 87
  | 'A' .. 'F' -> Char.code c - 55
  | _ -> failwith "hex"

(* big-endian hex string -> N (any width) *)
let n_of_hex (s : string) : coq_N =
  let p = ref None in
  String.iter
    (fun c ->
      let v = hexval c in
      for b = 3 downto 0 do
        let bit = (v lsr b) land 1 = 1 in
        p :=
          match !p with
          | None -> if bit then Some Coq_xH else None
          | Some q -> Some (if bit then Coq_xI q else Coq_xO q)
      done)
    s;
  match !p with None -> N0 | Some q -> Npos q

(* N -> big-endian hex string of [bytes] bytes *)
let hex_of_n (n : coq_N) (bytes : int) : string =
  let nbits = 8 * bytes in
  let bits = Array.make nbits false in
  let rec fill p i =
    if i < nbits then
      match p with
      | Coq_xH -> bits.(i) <- true
      | Coq_xO q -> fill q (i + 1)
      | Coq_xI q -> bits.(i) <- true; fill q (i + 1)
  in
  (match n with N0 -> () | Npos p -> fill p 0);
  let buf = Buffer.create (2 * bytes) in
  for nib = (2 * bytes) - 1 downto 0 do
    let v = ref 0 in
    for b = 3 downto 0 do
      v := (!v lsl 1) lor (if bits.((4 * nib) + b) then 1 else 0)
    done;
    Buffer.add_char buf "0123456789abcdef".[!v]
  done;
  Buffer.contents buf

let dec_of_n (n : coq_N) : string =
  (* numbers printed in decimal fit an OCaml int in every sane image; fall back to hex *)
  let rec size = function Coq_xH -> 1 | Coq_xO p | Coq_xI p -> 1 + size p in
  match n with
  | N0 -> "0"
  | Npos p -> if size p <= 60 then string_of_int (int_of_pos p) else "0x" ^ hex_of_n n 32

let byte_n : coq_N array = Array.init 256 n_of_int

let hex_of_bytes (l : coq_N list) : string =
  let buf = Buffer.create 64 in
  Stdlib.List.iter (fun b -> Buffer.add_string buf (Printf.sprintf "%02x" (int_of_n b))) l;
  Buffer.contents buf

let bytes_of_hex (s : string) : coq_N list =
  let n = String.length s / 2 in
  let rec go i acc = if i < 0 then acc else go (i - 1) (byte_n.((16 * hexval s.[2 * i]) + hexval s.[(2 * i) + 1]) :: acc) in
  go (n - 1) []

let hex_of_key (k : bool list) : string =
  let arr = Array.of_list k in
  let n = Array.length arr in
  let buf = Buffer.create 64 in
  for i = 0 to ((n + 3) / 4) - 1 do
    let v = ref 0 in
    for b = 0 to 3 do
      let idx = (4 * i) + b in
      v := (!v lsl 1) lor (if idx < n && arr.(idx) then 1 else 0)
    done;
    Buffer.add_char buf "0123456789abcdef".[!v]
  done;
  Buffer.contents buf

(* 64 hex digits -> the 256 bits, most significant first *)
let key_of_hex (s : string) : bool list =
  let l = ref [] in
  for i = String.length s - 1 downto 0 do
    let v = hexval s.[i] in
    for b = 0 to 3 do
      l := ((v lsr b) land 1 = 1) :: !l
    done
  done;
  !l

(* ---------------------------------------------------------------------------------------- *)
(* files *)

type fileh = { ch : in_channel option; pages : int; cache : (int, coq_N list) Hashtbl.t }

let open_file (path : string) : fileh =
  match (try Some (open_in_bin path) with Sys_error _ -> None) with
  | None -> { ch = None; pages = 0; cache = Hashtbl.create 1 }
  | Some ch -> { ch = Some ch; pages = in_channel_length ch / 4096; cache = Hashtbl.create 64 }

let close_file (f : fileh) = match f.ch with Some ch -> close_in_noerr ch | None -> ()

let page_buf = Bytes.create 4096

let read_page (f : fileh) (pn : coq_N) : coq_N list option =
  let rec small = function Coq_xH -> 1 | Coq_xO p | Coq_xI p -> 1 + small p in
  match f.ch with
  | None -> None
  | Some ch ->
      let ok = match pn with N0 -> true | Npos p -> small p <= 40 in
      if not ok then None
      else
        let i = int_of_n pn in
        if i >= f.pages then None
        else
          match Hashtbl.find_opt f.cache i with
          | Some l -> Some l
          | None ->
              seek_in ch (i * 4096);
              really_input ch page_buf 0 4096;
              let l = ref [] in
              for j = 4095 downto 0 do
                l := byte_n.(Char.code (Bytes.unsafe_get page_buf j)) :: !l
              done;
              if Hashtbl.length f.cache < 8 then Hashtbl.replace f.cache i !l;
              Some !l

(* ---------------------------------------------------------------------------------------- *)
(* state *)

let handles : fileh list ref = ref []
let cur_files : Image.files option ref = ref None
let cur_image : Image.image Image.res option ref = ref None
let hashes : (int, coq_N list) Hashtbl.t = Hashtbl.create 4096
let oracle : (string, coq_N) Hashtbl.t = Hashtbl.create 1024
let last_mw : Image.mw option ref = ref None

let hash_of (id : coq_N) : coq_N list option = Hashtbl.find_opt hashes (int_of_n id)
let xxh (lab : coq_N) : coq_N option = Hashtbl.find_opt oracle (hex_of_n lab 32)

let imgopen (dir : string) =
  Stdlib.List.iter close_file !handles;
  let meta = open_file (Filename.concat dir "meta") in
  let ln = open_file (Filename.concat dir "ln") in
  let bbn = open_file (Filename.concat dir "bbn") in
  let ht = open_file (Filename.concat dir "ht") in
  handles := [ meta; ln; bbn; ht ];
  cur_files :=
    Some
      { Image.rd_meta = read_page meta; rd_ln = read_page ln; rd_bbn = read_page bbn; rd_ht = read_page ht;
        sz_ln = n_of_int ln.pages; sz_bbn = n_of_int bbn.pages; sz_ht = n_of_int ht.pages };
  cur_image := None;
  last_mw := None;
  Hashtbl.reset hashes;
  Hashtbl.reset oracle

let image () : Image.image Image.res =
  match !cur_image with
  | Some r -> r
  | None ->
      let fs = match !cur_files with Some fs -> fs | None -> failwith "imgopen first" in
      let r = Image.decode_image fs in
      (* the decoded image holds everything it needs: drop the raw page caches *)
      Stdlib.List.iter (fun f -> Hashtbl.reset f.cache) !handles;
      cur_image := Some r;
      r

(* ---------------------------------------------------------------------------------------- *)
(* names *)

let ecode_name (c : Image.ecode) : string =
  match c with
  | Image.EReadMeta -> "EReadMeta" | Image.EReadLn -> "EReadLn" | Image.EReadBbn -> "EReadBbn"
  | Image.EReadHt -> "EReadHt" | Image.EShortPage -> "EShortPage" | Image.EField -> "EField"
  | Image.EBumpBeyondFile -> "EBumpBeyondFile" | Image.EFreeListLoop -> "EFreeListLoop"
  | Image.EFreeListCount -> "EFreeListCount" | Image.EBranchHeader -> "EBranchHeader"
  | Image.EBranchCells -> "EBranchCells" | Image.EBranchBits -> "EBranchBits"
  | Image.EBranchSepLen -> "EBranchSepLen" | Image.EBranchPn -> "EBranchPn"
  | Image.ELeafHeader -> "ELeafHeader" | Image.ELeafOffsets -> "ELeafOffsets"
  | Image.EOvfCell -> "EOvfCell" | Image.EOvfSize -> "EOvfSize" | Image.EOvfPage -> "EOvfPage"
  | Image.EHtSize -> "EHtSize"
  | Image.WMagic -> "WMagic" | Image.WVersion -> "WVersion" | Image.WBump -> "WBump"
  | Image.WRollbackNil -> "WRollbackNil" | Image.WFreeHead -> "WFreeHead"
  | Image.WFirstSep -> "WFirstSep" | Image.WLeafKeyOrder -> "WLeafKeyOrder"
  | Image.WLeafBelowSep -> "WLeafBelowSep" | Image.WLeafAboveNext -> "WLeafAboveNext"
  | Image.WSepOrder -> "WSepOrder" | Image.WLeafPn -> "WLeafPn" | Image.WBbnPn -> "WBbnPn"
  | Image.WOvfIncomplete -> "WOvfIncomplete" | Image.WOvfLen -> "WOvfLen" | Image.WOvfPages -> "WOvfPages"
  | Image.WPageDup -> "WPageDup" | Image.WPageRange -> "WPageRange" | Image.WPageCover -> "WPageCover"
  | Image.WMetaPadding -> "WMetaPadding" | Image.WLabel -> "WLabel"
  | Image.WNoOracle -> "WNoOracle" | Image.WMetaByte -> "WMetaByte" | Image.WProbeEmpty -> "WProbeEmpty"
  | Image.WProbeFuel -> "WProbeFuel" | Image.WLabelDup -> "WLabelDup"
  | Image.WRootPageMissing -> "WRootPageMissing" | Image.WNodeMismatch -> "WNodeMismatch"
  | Image.WNodeIndex -> "WNodeIndex" | Image.WNoHash -> "WNoHash"
  | Image.WElidedButStored -> "WElidedButStored" | Image.WAbsentNotMarked -> "WAbsentNotMarked"
  | Image.WStoredBelowAbsent -> "WStoredBelowAbsent" | Image.WKeysUnsorted -> "WKeysUnsorted"

let check_name (c : Image.check_id) : string =
  match c with
  | Image.CkDecode -> "decode" | Image.CkManifest -> "wf_manifest" | Image.CkLeafOrder -> "wf_leaf_order"
  | Image.CkBranches -> "wf_branches" | Image.CkOverflow -> "wf_overflow"
  | Image.CkPagesLn -> "wf_pages_disjoint_ln" | Image.CkPagesBbn -> "wf_pages_disjoint_bbn"
  | Image.CkHtMeta -> "wf_ht_meta" | Image.CkHtProbe -> "wf_ht_probe" | Image.CkMerkle -> "wf_merkle"

let verdict_line (c, v) =
  match v with
  | None -> check_name c ^ " ok"
  | Some ((code, x), y) -> Printf.sprintf "%s FAIL %s %s %s" (check_name c) (ecode_name code) (dec_of_n x) (dec_of_n y)

(* ---------------------------------------------------------------------------------------- *)

let fnv64 (l : coq_N list) : int64 =
  let h = ref 0xcbf29ce484222325L in
  Stdlib.List.iter
    (fun b ->
      h := Int64.logxor !h (Int64.of_int (int_of_n b));
      h := Int64.mul !h 0x100000001b3L)
    l;
  !h

let lines (l : string list) : string = String.concat "\n" (l @ [ "end" ])

let split_pair (s : string) : string * string =
  let i = String.index s ':' in
  (String.sub s 0 i, String.sub s (i + 1) (String.length s - i - 1))

let handle (toks : string list) : string option =
  match toks with
  | [ "imgopen"; dir ] -> imgopen dir; Some "ok"
  | "imghashes" :: entries ->
      Stdlib.List.iter
        (fun e -> let id, h = split_pair e in Hashtbl.replace hashes (int_of_string id) (bytes_of_hex h))
        entries;
      Some "ok"
  | "imgoracle" :: entries ->
      Stdlib.List.iter
        (fun e -> let lab, h = split_pair e in Hashtbl.replace oracle (String.lowercase_ascii lab) (n_of_hex h))
        entries;
      Some "ok"
  | [ "imglabels" ] -> (
      match image () with
      | Image.Ok img ->
          Some
            (lines
               (("seed " ^ hex_of_bytes img.Image.i_manifest.Image.mf_bitbox_seed)
                :: Stdlib.List.map (fun p -> hex_of_bytes p.Image.p_label_bytes) img.Image.i_ht.Image.h_pages))
      | Image.Err _ -> Some (lines []))
  | [ "imgcheck" ] -> (
      match image () with
      | Image.Ok img ->
          let checks, mr = Image.check_image_mw hash_of xxh img in
          last_mw := Some mr;
          Some (lines (Stdlib.List.map verdict_line checks))
      | Image.Err (c, x, y) -> Some (lines [ verdict_line (Image.CkDecode, Some ((c, x), y)) ]))
  | [ "imgkv" ] -> (
      match image () with
      | Image.Ok img ->
          Some
            (lines
               (Stdlib.List.map
                  (fun e ->
                    let base =
                      Printf.sprintf "%s %d %016Lx" (hex_of_key e.Image.e_key) (Stdlib.List.length e.Image.e_val)
                        (fnv64 e.Image.e_val)
                    in
                    match e.Image.e_ovf with
                    | None -> base ^ " i"
                    | Some o -> base ^ " o " ^ hex_of_bytes o.Image.o_hash)
                  (Image.entries img)))
      | Image.Err _ -> Some (lines [ "undecodable" ]))
  | [ "imgseps"; n ] -> (
      match image () with
      | Image.Ok img ->
          let n = max 2 (int_of_string n) in
          let spread l =
            let a = Stdlib.Array.of_list l in
            let len = Stdlib.Array.length a in
            if len <= n then l else Stdlib.List.init n (fun j -> a.(j * (len - 1) / (n - 1)))
          in
          let bs = Stdlib.List.map (fun b -> "b " ^ hex_of_key (Image.first_sep b)) (spread img.Image.i_branches) in
          let ls = Stdlib.List.map (fun l -> "l " ^ hex_of_key l.Image.l_sep) (spread img.Image.i_leaves) in
          (* separators stored whole behind the prefix-compressed ones (index >= prefix_compressed) *)
          let rec drop k l = if k <= 0 then l else match l with [] -> [] | _ :: r -> drop (k - 1) r in
          let tails =
            Stdlib.List.concat_map (fun b -> drop (int_of_n b.Image.b_prefix_compressed) b.Image.b_seps) img.Image.i_branches
          in
          let ts = Stdlib.List.map (fun k -> "t " ^ hex_of_key k) (spread tails) in
          Some (lines (ts @ bs @ ls))
      | Image.Err _ -> Some (lines []))
  | "imglookup" :: keys -> (
      match image () with
      | Image.Ok img ->
          let d = dec_of_n in
          let route (t : ReadPath.trace) : string =
            match t with
            | ReadPath.TNoBranch -> "nobranch"
            | ReadPath.TNoChild b -> "nochild:" ^ d b
            | ReadPath.TNoLeaf (b, i, pn) -> Printf.sprintf "noleaf:%s:%s:%s" (d b) (d i) (d pn)
            | ReadPath.TLeafMiss (b, i, pn) -> Printf.sprintf "miss:%s:%s:%s" (d b) (d i) (d pn)
            | ReadPath.THit (b, i, pn, _) -> Printf.sprintf "hit:%s:%s:%s" (d b) (d i) (d pn)
          in
          Some
            (lines
               ((Printf.sprintf "prefix_unrecoverable %s partial %d" (d (ReadPath.unrecoverable_prefixes img))
                   (Stdlib.List.length
                      (Stdlib.List.filter
                         (fun b -> int_of_n b.Image.b_prefix_compressed < Stdlib.List.length b.Image.b_seps)
                         img.Image.i_branches)))
                :: Stdlib.List.map
                     (fun hk ->
                       let k = key_of_hex hk in
                       let r = route (ReadPath.lookup_trace img k) in
                       match ReadPath.lookup img k with
                       | None -> Printf.sprintf "%s none %s" hk r
                       | Some v -> Printf.sprintf "%s %d %016Lx %s" hk (Stdlib.List.length v) (fnv64 v) r)
                     keys))
      | Image.Err _ -> Some (lines [ "undecodable" ]))
  | [ "imgseekkeys"; n ] -> (
      match image () with
      | Image.Ok img ->
          let n = max 1 (int_of_string n) in
          let pages = SeekPath.img_pages img in
          let rt = Image.ref_trie img in
          let hits =
            Stdlib.List.filter (fun (k, _) -> SeekPath.under_elided pages rt k) (Image.abs_kv img)
          in
          let a = Stdlib.Array.of_list hits in
          let len = Stdlib.Array.length a in
          let picked =
            if len <= n then hits
            else Stdlib.List.init n (fun j -> a.(if n = 1 then 0 else j * (len - 1) / (n - 1)))
          in
          Some (lines (Stdlib.List.map (fun (k, _) -> "e " ^ hex_of_key k) picked))
      | Image.Err _ -> Some (lines []))
  | "imgseek" :: keys -> (
      match image () with
      | Image.Ok img ->
          let pages = SeekPath.img_pages img in
          let rt = Image.ref_trie img in
          let kvs = Image.abs_kv img in
          let one hk =
            let k = key_of_hex hk in
            let sd = dec_of_n (SeekPath.stored_depth pages k) in
            match SeekPath.seek_with hash_of pages kvs rt k with
            | None -> Printf.sprintf "%s none" hk
            | Some (sibs, tm) ->
                let ss = String.concat " " (Stdlib.List.map hex_of_bytes sibs) in
                let n = Stdlib.List.length sibs in
                (match tm with
                 | Trie.TLeaf (lk, _) -> Printf.sprintf "%s leaf %s %s %d %s" hk (hex_of_key lk) sd n ss
                 | Trie.TTerm path -> Printf.sprintf "%s term %d %s %d %s" hk (Stdlib.List.length path) sd n ss)
          in
          Some (lines ((if SeekPath.wf_root img then "wf_root ok" else "wf_root FAIL") :: Stdlib.List.map one keys))
      | Image.Err _ -> Some (lines [ "undecodable" ]))
  | [ "imgreencode" ] -> (
      match image (), !cur_files with
      | Image.Ok img, Some fs ->
          let out = ref [] in
          let bytes = ref 0 and stale = ref 0 and noncanon = ref 0 in
          let stale_by : (string, int) Hashtbl.t = Hashtbl.create 4 in
          let nl = ref 0 and nb = ref 0 and no = ref 0 in
          let bad = ref false in
          let failline kind pn off =
            bad := true;
            out := Printf.sprintf "reencode FAIL %s %s %s" kind (dec_of_n pn) (dec_of_n off) :: !out
          in
          let cmp kind pn segs real =
            let (offs, c), s = NodeCodec.compare_segs segs real in
            bytes := !bytes + int_of_n c;
            stale := !stale + int_of_n s;
            Hashtbl.replace stale_by kind ((try Hashtbl.find stale_by kind with Not_found -> 0) + int_of_n s);
            Stdlib.List.iteri (fun j off -> if j < 8 then failline kind pn off) offs
          in
          let unreadable = n_of_int 4097 in
          Stdlib.List.iter
            (fun (l : Image.leaf) ->
              incr nl;
              (match fs.Image.rd_ln l.Image.l_pn with
               | Some real -> cmp "leaf" l.Image.l_pn (NodeCodec.reencode_leaf l) real
               | None -> failline "leaf" l.Image.l_pn unreadable);
              Stdlib.List.iter
                (fun (e : Image.entry) ->
                  Stdlib.List.iter
                    (fun (pn, segs) ->
                      incr no;
                      match fs.Image.rd_ln pn with
                      | Some real -> cmp "overflow" pn segs real
                      | None -> failline "overflow" pn unreadable)
                    (NodeCodec.reencode_overflow e))
                l.Image.l_entries)
            img.Image.i_leaves;
          Stdlib.List.iter
            (fun (b : Image.branch) ->
              incr nb;
              match fs.Image.rd_bbn b.Image.b_pn with
              | Some real -> (
                  match NodeCodec.reencode_branch b real with
                  | Some (segs, nc) ->
                      noncanon := !noncanon + int_of_n nc;
                      if int_of_n nc > 0 then
                        out := Printf.sprintf "reencode note noncanon %s %s" (dec_of_n b.Image.b_pn) (dec_of_n nc) :: !out;
                      cmp "branch" b.Image.b_pn segs real
                  | None -> failline "branch" b.Image.b_pn unreadable)
              | None -> failline "branch" b.Image.b_pn unreadable)
            img.Image.i_branches;
          (match fs.Image.rd_meta N0 with
           | Some real ->
               cmp "manifest" N0 (NodeCodec.reencode_manifest img.Image.i_manifest) real
           | None -> failline "manifest" N0 unreadable);
          Stdlib.List.iter (fun f -> Hashtbl.reset f.cache) !handles;
          let summary =
            let sb k = try Hashtbl.find stale_by k with Not_found -> 0 in
            Printf.sprintf
              "reencode %s leaves=%d branches=%d overflow=%d manifest=1 bytes_compared=%d undef_nonzero=%d noncanon=%d \
               undef_nonzero_leaf=%d undef_nonzero_branch=%d undef_nonzero_overflow=%d undef_nonzero_manifest=%d"
              (if !bad then "bad" else "ok") !nl !nb !no !bytes !stale !noncanon (sb "leaf") (sb "branch") (sb "overflow")
              (sb "manifest")
          in
          Some (lines (Stdlib.List.rev (summary :: !out)))
      | _ -> Some (lines [ "reencode undecodable" ]))
  | [ "imgstats" ] -> (
      match image () with
      | Image.Ok img ->
          let s = Image.image_stats img in
          let mr = match !last_mw with Some m -> m | None -> Image.merkle_result hash_of img in
          let d = dec_of_n in
          Some
            (Printf.sprintf
               "ln_bump=%s bbn_bump=%s ln_free_items=%s ln_free_portions=%s bbn_free_items=%s bbn_free_portions=%s \
                branches=%s leaves=%s entries=%s inline=%s overflow_values=%s overflow_pages=%s full=%s \
                tombstones=%s elided_bits=%s sync_seqn=%s buckets=%s needed=%s stored_needed=%s elided_needed=%s \
                below_absent=%s nodes_compared=%s max_page_depth=%s"
               (d s.Image.s_ln_bump) (d s.Image.s_bbn_bump) (d s.Image.s_ln_free_items) (d s.Image.s_ln_free_portions)
               (d s.Image.s_bbn_free_items) (d s.Image.s_bbn_free_portions) (d s.Image.s_branches) (d s.Image.s_leaves)
               (d s.Image.s_entries) (d s.Image.s_inline) (d s.Image.s_overflow_values) (d s.Image.s_overflow_pages)
               (d s.Image.s_full) (d s.Image.s_tombstones) (d s.Image.s_elided_bits) (d s.Image.s_sync_seqn)
               (d img.Image.i_ht.Image.h_buckets) (d mr.Image.mw_needed) (d mr.Image.mw_stored) (d mr.Image.mw_elided)
               (d mr.Image.mw_below) (d mr.Image.mw_nodes) (d mr.Image.mw_maxdepth))
      | Image.Err (c, x, y) -> Some (Printf.sprintf "undecodable %s %s %s" (ecode_name c) (dec_of_n x) (dec_of_n y)))
  | _ -> None
