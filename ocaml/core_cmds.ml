(* Function-level commands of the E-core engine: parse the pipe syntax, call the extracted
   mirrors (CoreGlue: FreeH, KEYLEN = 256) and print their outcome.  No decision is taken here.

   Syntax (one token = no blanks inside):
     node      #id | $id | T | oi<n> | ol<n> | N(node,node) | F(key,vid)
     key       <hex> | <hex>/<bits>
     terminal  L:<hex>:<vid> | P:<hex>/<bits>
     op        <key>:w<vid> | <key>:d
   Commands and replies are documented at each case of [handle]. *)

open State
open Result

let fail fmt = Printf.ksprintf failwith fmt

(* ---- node expressions ---- *)
let parse_nref (s : string) : CoreGlue.nref =
  let n = String.length s in
  let pos = ref 0 in
  let peek () = if !pos < n then s.[!pos] else '\000' in
  let adv () = incr pos in
  let expect c = if peek () <> c then fail "node syntax %s at %d" s !pos else adv () in
  let number () =
    let st = !pos in
    while !pos < n && s.[!pos] >= '0' && s.[!pos] <= '9' do adv () done;
    if !pos = st then fail "node syntax %s: number expected at %d" s st;
    int_of_string (String.sub s st (!pos - st))
  in
  let until c =
    let st = !pos in
    while !pos < n && s.[!pos] <> c do adv () done;
    String.sub s st (!pos - st)
  in
  let rec node () =
    match peek () with
    | '#' -> adv (); CoreGlue.RId (false, n_of_int (number ()))
    | '$' -> adv (); CoreGlue.RId (true, n_of_int (number ()))
    | 'T' -> adv (); CoreGlue.RT
    | 'o' ->
        adv ();
        let k = match peek () with 'l' -> Hash.KLeaf | 'i' -> Hash.KInt | _ -> fail "opaque kind in %s" s in
        adv ();
        CoreGlue.RO (k, n_of_int (number ()))
    | 'N' ->
        adv (); expect '(';
        let a = node () in
        expect ',';
        let b = node () in
        expect ')';
        CoreGlue.RN (a, b)
    | 'F' ->
        adv (); expect '(';
        let k = until ',' in
        expect ',';
        let v = number () in
        expect ')';
        CoreGlue.RF (key_of_string k, n_of_int v)
    | _ -> fail "node syntax %s at %d" s !pos
  in
  let r = node () in
  if !pos <> n then fail "node syntax %s: trailing characters" s;
  r

let node_of_string (s : string) : Hash.fnode =
  match CoreGlue.resolve atries.(0) atries.(1) (parse_nref s) with
  | Some f -> f
  | None -> fail "unknown node reference %s" s

let obj_of_node (s : string) : Hash.node = Obj.repr (node_of_string s)

(* ---- terminals, ops ---- *)
let split_colon s = String.split_on_char ':' s

let terminal_of_string (s : string) : Trie.terminal =
  match split_colon s with
  | [ "L"; k; v ] -> Trie.TLeaf (key_of_string k, n_of_int (int_of_string v))
  | [ "P"; p ] -> Trie.TTerm (key_of_string p)
  | _ -> fail "terminal syntax %s" s

let string_of_terminal = function
  | Trie.TLeaf (k, v) -> Printf.sprintf "L:%s:%d" (string_of_key k) (int_of_n v)
  | Trie.TTerm p ->
      let s = string_of_key p in
      if String.contains s '/' then "P:" ^ s else Printf.sprintf "P:%s/256" s

let op_of_string (s : string) : bool list * BinNums.coq_N option =
  match split_colon s with
  | [ k; "d" ] -> (key_of_string k, None)
  | [ k; w ] when String.length w > 1 && w.[0] = 'w' ->
      (key_of_string k, Some (n_of_int (int_of_string (String.sub w 1 (String.length w - 1)))))
  | _ -> fail "op syntax %s" s

let kv_of_string (s : string) : bool list * BinNums.coq_N =
  match split_colon s with
  | [ k; v ] -> (key_of_string k, n_of_int (int_of_string v))
  | _ -> fail "key:value syntax %s" s

(* split a token list at every occurrence of [sep] *)
let split_at (sep : string) (toks : string list) : string list list =
  let rec go cur acc = function
    | [] -> Stdlib.List.rev (Stdlib.List.rev cur :: acc)
    | x :: r when x = sep -> go [] (Stdlib.List.rev cur :: acc) r
    | x :: r -> go (x :: cur) acc r
  in
  go [] [] toks

(* ---- printing ---- *)
let add_rpn (buf : Buffer.t) (n : Hash.fnode) =
  let toks = Emit.rpn n [] in
  Stdlib.List.iter
    (fun t ->
      Buffer.add_char buf ' ';
      match t with
      | Emit.TkT -> Buffer.add_char buf 'T'
      | Emit.TkI -> Buffer.add_char buf 'I'
      | Emit.TkL (k, v) -> Buffer.add_string buf (Printf.sprintf "L:%s:%d" (string_of_key k) (int_of_n v))
      | Emit.TkO (k, i) ->
          Buffer.add_string buf
            (Printf.sprintf "O%c:%d" (match k with Hash.KLeaf -> 'l' | Hash.KInt -> 'i' | Hash.KTerm -> 't') (int_of_n i)))
    toks

let rpn_string (n : Hash.fnode) = let b = Buffer.create 256 in add_rpn b n; Buffer.contents b

let bool_res (r : (_, bool) res) =
  match r with Ok true -> "t" | Ok false -> "f" | Err _ -> "oos" | Panic -> "panic"

let string_of_verify_err = function
  | PathProof.TooManySiblings -> "TooManySiblings"
  | PathProof.RootMismatch -> "RootMismatch"
  | PathProof.TerminalOutOfPath -> "TerminalOutOfPath"

let string_of_vu_err = function
  | VerifyUpdate.PathsOutOfOrder -> "PathsOutOfOrder"
  | VerifyUpdate.OpsOutOfOrder -> "OpsOutOfOrder"
  | VerifyUpdate.OpOutOfScope -> "OpOutOfScope"
  | VerifyUpdate.PathWithoutOps -> "PathWithoutOps"
  | VerifyUpdate.VuRootMismatch -> "RootMismatch"

let string_of_mv_err = function
  | MultiProof.MultiRootMismatch -> "RootMismatch"
  | MultiProof.MultiPathsOutOfOrder -> "PathsOutOfOrder"
  | MultiProof.MultiTooManySiblings -> "TooManySiblings"
  | MultiProof.MultiMalformed -> "Malformed"

let string_of_mvu_err = function
  | MultiUpdate.MultiOpsOutOfOrder -> "OpsOutOfOrder"
  | MultiUpdate.MultiOpOutOfScope -> "OpOutOfScope"
  | MultiUpdate.MultiUpdateRootMismatch -> "RootMismatch"
  | MultiUpdate.MultiPathPrefixOfAnother -> "PathPrefixOfAnother"

let node_res (err : 'e -> string) (r : ('e, Hash.fnode) res) =
  match r with
  | Ok n -> "ok" ^ rpn_string n
  | Err e -> "err:" ^ err e
  | Panic -> "panic"

let table_string (at : Emit.atrie) =
  let b = Buffer.create 4096 in
  Stdlib.List.iter
    (function
      | Emit.EL (i, k, v) -> Buffer.add_string b (Printf.sprintf "L %d %s %d\n" (int_of_n i) (string_of_key k) (int_of_n v))
      | Emit.EI (i, l, r) -> Buffer.add_string b (Printf.sprintf "I %d %d %d\n" (int_of_n i) (int_of_n l) (int_of_n r)))
    (Emit.atable at []);
  Buffer.add_string b (Printf.sprintf "root %d\nend" (int_of_n (Emit.aid at)));
  Buffer.contents b

let path_proof_of (term : string) (sibs : string list) : PathProof.path_proof =
  { PathProof.pp_terminal = terminal_of_string term; pp_siblings = Stdlib.List.map obj_of_node sibs }

(* ---- commands ---- *)
let handle (toks : string list) : string option =
  match toks with
  (* setkv <slot> <key>:<vid> ...      (keys ascending)  ->  ok *)
  | "setkv" :: slot :: entries ->
      let v = Stdlib.List.map kv_of_string entries in
      (match slot with
       | "0" -> !set_view_hook v
       | "1" -> store 1 v (CoreGlue.annotate_view v)
       | _ -> fail "slot");
      Some "ok"
  (* tableb  ->  node table of slot 1 (same format as the driver's "table") *)
  | [ "tableb" ] -> Some (table_string atries.(1))
  (* applyroot <op> ...  ->  ok <rpn of the root of the current view with the changes applied> *)
  | "applyroot" :: ops ->
      let w = Stdlib.List.map op_of_string ops in
      Some ("ok" ^ rpn_string (CoreGlue.apply_root views.(0) w))
  (* group <op> ...  ->  ok <first key>:<path bits>:<number of ops> ...   (Witness.group) *)
  | "group" :: ops ->
      let w = Stdlib.List.map op_of_string ops in
      let gs = CoreGlue.group_run views.(0) w in
      Some
        ("ok"
        ^ String.concat ""
            (Stdlib.List.map
               (fun (g : VerifyUpdate.path_update) ->
                 match g.VerifyUpdate.pu_ops with
                 | (k, _) :: _ ->
                     Printf.sprintf " %s:%d:%d" (string_of_key k)
                       (Stdlib.List.length g.VerifyUpdate.pu_inner.PathProof.vp_path)
                       (Stdlib.List.length g.VerifyUpdate.pu_ops)
                 | [] -> " -:0:0")
               gs))
  (* vugroup <op> ...  ->  verify_update over Witness.group:  ok <rpn> | err:<E> | panic *)
  | "vugroup" :: ops ->
      let w = Stdlib.List.map op_of_string ops in
      Some (node_res string_of_vu_err (CoreGlue.vu_group_run views.(0) w))
  (* pp <terminal> <key_path> <root> ; <sibling> ... ; <query> ...
       query: v:<key>:<vid> (confirm_value) | n:<key> (confirm_nonexistence)
     ->  ok:<proven path> | r ...      r = t | f | oos | panic
         err:<E> |      panic | *)
  | "pp" :: rest -> (
      match split_at ";" rest with
      | [ [ term; key; root ]; sibs; queries ] -> (
          let p = path_proof_of term sibs in
          match CoreGlue.pp_verify p (key_of_string key) (node_of_string root) with
          | Ok vp ->
              let rs =
                Stdlib.List.map
                  (fun q ->
                    match split_colon q with
                    | [ "v"; k; v ] ->
                        bool_res (CoreGlue.pp_confirm_value vp (key_of_string k) (n_of_int (int_of_string v)))
                    | [ "n"; k ] -> bool_res (CoreGlue.pp_confirm_nonexistence vp (key_of_string k))
                    | _ -> fail "query syntax %s" q)
                  queries
              in
              Some (Printf.sprintf "ok:%s | %s" (string_of_key vp.PathProof.vp_path) (String.concat " " rs))
          | Err e -> Some ("err:" ^ string_of_verify_err e ^ " |")
          | Panic -> Some "panic |")
      | _ -> fail "pp syntax")
  (* vu <prev_root> ; <terminal> <key_path> <root> , <sibling> ... , <op> ... ; ...
     ->  pathfail:<i>:<class> | ok <rpn> | err:<E> | panic *)
  | "vu" :: prev :: rest ->
      let groups = match rest with ";" :: r -> split_at ";" r | [] -> [] | _ -> fail "vu syntax" in
      let groups = Stdlib.List.filter (fun g -> g <> []) groups in
      let paths =
        Stdlib.List.map
          (fun g ->
            match split_at "," g with
            | [ [ term; key; root ]; sibs; ops ] ->
                (((path_proof_of term sibs, key_of_string key), node_of_string root), Stdlib.List.map op_of_string ops)
            | _ -> fail "vu path syntax")
          groups
      in
      Some
        (match CoreGlue.vu_run (node_of_string prev) paths with
         | CoreGlue.VuPathFailed (i, r) ->
             Printf.sprintf "pathfail:%d:%s" (int_of_nat i)
               (match r with Ok () -> "ok" | Err e -> "err:" ^ string_of_verify_err e | Panic -> "panic")
         | CoreGlue.VuDone r -> node_res string_of_vu_err r)
  (* bt <skip> <key>:<vid> ...  ->  ok <rpn> | panic *)
  | "bt" :: skip :: entries ->
      let ops = Stdlib.List.map kv_of_string entries in
      Some
        (match CoreGlue.bt_run (nat_of_int (int_of_string skip)) ops with
         | Ok n -> "ok" ^ rpn_string n
         | Err _ -> "err"
         | Panic -> "panic")
  (* fpp <terminal> <number of siblings> ...        (siblings are numbered 0.. in input order)
     ->  ok <terminal>@<depth> ... ; <sibling index> ...  |  panic *)
  | "fpp" :: rest ->
      let next = ref 0 in
      let rec proofs = function
        | term :: n :: r ->
            let n = int_of_string n in
            let sibs = Stdlib.List.init n (fun i -> Obj.repr (n_of_int (!next + i))) in
            next := !next + n;
            { PathProof.pp_terminal = terminal_of_string term; pp_siblings = sibs } :: proofs r
        | [] -> []
        | _ -> fail "fpp syntax"
      in
      let ps = proofs rest in
      Some
        (match CoreGlue.fpp_run ps with
         | Ok m ->
             "ok "
             ^ String.concat " "
                 (Stdlib.List.map
                    (fun (p : MultiProof.multi_path_proof) ->
                      Printf.sprintf "%s@%d" (string_of_terminal p.MultiProof.mpp_terminal) (int_of_nat p.MultiProof.mpp_depth))
                    m.MultiProof.mp_paths)
             ^ " ; "
             ^ String.concat " "
                 (Stdlib.List.map (fun i -> string_of_int (int_of_n (Obj.obj i))) m.MultiProof.mp_siblings)
         | Err _ -> "err"
         | Panic -> "panic")
  (* multi <root|self> ; <terminal>@<depth> ... ; <sibling> ... ; <query> ... ; <op> ... ; <op> ... ...
       query: i:<key> | v:<key>:<vid> | n:<key> | vi:<key>:<vid>:<index> | ni:<key>:<index>
       every op section after the queries is one write set for verify_update
     ->  root <rpn> | <class> | inner d:s:e ... | bis d:s:e ... | q r ... | u <result> | u <result> ...
         class = ok | err:<E> | panic; only "root ... | class" when verification fails;
         "root -" unless self was asked for *)
  | "multi" :: rest -> (
      match split_at ";" rest with
      | [ root ] :: paths :: sibs :: queries :: updates ->
          let paths =
            Stdlib.List.map
              (fun s ->
                match String.rindex_opt s '@' with
                | Some i ->
                    { MultiProof.mpp_terminal = terminal_of_string (String.sub s 0 i);
                      mpp_depth = nat_of_int (int_of_string (String.sub s (i + 1) (String.length s - i - 1))) }
                | None -> fail "multi path syntax %s" s)
              paths
          in
          let m = { MultiProof.mp_paths = paths; mp_siblings = Stdlib.List.map obj_of_node sibs } in
          let b = Buffer.create 1024 in
          let root =
            if root = "self" then (
              let r : Hash.fnode = CoreGlue.multi_self_root m in
              Buffer.add_string b "root";
              add_rpn b r;
              r)
            else (Buffer.add_string b "root -"; node_of_string root)
          in
          (match CoreGlue.multi_verify m root with
           | Err e -> Buffer.add_string b (" | err:" ^ string_of_mv_err e)
           | Panic -> Buffer.add_string b " | panic"
           | Ok v ->
               Buffer.add_string b " | ok | inner";
               Stdlib.List.iter
                 (fun (p : MultiProof.verified_multi_path) ->
                   Buffer.add_string b
                     (Printf.sprintf " %d:%d:%d" (int_of_nat p.MultiProof.vm_depth)
                        (int_of_nat p.MultiProof.vm_unique_siblings_start)
                        (int_of_nat p.MultiProof.vm_unique_siblings_end)))
                 v.MultiProof.vmp_inner;
               Buffer.add_string b " | bis";
               Stdlib.List.iter
                 (fun (p : MultiProof.verified_bisection) ->
                   Buffer.add_string b
                     (Printf.sprintf " %d:%d:%d" (int_of_nat p.MultiProof.vb_start_depth)
                        (int_of_nat p.MultiProof.vb_common_siblings_start)
                        (int_of_nat p.MultiProof.vb_common_siblings_end)))
                 v.MultiProof.vmp_bisections;
               Buffer.add_string b " | q";
               Stdlib.List.iter
                 (fun q ->
                   let vid s = n_of_int (int_of_string s) in
                   let idx s = nat_of_int (int_of_string s) in
                   let r =
                     match split_colon q with
                     | [ "i"; k ] -> (
                         match CoreGlue.multi_find_index_for v (key_of_string k) with
                         | Ok i -> Printf.sprintf "ok:%d" (int_of_nat i)
                         | Err _ -> "oos"
                         | Panic -> "panic")
                     | [ "v"; k; x ] -> bool_res (CoreGlue.multi_confirm_value v (key_of_string k) (vid x))
                     | [ "n"; k ] -> bool_res (CoreGlue.multi_confirm_nonexistence v (key_of_string k))
                     | [ "vi"; k; x; i ] ->
                         bool_res (CoreGlue.multi_confirm_value_with_index v (key_of_string k) (vid x) (idx i))
                     | [ "ni"; k; i ] ->
                         bool_res (CoreGlue.multi_confirm_nonexistence_with_index v (key_of_string k) (idx i))
                     | _ -> fail "multi query syntax %s" q
                   in
                   Buffer.add_char b ' ';
                   Buffer.add_string b r)
                 queries;
               Stdlib.List.iter
                 (fun ops ->
                   let w = Stdlib.List.map op_of_string ops in
                   Buffer.add_string b " | u ";
                   Buffer.add_string b
                     (node_res string_of_mvu_err
                        (match CoreGlue.multi_verify_update v w with
                         | Ok n -> Ok (Obj.obj n : Hash.fnode)
                         | Err e -> Err e
                         | Panic -> Panic)))
                 updates);
          Some (Buffer.contents b)
      | _ -> fail "multi syntax")
  | _ -> None
