(* function-level commands (mirrored core algorithms); filled in as models are added *)
let handle (_toks : string list) : string option = None
