(* State and helpers shared between driver.ml and core_cmds.ml (which is compiled before the
   driver): conversions between OCaml and extracted numbers / keys, and the two key/value views
   the function-level commands refer to (slot 0 = the driver's current view, slot 1 = a second,
   foreign key set used for cross-splicing).  Parsing / printing / storage only. *)

open Datatypes

let nat_of_int n =
  let rec go acc n = if n <= 0 then acc else go (S acc) (n - 1) in
  go O n

let int_of_nat n =
  let rec go acc = function O -> acc | S m -> go (acc + 1) m in
  go 0 n

let rec pos_of_int n : BinNums.positive =
  if n = 1 then BinNums.Coq_xH
  else if n land 1 = 0 then BinNums.Coq_xO (pos_of_int (n lsr 1))
  else BinNums.Coq_xI (pos_of_int (n lsr 1))

let n_of_int n : BinNums.coq_N = if n = 0 then BinNums.N0 else BinNums.Npos (pos_of_int n)

let rec int_of_pos = function
  | BinNums.Coq_xH -> 1
  | BinNums.Coq_xO p -> 2 * int_of_pos p
  | BinNums.Coq_xI p -> (2 * int_of_pos p) + 1

let int_of_n = function BinNums.N0 -> 0 | BinNums.Npos p -> int_of_pos p

let hexval c =
  match c with
  | '0' .. '9' -> Char.code c - 48
  | 'a' .. 'f' -> Char.code c - 87
  | 'A' .. 'F' -> Char.code c - 55
  | _ -> failwith "hex"

(* keys: hex string (MSB first) possibly followed by "/<bits>" to truncate *)
let key_of_string (s : string) : bool list =
  let hex, nbits =
    match String.index_opt s '/' with
    | None -> (s, 4 * String.length s)
    | Some i -> (String.sub s 0 i, int_of_string (String.sub s (i + 1) (String.length s - i - 1)))
  in
  let bits = ref [] in
  for i = String.length hex - 1 downto 0 do
    let v = hexval hex.[i] in
    for b = 0 to 3 do
      bits := ((v lsr b) land 1 = 1) :: !bits
    done
  done;
  let rec take n l = if n = 0 then [] else match l with [] -> [] | x :: r -> x :: take (n - 1) r in
  take nbits !bits

let string_of_key (k : bool list) : string =
  let n = Stdlib.List.length k in
  let buf = Buffer.create 70 in
  let arr = Array.of_list k in
  let nnib = (n + 3) / 4 in
  for i = 0 to nnib - 1 do
    let v = ref 0 in
    for b = 0 to 3 do
      let idx = (4 * i) + b in
      v := (!v lsl 1) lor (if idx < n && arr.(idx) then 1 else 0)
    done;
    Buffer.add_char buf "0123456789abcdef".[!v]
  done;
  if n <> 256 then Buffer.add_string buf (Printf.sprintf "/%d" n);
  Buffer.contents buf

(* the two views *)
let views : Base.kv array = [| []; [] |]
let atries : Emit.atrie array = [| Emit.AE; Emit.AE |]
let store (slot : int) (v : Base.kv) (at : Emit.atrie) = views.(slot) <- v; atries.(slot) <- at

(* set by the driver to its own set_view, so that a view installed by a core command is also the
   driver's current view (table / prove / get keep working on it) *)
let set_view_hook : (Base.kv -> unit) ref = ref (fun _ -> ())
