(* Bookkeeping of the rollback log: replay the operation list of a history in the extracted model of
   coq/theories/RbBook.v (in-memory log, pending truncation, live range and physical contents of the segmented
   log, manifest range; theorems: RbBook_proofs.v, pinned in Props/C09.v) and print the model's state after
   every operation.  The rbtrace engine (harness/src/rbtrace.rs) compares it with the real run: the manifest's
   rollback_start_live / rollback_end_live, the records in the segment files, whether each rollback succeeded.
   This module only parses the script and prints; every step is [RbBook.b_step].

   rbbook <file> [cur|pref7a|pref7b|pren8]
     -> one "book <i> k=v ..." line per operation (stops after the first failure), then "end"

   Script, one item per line:
     cfg <max_rollback_log_len> <max_segment_size in bytes>
     c <blocks>      a commit whose reverse delta occupies <blocks> 4 KiB blocks (+ its sync)
     r <n>           Nomt::rollback n (+ its sync)
     o               drop the handle and open again
   Reply fields: op, out = ok | refused | fail:<error>, man = manifest range, live = SegmentedLog::live_range,
   mem = record ids of the in-memory log (oldest first), pend = pending truncation, present = the records
   physically in the segment files as <segment id>:<record id>:<blocks>, segs = <segment id>:<min>:<max>. *)

open RbBook

let n_of_int = Img_cmds.n_of_int
let int_of_n = Img_cmds.int_of_n
let dec = Img_cmds.dec_of_n

let rec nat_of_int n = if n <= 0 then Datatypes.O else Datatypes.S (nat_of_int (n - 1))

let err_name = function
  | EPruneOldestAboveEnd -> "prune-oldest-above-end"
  | EPruneOldestBelowStart -> "prune-oldest-below-start"
  | ETruncNotFound -> "last-live-record-not-in-head-segment"
  | EOpenNilMismatch -> "open-nil-mismatch"
  | EOpenIdsNotOrdered -> "open-ids-not-ordered"
  | EOpenNoFirst -> "open-no-first-live-segment"
  | EOpenNoLast -> "open-no-last-live-segment"
  | EOpenGap -> "open-gap-in-segment-ids"
  | ETruncateNil -> "truncate-nil-record-id"

let out_name = function OOk -> "ok" | ORefused -> "refused" | OFail e -> "fail:" ^ err_name e

let join sep f l = match l with [] -> "-" | _ -> String.concat sep (Stdlib.List.map f l)

let state_line (i : int) (opname : string) (o : bout) (s : bstate) : string =
  let l = s.b_log in
  let present =
    Stdlib.List.concat_map (fun g -> Stdlib.List.map (fun r -> (g.sg_id, r)) g.sg_recs) l.l_segs
  in
  Printf.sprintf "book %d op=%s out=%s man=%s-%s live=%s-%s mem=%s pend=%s present=%s segs=%s" i opname (out_name o)
    (dec (fst s.b_man)) (dec (snd s.b_man)) (dec l.l_start) (dec l.l_end)
    (join "," (fun (id, _) -> dec id) s.b_mem)
    (match s.b_pend with None -> "-" | Some p -> dec p)
    (join ";" (fun (sg, r) -> Printf.sprintf "%s:%s:%s" (dec sg) (dec r.br_id) (dec r.br_len)) present)
    (join ";" (fun g -> Printf.sprintf "%s:%s:%s" (dec g.sg_id) (dec g.sg_min) (dec g.sg_max)) l.l_segs)

let variant_of = function
  | "cur" -> VCur
  | "pref7a" -> VPreF7a
  | "pref7b" -> VPreF7b
  | "pren8" -> VPreN8
  | v -> failwith ("rbbook variant " ^ v)

let rbbook (path : string) (v : variant) : string =
  let ic = open_in path in
  let out = Buffer.create 4096 in
  let emit s = Buffer.add_string out s; Buffer.add_char out '\n' in
  let st : bstate option ref = ref None in
  let i = ref 0 in
  let failed = ref false in
  let step (name : string) (op : bop) =
    match !st with
    | None -> failwith "rbbook: operation before cfg"
    | Some s ->
        if not !failed then begin
          let s', o = b_step v s op in
          emit (state_line !i name o s');
          (match o with OFail _ -> failed := true | _ -> ());
          st := Some s'
        end;
        incr i
  in
  (try
     while true do
       let line = input_line ic in
       let toks = String.split_on_char ' ' line |> Stdlib.List.filter (fun s -> s <> "") in
       match toks with
       | [] -> ()
       | t :: _ when String.length t > 0 && t.[0] = '#' -> ()
       | [ "cfg"; ml; segsz ] -> st := Some (b_init (nat_of_int (int_of_string ml)) (n_of_int (int_of_string segsz)))
       | [ "c"; len ] -> step "c" (BCommit (n_of_int (int_of_string len)))
       | [ "r"; n ] -> step "r" (BRollback (nat_of_int (int_of_string n)))
       | [ "o" ] -> step "o" BReopen
       | _ -> failwith ("rbbook script line: " ^ line)
     done
   with
   | End_of_file -> close_in_noerr ic
   | e -> close_in_noerr ic; raise e);
  Buffer.add_string out "end";
  Buffer.contents out

let handle (toks : string list) : string option =
  match toks with
  | [ "rbbook"; path ] -> Some (rbbook path VCur)
  | [ "rbbook"; path; v ] -> Some (rbbook path (variant_of v))
  | _ -> None
