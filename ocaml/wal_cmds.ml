(* WAL commands: run the extracted Coq mirror of bitbox's WAL codec and redo (Wal.v) on the real
   files of a NOMT directory.  This module only moves bytes and prints: it reads the [wal] file and
   page 0 of [meta], hands pages of the [ht] files to the extracted code on demand, stores the tag
   oracle uploaded by the harness (page id -> the 7 bits hash >> 57 of bitbox's xxh3 hash) and prints
   what the extracted functions return.  Every decision is taken by extracted code.

   walopen <dir>                 -> ok seqn=.. mseqn=.. buckets=.. seed=<hex32> size=.. pages=.. entries=..
                                       clears=.. updates=.. nodes=.. range=ok|bad reencode=ok|diff@<off>
                                  | err <code> [<tag>] size=.. mseqn=..
   walids                        -> <hex64> per UPDATE entry ... end
   waltags <hex64>:<tag> ...     -> ok            (several lines allowed)
   walredo <refdir>              -> "bucket <b> meta <got> <want> page ok|diff@<off> view ok|diff@slot<i>" per bucket
                                    whose redone meta byte or visible page differs from the reference table,
                                    "fix bucket ..." per bucket of the reference table that the redo changes,
                                    then "checked <n> inexact <k> fixchecked <m>", end
   walentries                    -> one line per entry (C <bucket> | U <bucket> <idhex> <nodes> <elided>) ... end *)

open BinNums

let n_of_int = Img_cmds.n_of_int
let int_of_n = Img_cmds.int_of_n
let dec_of_n = Img_cmds.dec_of_n

let read_all (path : string) : coq_N list option =
  match (try Some (open_in_bin path) with Sys_error _ -> None) with
  | None -> None
  | Some ch ->
      let len = in_channel_length ch in
      let s = really_input_string ch len in
      close_in_noerr ch;
      let l = ref [] in
      for j = len - 1 downto 0 do
        l := Img_cmds.byte_n.(Char.code (String.unsafe_get s j)) :: !l
      done;
      Some !l

let err_name (e : Wal.wal_err) : string =
  match e with
  | Wal.WSize -> "WSize"
  | Wal.WBadStart t -> "WBadStart " ^ dec_of_n t
  | Wal.WUnknownTag t -> "WUnknownTag " ^ dec_of_n t
  | Wal.WUnexpectedEnd -> "WUnexpectedEnd"
  | Wal.WInvalidDiff -> "WInvalidDiff"

(* state *)
let cur_dir : string ref = ref ""
let cur_entries : Wal.wal_entry list ref = ref []
let cur_buckets : coq_N ref = ref N0
let tags : (string, coq_N) Hashtbl.t = Hashtbl.create 256
let handles : Img_cmds.fileh list ref = ref []

let tag_of (id : coq_N list) : coq_N =
  match Hashtbl.find_opt tags (Img_cmds.hex_of_bytes id) with
  | Some t -> t
  | None -> failwith "waltags: no tag uploaded for a page id of the log"

let walopen (dir : string) : string =
  cur_dir := dir;
  cur_entries := [];
  Hashtbl.reset tags;
  let meta = Img_cmds.open_file (Filename.concat dir "meta") in
  let mf =
    match Img_cmds.read_page meta N0 with
    | Some pg -> (match Image.decode_manifest pg with Image.Ok m -> Some m | Image.Err _ -> None)
    | None -> None
  in
  Img_cmds.close_file meta;
  let mseqn, buckets, seed =
    match mf with
    | Some m -> (dec_of_n m.Image.mf_sync_seqn, m.Image.mf_bitbox_num_pages, Img_cmds.hex_of_bytes m.Image.mf_bitbox_seed)
    | None -> ("none", N0, "")
  in
  cur_buckets := buckets;
  match read_all (Filename.concat dir "wal") with
  | None -> Printf.sprintf "err nofile size=0 mseqn=%s" mseqn
  | Some bytes -> (
      let size = Stdlib.List.length bytes in
      match Wal.decode bytes with
      | Result.Ok (seqn, es) ->
          cur_entries := es;
          let st = Wal.stats_of es in
          let re =
            match Wal.reencode_check bytes with
            | Some None -> "ok"
            | Some (Some off) -> "diff@" ^ dec_of_n off
            | None -> "undecodable"
          in
          Printf.sprintf
            "ok seqn=%s mseqn=%s buckets=%s seed=%s size=%d pages=%d entries=%s clears=%s updates=%s nodes=%s range=%s reencode=%s"
            (dec_of_n seqn) mseqn (dec_of_n buckets) seed size (size / 4096) (dec_of_n st.Wal.ws_entries)
            (dec_of_n st.Wal.ws_clears) (dec_of_n st.Wal.ws_updates) (dec_of_n st.Wal.ws_nodes)
            (if Wal.buckets_in_range buckets es then "ok" else "bad")
            re
      | Result.Err e -> Printf.sprintf "err %s size=%d mseqn=%s" (err_name e) size mseqn
      | Result.Panic -> Printf.sprintf "err Panic size=%d mseqn=%s" size mseqn)

let lines (l : string list) : string = String.concat "\n" (l @ [ "end" ])

let walredo (refdir : string) : string =
  Stdlib.List.iter Img_cmds.close_file !handles;
  let ht = Img_cmds.open_file (Filename.concat !cur_dir "ht") in
  let rf = Img_cmds.open_file (Filename.concat refdir "ht") in
  handles := [ ht; rf ];
  let h = Wal.ht_of_file (Img_cmds.read_page ht) !cur_buckets in
  let r = Wal.ht_of_file (Img_cmds.read_page rf) !cur_buckets in
  let show pre c =
    Printf.sprintf "%sbucket %s meta %s %s page %s view %s" pre (dec_of_n c.Wal.c_bucket) (dec_of_n c.Wal.c_meta_got)
      (dec_of_n c.Wal.c_meta_want)
      (match c.Wal.c_page_diff with None -> "ok" | Some off -> "diff@" ^ dec_of_n off)
      (match c.Wal.c_view_diff with None -> "ok" | Some slot -> "diff@slot" ^ dec_of_n slot)
  in
  (* the redo of the table in the directory against the reference: visible content *)
  let cmps = Wal.redo_compare tag_of h r !cur_entries in
  let bad = Stdlib.List.filter (fun c -> not (Wal.cmp_ok c)) cmps in
  let inexact = Stdlib.List.filter (fun c -> Wal.cmp_ok c && not (Wal.cmp_exact c)) cmps in
  (* the reference is a fixed point of the redo: byte for byte *)
  let fix = Wal.redo_compare tag_of r r !cur_entries in
  let fbad = Stdlib.List.filter (fun c -> not (Wal.cmp_exact c)) fix in
  let out = Stdlib.List.map (show "") bad @ Stdlib.List.map (show "fix ") fbad in
  Stdlib.List.iter Img_cmds.close_file !handles;
  handles := [];
  lines
    (out
    @ [ Printf.sprintf "checked %d inexact %d fixchecked %d" (Stdlib.List.length cmps) (Stdlib.List.length inexact)
          (Stdlib.List.length fix) ])

let split_pair (s : string) : string * string =
  let i = String.index s ':' in
  (String.sub s 0 i, String.sub s (i + 1) (String.length s - i - 1))

let handle (toks : string list) : string option =
  match toks with
  | [ "walopen"; dir ] -> Some (walopen dir)
  | [ "walids" ] ->
      Some
        (lines
           (Stdlib.List.filter_map
              (function Wal.WUpdate (id, _, _, _, _) -> Some (Img_cmds.hex_of_bytes id) | Wal.WClear _ -> None)
              !cur_entries))
  | "waltags" :: entries ->
      Stdlib.List.iter
        (fun e ->
          let id, t = split_pair e in
          Hashtbl.replace tags (String.lowercase_ascii id) (n_of_int (int_of_string t)))
        entries;
      Some "ok"
  | [ "walredo"; refdir ] -> Some (walredo refdir)
  | [ "walentries" ] ->
      Some
        (lines
           (Stdlib.List.map
              (function
                | Wal.WClear b -> "C " ^ dec_of_n b
                | Wal.WUpdate (id, _, ch, el, b) ->
                    Printf.sprintf "U %s %s %d %s" (dec_of_n b) (Img_cmds.hex_of_bytes id) (Stdlib.List.length ch)
                      (dec_of_n el))
              !cur_entries))
  | _ -> None
