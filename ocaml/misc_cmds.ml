(* Commands of the `nv misc` engine: page-cache sharding (Shards), overflow page arithmetic
   (Overflow) and separator bit operations (BitOps).  Parsing and printing only; every number and
   key printed is computed by extracted code.

     shards <n>                 -> "<minkey>:<maxkey>:<count> ..."   one entry per shard
     shardidx <n>               -> "<idx> ... "                      shard_index_for n c, c = 0..63
     ranges <n> <key> ...       -> "<start>:<end> ..."               per-worker split of a sorted batch
     regs <k> <minkey>:<maxkey>:<count> (k times) ok          -> "1" | "0"      ShardsGen.regions_okb
     regs <k> <region> (k times) idx                          -> "<idx> ..."    ShardsGen.index_of_child, c = 0..63
     regs <k> <region> (k times) ranges <key> ...             -> "<start>:<end> ..."  ShardsGen.ranges_of
                                   the regions are the ones the REAL shard_regions returned (any
                                   valid split, not only the mirror's)
     tnp <size> ...             -> "<pages> ..."                     total_needed_pages
     tnprange <lo> <hi>         -> "<pages> ..."                     total_needed_pages lo..hi (inclusive)
     bitops <a> <b>             -> "plen=<n> sep=<key>|panic la=<n> lb=<n> ls=<n>|-"
                                   prefix_len a b, separate a b, separator_len of a, b and the
                                   separator *)

open State

let ints_line (l : int list) = String.concat " " (Stdlib.List.map string_of_int l)

let handle (toks : string list) : string option =
  match toks with
  | [ "asyncread"; guard; c; ks; sched ] ->
      (* asyncread <guard 0|1> <cell page count> <k0,k1,..: page numbers stored in page i> <s|c<i>,...>
         page numbers are 1..total, the bytes of page i are the single token i *)
      let split_commas s = if s = "-" then [] else String.split_on_char ',' s in
      let ks = Stdlib.List.map int_of_string (split_commas ks) in
      let total = Stdlib.List.length ks in
      let c = int_of_string c in
      let cellp = Stdlib.List.init c (fun i -> n_of_int (i + 1)) in
      let next = ref (c + 1) in
      let pgs =
        Stdlib.List.mapi
          (fun i k ->
            let pns = Stdlib.List.init k (fun j -> n_of_int (!next + j)) in
            next := !next + k;
            (pns, [ n_of_int i ]))
          ks
      in
      let l = { AsyncRead.cellp = cellp; AsyncRead.pgs = pgs } in
      let g = guard = "1" in
      let st = ref (Some AsyncRead.rinit) in
      let subs = Buffer.create 64 in
      Stdlib.List.iter
        (fun tok ->
          match !st with
          | None -> ()
          | Some s ->
              if tok = "s" then (
                match AsyncRead.submit g l s with
                | AsyncRead.SNone -> Buffer.add_string subs "-,"
                | AsyncRead.SOk s' ->
                    Buffer.add_string subs (string_of_int (int_of_nat s.AsyncRead.req) ^ ",");
                    st := Some s'
                | AsyncRead.SPanic -> st := None)
              else
                let i = int_of_string (String.sub tok 1 (String.length tok - 1)) in
                st := Some (AsyncRead.complete l (nat_of_int i) s))
        (split_commas sched);
      ignore total;
      (match !st with
       | None -> Some "panic"
       | Some s ->
           Some
             (Printf.sprintf "subs=%s done=%d val=%s asked=%s" (Buffer.contents subs)
                (if AsyncRead.coq_done l s then 1 else 0)
                (String.concat "," (Stdlib.List.map (fun x -> string_of_int (int_of_n x)) s.AsyncRead.coq_val))
                (String.concat "," (Stdlib.List.map (fun x -> string_of_int (int_of_n x)) s.AsyncRead.asked))))
  | [ "shards"; n ] ->
      let regions = Shards.shard_regions (nat_of_int (int_of_string n)) in
      Some
        (String.concat " "
           (Stdlib.List.map
              (fun ((lo, hi), cnt) -> Printf.sprintf "%s:%s:%d" (string_of_key lo) (string_of_key hi) (int_of_nat cnt))
              regions))
  | [ "shardidx"; n ] ->
      let n = nat_of_int (int_of_string n) in
      Some (ints_line (Stdlib.List.init 64 (fun c -> int_of_nat (Shards.shard_index_for n (nat_of_int c)))))
  | "ranges" :: n :: keys ->
      let ks = Stdlib.List.map key_of_string keys in
      let rs = Shards.ranges ks (nat_of_int (int_of_string n)) in
      Some (String.concat " " (Stdlib.List.map (fun (s, e) -> Printf.sprintf "%d:%d" (int_of_nat s) (int_of_nat e)) rs))
  | "regs" :: k :: rest -> (
      let rec split n l acc =
        if n = 0 then (Stdlib.List.rev acc, l)
        else match l with [] -> failwith "regs: fewer regions than announced" | x :: r -> split (n - 1) r (x :: acc)
      in
      let rs, sub = split (int_of_string k) rest [] in
      let regs =
        Stdlib.List.map
          (fun e ->
            match String.split_on_char ':' e with
            | [ lo; hi; cnt ] ->
                (* unary numbers: a count above 64 is refused by regions_okb whatever its value *)
                ((key_of_string lo, key_of_string hi), nat_of_int (min (int_of_string cnt) 1000))
            | _ -> failwith "regs: bad region")
          rs
      in
      match sub with
      | [ "ok" ] -> Some (if ShardsGen.regions_okb regs then "1" else "0")
      | [ "idx" ] ->
          Some (ints_line (Stdlib.List.init 64 (fun c -> int_of_nat (ShardsGen.index_of_child regs (nat_of_int c)))))
      | "ranges" :: keys ->
          let ks = Stdlib.List.map key_of_string keys in
          let r = ShardsGen.ranges_of regs ks in
          Some (String.concat " " (Stdlib.List.map (fun (s, e) -> Printf.sprintf "%d:%d" (int_of_nat s) (int_of_nat e)) r))
      | _ -> None)
  | "tnp" :: sizes ->
      Some (ints_line (Stdlib.List.map (fun s -> int_of_n (Overflow.total_needed_pages (n_of_int (int_of_string s)))) sizes))
  | [ "tnprange"; lo; hi ] ->
      let lo = int_of_string lo and hi = int_of_string hi in
      let buf = Buffer.create (8 * (hi - lo + 2)) in
      for s = lo to hi do
        if s > lo then Buffer.add_char buf ' ';
        Buffer.add_string buf (string_of_int (int_of_n (Overflow.total_needed_pages (n_of_int s))))
      done;
      Some (Buffer.contents buf)
  | [ "bitops"; a; b ] ->
      let a = key_of_string a and b = key_of_string b in
      let plen = int_of_nat (BitOps.prefix_len a b) in
      let sep, ls =
        match BitOps.separate a b with
        | Result.Ok s -> (string_of_key s, string_of_int (int_of_nat (BitOps.separator_len s)))
        | Result.Err () -> ("err", "-")
        | Result.Panic -> ("panic", "-")
      in
      Some
        (Printf.sprintf "plen=%d sep=%s la=%d lb=%d ls=%s" plen sep
           (int_of_nat (BitOps.separator_len a))
           (int_of_nat (BitOps.separator_len b))
           ls)
  | _ -> None
