(* Sync-protocol commands: evaluate the proved monitor of SyncProto.v / SyncGlue.v on the I/O traces
   the real implementation produced (engine: harness/src/trace.rs).  This module only parses the
   history file the harness wrote, builds the [inst] / [disk] / [ev list] values and prints what the
   extracted functions return: [SyncGlue.explain] (= [SyncProto.discipline] with a verdict,
   discipline_explain_ok), [SyncGlue.start_checks], [SyncGlue.inst_checks], [SyncGlue.wal_safeb];
   the disk is advanced with [SyncProto.drun] only; the set of pages the old image references comes
   from Image.v's decoders ([decode_manifest], [free_walk], [free_items]) through [SyncGlue.live_of].

   synccheck <file> [dump]  -> one "sync <id> k=v ..." line per sync section (with "dump": preceded by
                               the "live <f> <pn> <cid>" lines of that sync), then "end"

   History file, one item per line (files: meta wal ht ln bbn; numbers decimal; cid 0 = zero page):
     base <f> <pn> <cid>          a durable page of the starting disk (before any event)
     ev W <f> <pn> <cid>          synchronous write returned          (EW)
     ev S <f> <pn> <cid>          asynchronous write submitted        (ES)
     ev C <f> <pn>                asynchronous write completed        (EC)
     ev T <f> <len>               resize to <len> pages returned      (ET)
     ev F <f>                     fsync / fdatasync returned          (EF)
   Outside a sync section an event advances the disk (dstep).  A sync section
     sync <id> ... / endsync
   holds the armed trace of one sync (its ev lines, in order) and the instance:
     mold <cid>   mnew <cid>      walold <cid>*   walnew <cid>*   ht <pn> <old cid> <new cid>
     tree <f> <pn> <cid>          pages of ln/bbn written before the manifest write (last content)
     live <f> <pn> <cid>          a page the old image references (explicit form, used in replays)
     pg <f> <pn> <cid>            content id of a page of the pre-sync ln/bbn file
     decode <dir>                 live_old := decoders on <dir>/meta, <dir>/ln, <dir>/bbn + the pg table
   At endsync the section is evaluated on d0 = the disk reached so far; then the disk is advanced
   through the section's events. *)

open BinNums
open SyncProto

let n_of_int = Img_cmds.n_of_int
let int_of_n = Img_cmds.int_of_n
let dec = Img_cmds.dec_of_n

let rec nat_of_int n = if n <= 0 then Datatypes.O else Datatypes.S (nat_of_int (n - 1))
let rec int_of_nat = function Datatypes.O -> 0 | Datatypes.S n -> 1 + int_of_nat n

let file_of_string = function
  | "meta" -> coq_FMeta | "wal" -> coq_FWal | "ht" -> coq_FHt | "ln" -> coq_FLn | "bbn" -> coq_FBbn
  | s -> failwith ("file " ^ s)

let string_of_file f =
  match int_of_nat f with 0 -> "meta" | 1 -> "wal" | 2 -> "ht" | 3 -> "ln" | 4 -> "bbn" | n -> string_of_int n

let num s = n_of_int (int_of_string s)

let ev_of_tokens = function
  | [ "W"; f; pn; c ] -> EW (file_of_string f, num pn, num c)
  | [ "S"; f; pn; c ] -> ES (file_of_string f, num pn, num c)
  | [ "C"; f; pn ] -> EC (file_of_string f, num pn)
  | [ "T"; f; len ] -> ET (file_of_string f, num len)
  | [ "F"; f ] -> EF (file_of_string f)
  | l -> failwith ("event " ^ String.concat " " l)

let string_of_ev = function
  | EW (f, pn, c) -> Printf.sprintf "W:%s:%s:%s" (string_of_file f) (dec pn) (dec c)
  | ES (f, pn, c) -> Printf.sprintf "S:%s:%s:%s" (string_of_file f) (dec pn) (dec c)
  | EC (f, pn) -> Printf.sprintf "C:%s:%s" (string_of_file f) (dec pn)
  | ET (f, len) -> Printf.sprintf "T:%s:%s" (string_of_file f) (dec len)
  | EF f -> Printf.sprintf "F:%s" (string_of_file f)

let clause_name (c : SyncGlue.clause) =
  match c with
  | SyncGlue.KNoSwitch -> "no-manifest-fsync" | SyncGlue.KOrder -> "manifest-fsync-before-write"
  | SyncGlue.KMetaWrite -> "manifest-write" | SyncGlue.KMid -> "between-manifest-write-and-fsync"
  | SyncGlue.KPre -> "pre" | SyncGlue.KCleanWal -> "wal-unsynced-at-switch"
  | SyncGlue.KCleanLn -> "ln-unsynced-at-switch" | SyncGlue.KCleanBbn -> "bbn-unsynced-at-switch"
  | SyncGlue.KWalDurable -> "wal-blob-not-durable-at-switch" | SyncGlue.KTreeDurable -> "tree-page-not-durable-at-switch"
  | SyncGlue.KPost -> "post" | SyncGlue.KHtClean -> "ht-unsynced-at-wal-truncation"
  | SyncGlue.KHtDurable -> "ht-page-not-durable-at-wal-truncation"

let start_name = function
  | 0 -> "manifest-is-m_old" | 1 -> "meta-clean" | 2 -> "ln-clean" | 3 -> "bbn-clean" | 4 -> "ht-clean"
  | 5 -> "live-pages-durable" | 6 -> "ht-old-durable" | 7 -> "wal-pending-is-nil-or-trunc0"
  | 8 -> "durable-wal-is-old-blob-or-empty" | n -> string_of_int n

let inst_name = function
  | 0 -> "m_old<>m_new" | 1 -> "m_old<>0" | 2 -> "m_new<>0" | 3 -> "wal_new-nonempty" | 4 -> "wal_new-header<>0"
  | 5 -> "wal-headers-differ" | 6 -> "wal_new-no-zero-page" | 7 -> "wal_old-no-zero-page"
  | 8 -> "ht-old-new-same-pages" | 9 -> "ht-pages-distinct" | 10 -> "tree_new-not-live"
  | 11 -> "live-in-ln-bbn" | 12 -> "tree_new-in-ln-bbn-nonzero" | n -> string_of_int n

let failed name checks =
  let bad = Stdlib.List.filter (fun (_, b) -> not b) checks in
  if bad = [] then "ok"
  else "FAIL:" ^ String.concat "," (Stdlib.List.map (fun (i, _) -> name (int_of_nat i)) bad)

(* ---------------------------------------------------------------------------------------- *)
(* live pages from the pre-sync files, decoders of Image.v *)

type decoded = { live : ((Datatypes.nat * coq_N) * cid) list; info : string }

let decode_live (dir : string) (pg_ln : (coq_N * cid) list) (pg_bbn : (coq_N * cid) list) : decoded =
  let meta = Img_cmds.open_file (Filename.concat dir "meta") in
  let ln = Img_cmds.open_file (Filename.concat dir "ln") in
  let bbn = Img_cmds.open_file (Filename.concat dir "bbn") in
  let err what (c, x, y) =
    { live = []; info = Printf.sprintf "decode=ERR:%s:%s:%s:%s" what (Img_cmds.ecode_name c) (dec x) (dec y) }
  in
  let r =
    match Image.full_page Image.EReadMeta N0 (Img_cmds.read_page meta N0) with
    | Image.Err (c, x, y) -> err "meta" (c, x, y)
    | Image.Ok m0 -> (
        match Image.decode_manifest m0 with
        | Image.Err (c, x, y) -> err "manifest" (c, x, y)
        | Image.Ok mf -> (
            let walk c rd head bump = Image.free_walk (nat_of_int (int_of_n bump)) c rd head [] in
            match
              ( walk Image.EReadLn (Img_cmds.read_page ln) mf.Image.mf_ln_freelist_pn mf.Image.mf_ln_bump,
                walk Image.EReadBbn (Img_cmds.read_page bbn) mf.Image.mf_bbn_freelist_pn mf.Image.mf_bbn_bump )
            with
            | Image.Err (c, x, y), _ -> err "ln-free-list" (c, x, y)
            | _, Image.Err (c, x, y) -> err "bbn-free-list" (c, x, y)
            | Image.Ok lnfl, Image.Ok bbnfl ->
                let l1 = SyncGlue.live_of coq_FLn mf.Image.mf_ln_bump (Image.free_items lnfl) pg_ln in
                let l2 = SyncGlue.live_of coq_FBbn mf.Image.mf_bbn_bump (Image.free_items bbnfl) pg_bbn in
                let len l = Stdlib.List.length l in
                { live = l1 @ l2;
                  info =
                    Printf.sprintf
                      "decode=ok seqn=%s ln_bump=%s bbn_bump=%s ln_free_items=%d ln_free_portions=%d bbn_free_items=%d \
                       bbn_free_portions=%d"
                      (dec mf.Image.mf_sync_seqn) (dec mf.Image.mf_ln_bump) (dec mf.Image.mf_bbn_bump)
                      (len (Image.free_items lnfl)) (len lnfl) (len (Image.free_items bbnfl)) (len bbnfl) }))
  in
  Stdlib.List.iter Img_cmds.close_file [ meta; ln; bbn ];
  r

(* ---------------------------------------------------------------------------------------- *)

type section = {
  id : string;
  mutable mold : cid;
  mutable mnew : cid;
  mutable live_x : ((Datatypes.nat * coq_N) * cid) list;   (* explicit live lines, reversed *)
  mutable tree : ((Datatypes.nat * coq_N) * cid) list;     (* reversed *)
  mutable walold : cid list;
  mutable walnew : cid list;
  mutable hto : (coq_N * cid) list;                        (* reversed *)
  mutable htn : (coq_N * cid) list;                        (* reversed *)
  mutable pg_ln : (coq_N * cid) list;                      (* reversed: later lines win in map_of after rev *)
  mutable pg_bbn : (coq_N * cid) list;
  mutable dir : string option;
  mutable tr : ev list;                                    (* reversed *)
}

let count p l = Stdlib.List.length (Stdlib.List.filter p l)

let evaluate (d0 : disk) (s : section) (dump : bool) (emit : string -> unit) : ev list =
  let tr = Stdlib.List.rev s.tr in
  let dec_info, live =
    match s.dir with
    | Some dir ->
        let d = decode_live dir (Stdlib.List.rev s.pg_ln) (Stdlib.List.rev s.pg_bbn) in
        (d.info, d.live @ Stdlib.List.rev s.live_x)
    | None -> ("decode=explicit", Stdlib.List.rev s.live_x)
  in
  let i =
    { m_old = s.mold; m_new = s.mnew; live_old = live; tree_new = Stdlib.List.rev s.tree; wal_old = s.walold;
      wal_new = s.walnew; ht_old = Stdlib.List.rev s.hto; ht_new = Stdlib.List.rev s.htn }
  in
  if dump then
    Stdlib.List.iter
      (fun ((f, pn), c) -> emit (Printf.sprintf "live %s %s %s" (string_of_file f) (dec pn) (dec c)))
      live;
  let verdict = SyncGlue.explain i d0 tr in
  (* the theorem's hypothesis is [discipline]; evaluate it too so that the two never drift apart *)
  let disc = discipline i d0 tr in
  let arr = Array.of_list tr in
  let disc_s =
    match verdict with
    | None -> if disc then "discipline=ok" else "discipline=FAIL clause=explain-disagrees pos=0 at=-"
    | Some (c, pos) ->
        let p = int_of_nat pos in
        let at =
          match c with
          | SyncGlue.KTreeDurable -> (
              match Stdlib.List.nth_opt i.tree_new p with
              | Some ((f, pn), c) -> Printf.sprintf "tree:%s:%s:%s" (string_of_file f) (dec pn) (dec c)
              | None -> "-")
          | SyncGlue.KHtDurable -> (
              match Stdlib.List.nth_opt i.ht_new p with
              | Some (pn, c) -> Printf.sprintf "ht:%s:%s" (dec pn) (dec c)
              | None -> "-")
          | _ -> if p < Array.length arr then string_of_ev arr.(p) else "-"
        in
        let extra =
          match c with
          | (SyncGlue.KPre | SyncGlue.KPost) when p < Array.length arr -> (
              match arr.(p) with
              | EW (f, pn, _) | ES (f, pn, _) ->
                  Printf.sprintf " page_is_live=%d expected_wal=%s expected_ht=%s"
                    (if in_live i f pn then 1 else 0)
                    (dec (nthN i.wal_new pn)) (dec (pm_get i.ht_new pn))
              | _ -> "")
          | _ -> ""
        in
        Printf.sprintf "discipline=FAIL%s clause=%s pos=%d at=%s%s" (if disc then "-BUT-discipline-true" else "")
          (clause_name c) p at extra
  in
  let st = SyncGlue.start_checks i d0 in
  let ic = SyncGlue.inst_checks i in
  let b x = if x then 1 else 0 in
  let dur = image_of_durable d0 in
  let rec dur_wal_pages k = if k < 100000 && int_of_n (dur coq_FWal (n_of_int k)) <> 0 then dur_wal_pages (k + 1) else k in
  let iw = match index_of is_meta_write tr with Some n -> int_of_nat n | None -> -1 in
  let is_file f e = match e with EW (g, _, _) | ES (g, _, _) | EC (g, _) | ET (g, _) | EF g -> int_of_nat g = int_of_nat f in
  emit
    (Printf.sprintf
       "sync %s %s start=%s inst=%s wal_safe=%d wal_safe_orig=%d wal_pending=%d durable_wal_pages=%d events=%d \
        manifest_write_at=%d live=%d tree=%d ht=%d walold=%d walnew=%d ev_wal=%d ev_ln=%d ev_bbn=%d ev_ht=%d %s"
       s.id disc_s (failed start_name st) (failed inst_name ic) (b (SyncGlue.wal_safeb i d0))
       (b (SyncGlue.wal_safe_origb i d0))
       (Stdlib.List.length (fget d0 coq_FWal).fpend)
       (dur_wal_pages 0) (Array.length arr) iw (Stdlib.List.length live) (Stdlib.List.length i.tree_new)
       (Stdlib.List.length i.ht_new) (Stdlib.List.length i.wal_old) (Stdlib.List.length i.wal_new)
       (count (is_file coq_FWal) tr) (count (is_file coq_FLn) tr) (count (is_file coq_FBbn) tr)
       (count (is_file coq_FHt) tr) dec_info);
  tr

let synccheck (path : string) (dump : bool) : string =
  let ic = open_in path in
  let out = Buffer.create 4096 in
  let emit s = Buffer.add_string out s; Buffer.add_char out '\n' in
  let disk : disk ref = ref [] in
  let base : (int, (coq_N * cid) list) Hashtbl.t = Hashtbl.create 5 in
  let base_done = ref false in
  let finish_base () =
    if not !base_done then begin
      base_done := true;
      (* the all-durable starting disk: the five files, nothing pending *)
      Stdlib.List.iter
        (fun f ->
          let pages = match Hashtbl.find_opt base (int_of_nat f) with Some l -> l | None -> [] in
          disk := fset !disk f { fdur = pages; fpend = [] })
        [ coq_FMeta; coq_FWal; coq_FHt; coq_FLn; coq_FBbn ]
    end
  in
  let cur : section option ref = ref None in
  (try
     while true do
       let line = input_line ic in
       let toks = String.split_on_char ' ' line |> Stdlib.List.filter (fun s -> s <> "") in
       match (toks, !cur) with
       | [], _ -> ()
       | t :: _, _ when String.length t > 0 && t.[0] = '#' -> ()
       | [ "base"; f; pn; c ], None ->
           if !base_done then failwith "base line after the first event";
           let k = int_of_nat (file_of_string f) in
           let l = match Hashtbl.find_opt base k with Some l -> l | None -> [] in
           Hashtbl.replace base k ((num pn, num c) :: l)
       | "ev" :: e, None -> finish_base (); disk := dstep !disk (ev_of_tokens e)
       | "ev" :: e, Some s -> s.tr <- ev_of_tokens e :: s.tr
       | "sync" :: id :: _, None ->
           finish_base ();
           cur :=
             Some
               { id; mold = N0; mnew = N0; live_x = []; tree = []; walold = []; walnew = []; hto = []; htn = [];
                 pg_ln = []; pg_bbn = []; dir = None; tr = [] }
       | [ "mold"; c ], Some s -> s.mold <- num c
       | [ "mnew"; c ], Some s -> s.mnew <- num c
       | "walold" :: l, Some s -> s.walold <- Stdlib.List.map num l
       | "walnew" :: l, Some s -> s.walnew <- Stdlib.List.map num l
       | [ "ht"; pn; o; n ], Some s -> s.hto <- (num pn, num o) :: s.hto; s.htn <- (num pn, num n) :: s.htn
       | [ "tree"; f; pn; c ], Some s -> s.tree <- ((file_of_string f, num pn), num c) :: s.tree
       | [ "live"; f; pn; c ], Some s -> s.live_x <- ((file_of_string f, num pn), num c) :: s.live_x
       | [ "pg"; "ln"; pn; c ], Some s -> s.pg_ln <- (num pn, num c) :: s.pg_ln
       | [ "pg"; "bbn"; pn; c ], Some s -> s.pg_bbn <- (num pn, num c) :: s.pg_bbn
       | [ "decode"; dir ], Some s -> s.dir <- Some dir
       | [ "endsync" ], Some s ->
           let tr = evaluate !disk s dump emit in
           disk := drun !disk tr;
           cur := None
       | _ -> failwith ("history line: " ^ line)
     done
   with
   | End_of_file -> close_in_noerr ic
   | e -> close_in_noerr ic; raise e);
  Buffer.add_string out "end";
  Buffer.contents out

let handle (toks : string list) : string option =
  match toks with
  | [ "synccheck"; path ] -> Some (synccheck path false)
  | [ "synccheck"; path; "dump" ] -> Some (synccheck path true)
  | _ -> None
