(* Leaf rebuild commands (engine `nv lb`, properties C01 / C16): decode a leaf page the real
   LeafUpdater built (hook H5) with the extracted Coq decoder Image.decode_leaf, encode the decoded
   entries again with NodeCodec (leaf_segs = the defined bytes of encode_leaf) and compare, and
   check the key range with Image.leaf_in_range.  This module parses, calls extracted functions and
   prints what they return.

   Overflow cells: the decoder follows the page numbers of an overflow cell through [rd]; the pages
   of the engine's cells do not exist, so [rd] answers every page number with an empty overflow
   page (no page numbers, no bytes).  The decoded entry then carries the cell's size, hash and page
   numbers (e_ovf), which is all NodeCodec.cell_of needs to give the cell back.

   lbcheck <separator hex> <next separator hex | -> <page hex>
     -> "D <ecode> <x> <y>" "end"          the page does not decode
      | "E <key hex> <overflow 0|1> <cell hex | ->"   per decoded entry; cell = NodeCodec.cell_of,
                                                       the bytes LeafBuilder::push_cell was given
        "body <bytes>"                     34 * entries + bytes of the cells
        "fits <0|1>"                       NodeCodec.leaf_fits
        "inline <0|1>"                     every inline entry passes NodeCodec.inline_ok
        "reenc <differing offsets> <first differing offset | -> <bytes compared> <stale bytes>"
                                           NodeCodec.compare_segs (NodeCodec.leaf_segs entries) page
        "range ok" | "range FAIL <ecode>"  Image.leaf_in_range (separator <= keys < next, ascending)
        "end" *)

let int_of_n = Img_cmds.int_of_n

let lines (l : string list) : string = String.concat "\n" (l @ [ "end" ])

let zero_page : BinNums.coq_N list = Stdlib.List.init 4096 (fun _ -> BinNums.N0)

let rd_empty (_ : BinNums.coq_N) : BinNums.coq_N list option = Some zero_page

let handle (toks : string list) : string option =
  match toks with
  | [ "lbcheck"; sep; next; page ] -> (
      let pg = Img_cmds.bytes_of_hex page in
      let sep = Img_cmds.key_of_hex sep in
      let next = if next = "-" then None else Some (Img_cmds.key_of_hex next) in
      match Image.decode_leaf rd_empty BinNums.N0 sep pg with
      | Image.Err (c, x, y) ->
          Some (lines [ Printf.sprintf "D %s %s %s" (Img_cmds.ecode_name c) (Img_cmds.dec_of_n x) (Img_cmds.dec_of_n y) ])
      | Image.Ok l ->
          let es = l.Image.l_entries in
          let elines =
            Stdlib.List.map
              (fun e ->
                let cell = NodeCodec.cell_of e in
                Printf.sprintf "E %s %d %s" (Img_cmds.hex_of_key e.Image.e_key)
                  (if NodeCodec.is_ovf e then 1 else 0)
                  (if cell = [] then "-" else Img_cmds.hex_of_bytes cell))
              es
          in
          let body = (34 * Stdlib.List.length es) + Stdlib.List.length (NodeCodec.cells es) in
          let inline = Stdlib.List.for_all (fun e -> NodeCodec.is_ovf e || NodeCodec.inline_ok e) es in
          let (bad, cmp), stale = NodeCodec.compare_segs (NodeCodec.leaf_segs es) pg in
          let range =
            match Image.leaf_in_range l next with
            | None -> "range ok"
            | Some ((c, _), _) -> Printf.sprintf "range FAIL %s" (Img_cmds.ecode_name c)
          in
          Some
            (lines
               (elines
               @ [ Printf.sprintf "body %d" body;
                   Printf.sprintf "fits %d" (if NodeCodec.leaf_fits es then 1 else 0);
                   Printf.sprintf "inline %d" (if inline then 1 else 0);
                   Printf.sprintf "reenc %d %s %d %d" (Stdlib.List.length bad)
                     (match bad with [] -> "-" | o :: _ -> string_of_int (int_of_n o))
                     (int_of_n cmp) (int_of_n stale);
                   range ])))
  | _ -> None
