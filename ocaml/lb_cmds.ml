(* Leaf rebuild commands (engine `nv lb`, properties C01 / C16): decode a leaf page the real
   LeafUpdater built (hook H5) with the extracted Coq decoder Image.decode_leaf, encode the decoded
   entries again with NodeCodec (leaf_segs = the defined bytes of encode_leaf) and compare, and
   check the key range with Image.leaf_in_range.  This module parses, calls extracted functions and
   prints what they return.

   Overflow cells: the decoder follows the page numbers of an overflow cell through [rd]; the pages
   of the engine's cells do not exist, so [rd] answers every page number with an empty overflow
   page (no page numbers, no bytes).  The decoded entry then carries the cell's size, hash and page
   numbers (e_ovf), which is all NodeCodec.cell_of needs to give the cell back.

   lbcheck <separator hex> <next separator hex | -> <page hex>
     -> "D <ecode> <x> <y>" "end"          the page does not decode
      | "E <key hex> <overflow 0|1> <cell hex | ->"   per decoded entry; cell = NodeCodec.cell_of,
                                                       the bytes LeafBuilder::push_cell was given
        "body <bytes>"                     34 * entries + bytes of the cells
        "fits <0|1>"                       NodeCodec.leaf_fits
        "inline <0|1>"                     every inline entry passes NodeCodec.inline_ok
        "reenc <differing offsets> <first differing offset | -> <bytes compared> <stale bytes>"
                                           NodeCodec.compare_segs (NodeCodec.leaf_segs entries) page
        "range ok" | "range FAIL <ecode>"  Image.leaf_in_range (separator <= keys < next, ascending)
        "end"

   lbmodel <stage>...   the extracted mirror LeafBuild.run_stages (bug = false) on the stages of an item;
        one token per stage:  S;<separator hex>;<base>;<cutoff hex | ->;<ops>
          <base> = - (none) | rc (remove_cutoff) | empty | <key hex>:<cell size>:<payload id>,...
          <ops>  = <key hex>:<cell size>:<payload id> | <key hex>:d ,...   (may be empty)
     -> "const <BODY> <MAXV> <MERGE> <BULK_THRESHOLD> <BULK_TARGET>"   the mirror's constants
        "wf <0|1>"                         LeafBuild.stages_wf: the hypothesis of the theorems of LeafBuild_proofs
        "panic"                            the mirror's updater / builder panics, or
        "stage <i> <NeedsMerge key hex | -> <gauge body left>"   per stage
        "leaf <j> <stage> <separator hex> <cutoff hex | -> <gauge body> <builder n> <builder values size>
              <cells> <body of the cells> <first key hex | -> <last key hex | ->"   per predicted leaf
        "ids <j> <payload id>..."          the cells of leaf j
        "pending <separator override hex | -> <cells> <body of the cells> <payload id>..."
        "end" *)

let int_of_n = Img_cmds.int_of_n

let lines (l : string list) : string = String.concat "\n" (l @ [ "end" ])

let zero_page : BinNums.coq_N list = Stdlib.List.init 4096 (fun _ -> BinNums.N0)

let rd_empty (_ : BinNums.coq_N) : BinNums.coq_N list option = Some zero_page

let handle (toks : string list) : string option =
  match toks with
  | [ "lbcheck"; sep; next; page ] -> (
      let pg = Img_cmds.bytes_of_hex page in
      let sep = Img_cmds.key_of_hex sep in
      let next = if next = "-" then None else Some (Img_cmds.key_of_hex next) in
      match Image.decode_leaf rd_empty BinNums.N0 sep pg with
      | Image.Err (c, x, y) ->
          Some (lines [ Printf.sprintf "D %s %s %s" (Img_cmds.ecode_name c) (Img_cmds.dec_of_n x) (Img_cmds.dec_of_n y) ])
      | Image.Ok l ->
          let es = l.Image.l_entries in
          let elines =
            Stdlib.List.map
              (fun e ->
                let cell = NodeCodec.cell_of e in
                Printf.sprintf "E %s %d %s" (Img_cmds.hex_of_key e.Image.e_key)
                  (if NodeCodec.is_ovf e then 1 else 0)
                  (if cell = [] then "-" else Img_cmds.hex_of_bytes cell))
              es
          in
          let body = (34 * Stdlib.List.length es) + Stdlib.List.length (NodeCodec.cells es) in
          let inline = Stdlib.List.for_all (fun e -> NodeCodec.is_ovf e || NodeCodec.inline_ok e) es in
          let (bad, cmp), stale = NodeCodec.compare_segs (NodeCodec.leaf_segs es) pg in
          let range =
            match Image.leaf_in_range l next with
            | None -> "range ok"
            | Some ((c, _), _) -> Printf.sprintf "range FAIL %s" (Img_cmds.ecode_name c)
          in
          Some
            (lines
               (elines
               @ [ Printf.sprintf "body %d" body;
                   Printf.sprintf "fits %d" (if NodeCodec.leaf_fits es then 1 else 0);
                   Printf.sprintf "inline %d" (if inline then 1 else 0);
                   Printf.sprintf "reenc %d %s %d %d" (Stdlib.List.length bad)
                     (match bad with [] -> "-" | o :: _ -> string_of_int (int_of_n o))
                     (int_of_n cmp) (int_of_n stale);
                   range ])))
  | "lbmodel" :: stages ->
      let n_of_int = Img_cmds.n_of_int in
      let cell_of_tok (t : string) : LeafBuild.cell =
        match String.split_on_char ':' t with
        | [ k; size; id ] ->
            { LeafBuild.c_key = Img_cmds.key_of_hex k; c_size = n_of_int (int_of_string size); c_id = n_of_int (int_of_string id) }
        | _ -> failwith "lbmodel cell syntax"
      in
      let op_of_tok (t : string) =
        match String.split_on_char ':' t with
        | [ k; "d" ] -> (Img_cmds.key_of_hex k, None)
        | [ k; size; id ] -> (Img_cmds.key_of_hex k, Some (n_of_int (int_of_string size), n_of_int (int_of_string id)))
        | _ -> failwith "lbmodel op syntax"
      in
      let list_of f (s : string) =
        if s = "" then [] else Stdlib.List.map f (String.split_on_char ',' s)
      in
      let parse_stage (tok : string) : LeafBuild.stage =
        match String.split_on_char ';' tok with
        | [ "S"; sep; base; cutoff; ops ] ->
            let sep = Img_cmds.key_of_hex sep in
            let base, rc =
              match base with
              | "-" -> (None, false)
              | "rc" -> (None, true)
              | "empty" -> (Some { LeafBuild.b_sep = sep; b_cells = [] }, false)
              | b -> (Some { LeafBuild.b_sep = sep; b_cells = list_of cell_of_tok b }, false)
            in
            { LeafBuild.sg_base = base; sg_rc = rc; sg_ops = list_of op_of_tok ops;
              sg_cutoff = (if cutoff = "-" then None else Some (Img_cmds.key_of_hex cutoff)) }
        | _ -> failwith "lbmodel stage syntax"
      in
      let sgs = Stdlib.List.map parse_stage stages in
      let okey = function None -> "-" | Some k -> Img_cmds.hex_of_key k in
      let ids (cs : LeafBuild.cell list) =
        String.concat " " (Stdlib.List.map (fun c -> string_of_int (int_of_n c.LeafBuild.c_id)) cs)
      in
      let head =
        [ Printf.sprintf "const %d %d %d %d %d" (int_of_n LeafBuild.coq_BODY) (int_of_n LeafBuild.coq_MAXV)
            (int_of_n LeafBuild.coq_MERGE) (int_of_n LeafBuild.coq_BULK_THRESHOLD) (int_of_n LeafBuild.coq_BULK_TARGET);
          Printf.sprintf "wf %d" (if LeafBuild.stages_wf sgs then 1 else 0) ]
      in
      (* self-test of the comparison: VERIF_LB_BUG=1 runs the mirror with the seeded off-by-one of the
         split point (LeafBuild_proofs.leaves_fit_refuted); the engine must then report c01-lb-model *)
      let bug = (match Sys.getenv_opt "VERIF_LB_BUG" with Some "1" -> true | _ -> false) in
      (match LeafBuild.run_stages bug LeafBuild.u0 sgs with
       | None -> Some (lines (head @ [ "panic" ]))
       | Some (res, u) ->
           let out = ref [] in
           let j = ref 0 in
           Stdlib.List.iteri
             (fun i r ->
               out := Printf.sprintf "stage %d %s %d" i (okey r.LeafBuild.sr_merge) (int_of_n r.LeafBuild.sr_left) :: !out;
               Stdlib.List.iter
                 (fun b ->
                   let cs = b.LeafBuild.bl_cells in
                   let first = match cs with [] -> "-" | c :: _ -> Img_cmds.hex_of_key c.LeafBuild.c_key in
                   let last = match Stdlib.List.rev cs with [] -> "-" | c :: _ -> Img_cmds.hex_of_key c.LeafBuild.c_key in
                   out :=
                     Printf.sprintf "ids %d %s" !j (ids cs)
                     :: Printf.sprintf "leaf %d %d %s %s %d %d %d %d %d %s %s" !j i (Img_cmds.hex_of_key b.LeafBuild.bl_sep)
                          (okey b.LeafBuild.bl_cutoff) (int_of_n b.LeafBuild.bl_gauge) (State.int_of_nat b.LeafBuild.bl_n)
                          (int_of_n b.LeafBuild.bl_vs) (Stdlib.List.length cs) (int_of_n (LeafBuild.body_of cs)) first last
                     :: !out;
                   incr j)
                 r.LeafBuild.sr_built)
             res;
           let p = LeafBuild.pending u in
           let pend =
             Printf.sprintf "pending %s %d %d %s" (okey u.LeafBuild.u_sepov) (Stdlib.List.length p)
               (int_of_n (LeafBuild.body_of p)) (ids p)
           in
           Some (lines (head @ Stdlib.List.rev !out @ [ pend ])))
  | _ -> None
