(* Free-list / allocator commands: run the extracted allocator mirror (FreeList.v) between two
   consecutive decoded images.  This module only stores the previous image's decoded free lists,
   frontiers and live page numbers, calls extracted functions and prints what they return; every
   decision is taken by extracted code.

   flsnap   -> ok | none      remember (free list, bump, live pages) of ln and bbn of the image that
                              is currently open (imgopen); "none" (and the snapshot is dropped) when
                              the image does not decode
   flcheck  -> lines "<store> <check> ok ..." | "<store> <check> FAIL <code> <x> <y> ...", then "end";
               "nosnap" "end" when there is no snapshot or the current image does not decode.
               Checks per store (ln, bbn):
                 transition  EXACT: with the allocations / releases inferred from the two images, the
                             mirror's finish from the snapshot yields exactly the decoded free list of
                             the current image (same portions, same items, same order) and its bump;
                             the pages handed out / released match the live-set difference
                 written     every page the mirror's commit writes is on disk with exactly the
                             encoder's bytes (defined prefix)
                 inplace     no page the mirror's commit writes is a portion page of the old list
                             (a write onto the previous image would violate C17)
                 sets        order-independent: tracked' within tracked + released + fresh,
                             tracked and live pages stay tracked or live, bump monotone
                 reencode    encoding the decoded free list reproduces the bytes of its portion pages
                 shape       the decoded list has the shape the code relies on *)

open BinNums

let rec int_of_nat = function Datatypes.O -> 0 | Datatypes.S n -> 1 + int_of_nat n

let rec int_of_pos = function
  | Coq_xH -> 1
  | Coq_xO p -> 2 * int_of_pos p
  | Coq_xI p -> (2 * int_of_pos p) + 1

let int_of_n = function N0 -> 0 | Npos p -> int_of_pos p

type side = { fl : (coq_N * coq_N list) list; bump : coq_N; live : coq_N list }

let snap : (side * side) option ref = ref None

let sides (img : Image.image) : side * side =
  let m = img.Image.i_manifest in
  ( { fl = img.Image.i_ln_free; bump = m.Image.mf_ln_bump; live = FreeList.ln_live img },
    { fl = img.Image.i_bbn_free; bump = m.Image.mf_bbn_bump; live = FreeList.bbn_live img } )

let tcode_name (c : FreeList.tcode) : string =
  match c with
  | FreeList.TShapeOld -> "TShapeOld" | FreeList.TShapeNew -> "TShapeNew"
  | FreeList.TModelPanic -> "TModelPanic" | FreeList.TPortions -> "TPortions"
  | FreeList.TBump -> "TBump" | FreeList.TAllocSet -> "TAllocSet" | FreeList.TFreedSet -> "TFreedSet"
  | FreeList.TFreedDup -> "TFreedDup" | FreeList.TWritten -> "TWritten"
  | FreeList.TReencode -> "TReencode" | FreeList.TAllocPanic -> "TAllocPanic"
  | FreeList.TInPlace -> "TInPlace"

let line (store : string) (check : string) (v : FreeList.tverdict) (extra : string) : string =
  match v with
  | None -> Printf.sprintf "%s %s ok%s" store check extra
  | Some ((c, x), y) ->
      Printf.sprintf "%s %s FAIL %s %d %d%s" store check (tcode_name c) (int_of_n x) (int_of_n y) extra

let check_side (store : string) (rd : coq_N -> coq_N list option) (a : side) (b : side) : string list =
  let cap = FreeList.coq_CAP in
  let t = FreeList.fl_transition cap a.fl a.bump a.live b.fl b.bump b.live in
  let extra =
    Printf.sprintf " frag=%d inplace=%d allocs=%d freed=%d written=%d portions=%d items=%d"
      (if (FreeList.fl_read_f cap b.fl).FreeList.fl_frag then 1 else 0)
      (* pages the mirror's commit writes that are portion pages of the old list: none since the
         repair of FreeList::push_and_encode (head_clean); reported by the [inplace] check *)
      (Stdlib.List.length
         (Stdlib.List.filter
            (fun w -> Stdlib.List.exists (fun p -> fst p = fst (fst w)) a.fl)
            t.FreeList.t_written))
      (int_of_nat t.FreeList.t_allocs)
      (Stdlib.List.length t.FreeList.t_freed)
      (Stdlib.List.length t.FreeList.t_written)
      (Stdlib.List.length b.fl)
      (Stdlib.List.length (Image.free_items b.fl))
  in
  let l1 = line store "transition" t.FreeList.t_verdict extra in
  let l2 =
    match t.FreeList.t_verdict with
    | None ->
        [ line store "written" (FreeList.written_v rd t.FreeList.t_written) "";
          line store "inplace" (FreeList.inplace_v a.fl t.FreeList.t_written) "" ]
    | Some _ -> []
  in
  [ l1 ] @ l2
  @ [ line store "sets" (FreeList.fl_transition_sets a.fl a.bump a.live b.fl b.bump b.live) "";
      line store "reencode" (FreeList.reencode_v rd b.fl) "";
      line store "shape" (FreeList.shape_v cap b.fl FreeList.TShapeNew) "" ]

let lines (l : string list) : string = String.concat "\n" (l @ [ "end" ])

let handle (toks : string list) : string option =
  match toks with
  | [ "flsnap" ] -> (
      match (try Some (Img_cmds.image ()) with Failure _ -> None) with
      | Some (Image.Ok img) -> snap := Some (sides img); Some "ok"
      | _ -> snap := None; Some "none")
  | [ "fldrop" ] -> snap := None; Some "ok"
  | [ "flcheck" ] -> (
      match (!snap, (try Some (Img_cmds.image ()) with Failure _ -> None), !Img_cmds.cur_files) with
      | Some (a_ln, a_bbn), Some (Image.Ok img), Some fs ->
          let b_ln, b_bbn = sides img in
          Some (lines (check_side "ln" fs.Image.rd_ln a_ln b_ln @ check_side "bbn" fs.Image.rd_bbn a_bbn b_bbn))
      | _ -> Some (lines [ "nosnap" ]))
  | _ -> None
