#!/bin/sh
# Extract the Coq models to OCaml and build the model driver.  Needs the .vo files of coq/.
set -e
cd "$(dirname "$0")"
mkdir -p gen
( cd gen && rm -f *.ml *.mli && coqc -Q ../../coq/theories Nomt ../../coq/extract/Extract.v >/dev/null )
rm -rf _build && mkdir -p _build
cp gen/*.ml gen/*.mli state.ml core_cmds.ml img_cmds.ml sync_cmds.ml misc_cmds.ml wal_cmds.ml rb_cmds.ml fl_cmds.ml delta_cmds.ml lb_cmds.ml bb_cmds.ml rbbook_cmds.ml driver.ml _build/
cd _build
ORDER=$(ocamlfind ocamldep -sort *.ml *.mli | tr ' ' '\n' | grep -v '^$' )
ocamlfind ocamlopt -O3 -w -a -o ../model $ORDER 2>/dev/null || ocamlfind ocamlopt -w -a -o ../model $ORDER
