//! E-rbtrace (C17 / C04, rollback log): evaluate the proved monitor of coq/theories/RbProto.v on the I/O
//! traces of the rollback segment files (`rollback.<10 digits>.log`) the real implementation produces.
//!
//! A generated history (rollback enabled, tiny segments through the `segsz` hook, >= 12 commits that
//! overwrite values of assorted sizes, rollbacks, reopenings; ONE child process) runs under the observer
//! (tools/shim.c) with payload spooling; every commit / rollback is an armed window.  The event log is
//! translated into the event alphabet of RbProto.v; the extracted Coq code (ocaml/rb_cmds.ml: `rbcheck`)
//! replays the whole file through `dstep` and evaluates for every window `rb_explain` (= `rb_discipline`
//! with a verdict, rb_explain_ok), `start_checks` and `inst_checks`: the hypotheses of
//! `rb_powerloss_atomic` / `rb_old_range_intact`.
//!
//! Translation (no knowledge about the protocol in here):
//!   * tracked: the segment files, the database directory (`.`) and `meta`; everything else is dropped;
//!   * `C` (open with O_CREAT of a new name) -> `C seg`; `U` (unlink returned 0) -> `U seg`;
//!     `T` (ftruncate returned 0) -> `T seg <blocks>`; `S`/`D` (returned 0) -> `F seg`, `D` for the
//!     directory, `MS` for meta; all placed where the call RETURNED;
//!   * a 12-byte write at a 4 KiB aligned offset is a record header (payload length u32 LE, id u64 LE):
//!     `A seg <block> <id> <ceil((12 + payload) / 4096)>`; the writes that follow inside that extent are the
//!     record's payload and produce no event; any other write to a segment is a foreign write
//!     `A seg <block> 0 <blocks touched>` (record id 0 never belongs to a live range);
//!   * a write to `meta` -> `MW <rollback_start_live> <rollback_end_live>` (bytes 48..64 of the page);
//!   * the bytes of every segment file are reconstructed from the (empty) starting directory plus the
//!     spooled payloads; the pre-window reconstruction is what the decoder (RbProto.rb_scan, driven by
//!     ocaml/rb_cmds.ml) reads; the final reconstruction is compared with the files the child left behind.

use crate::gen::*;
use crate::json::J;
use crate::model::Model;
use crate::sys::{script_from_text, script_to_text, Acc, Cfg, Op, ValDesc};
use crate::util::{fresh_dir, hex, unhex, value_bytes, Key, Rng};
use std::collections::{BTreeMap, HashMap};
use std::path::Path;

const BLK: u64 = 4096;

fn seg_of(path: &str) -> Option<u32> {
    let b = path.as_bytes();
    if b.len() == 23 && path.starts_with("rollback.") && path.ends_with(".log") {
        path[9..19].parse().ok()
    } else {
        None
    }
}

fn tracked(path: &str) -> bool {
    path == "." || path == "meta" || seg_of(path).is_some()
}

// ------------------------------------------------------------------------------------------
// histories
// ------------------------------------------------------------------------------------------

pub struct History {
    pub label: String,
    pub ops: Vec<Op>, // every Commit / Rollback wrapped in Arm / Disarm
}

fn arm_wrap(ops: Vec<Op>) -> Vec<Op> {
    let mut out = Vec::with_capacity(ops.len() + 16);
    for o in ops {
        match o {
            Op::Commit { .. } | Op::Rollback(_) => {
                out.push(Op::Arm);
                out.push(o);
                out.push(Op::Disarm);
            }
            o => out.push(o),
        }
    }
    out
}

const VAL_SIZES: [usize; 9] = [0, 40, 150, 700, 1500, 3000, 5000, 8000, 12000];

pub fn gen_history(rng: &mut Rng, thorough: bool, idx: usize) -> History {
    let mut cfg = gen_cfg(rng);
    cfg.rollback = true;
    cfg.max_len = [1u32, 2, 3, 5][idx % 4];
    cfg.segsz = [4096u64, 16384, 65536][(idx / 4) % 3];
    cfg.cc = *rng.pick(&[1usize, 2, 4]);
    cfg.ht = *rng.pick(&[1024u32, 4096]);
    cfg.prepop = false;
    cfg.panic = 0;
    let n_pool = rng.range(6, 11) as usize;
    let pool: Vec<Key> = (0..n_pool).map(|_| rng.key()).collect();
    let mut live: BTreeMap<Key, usize> = BTreeMap::new(); // key -> length of its current value
    let mut snaps: Vec<BTreeMap<Key, usize>> = Vec::new(); // state before each logged commit
    let mut ops = vec![Op::Open(cfg.clone())];
    let (mut s, mut c) = (0u32, 0u32);
    let mut commits = 0usize;
    let mut avail = 0usize; // deltas the handle can roll back
    let mut kinds: Vec<String> = Vec::new();
    let target = if thorough { rng.range(16, 30) } else { rng.range(12, 18) } as usize;
    let mut steps = 0;
    while commits < target && steps < 200 {
        steps += 1;
        let k = if commits == 0 { 0 } else { rng.below(12) };
        if k < 8 {
            // a commit; delta = the prior values of the keys written
            let class = if commits == 0 { 3 } else { rng.below(4) };
            let mut batch: BTreeMap<Key, Acc> = BTreeMap::new();
            let mut delta = 0usize;
            let budget = match class {
                0 => 100,
                1 => rng.range(500, 4000) as usize,
                2 => rng.range(4000, 16000) as usize,
                _ => rng.range(16000, 40000) as usize,
            };
            let mut order: Vec<Key> = pool.clone();
            for i in (1..order.len()).rev() {
                order.swap(i, rng.below(i as u64 + 1) as usize);
            }
            for key in order {
                let prior = live.get(&key).copied();
                let cost = 36 + prior.unwrap_or(0);
                if !batch.is_empty() && delta + cost > budget && commits > 0 {
                    continue;
                }
                let newv = if commits > 0 && rng.chance(1, 10) {
                    None
                } else {
                    // one value in eight is EMPTY (length 0): a later write of the key logs the prior `Some([])`
                    let len = if rng.chance(1, 8) { 0 } else { *rng.pick(&VAL_SIZES) + rng.below(30) as usize };
                    Some((len, rng.next() % 1_000_000))
                };
                let acc = if rng.chance(1, 5) { Acc::ReadWrite(newv) } else { Acc::Write(newv) };
                batch.insert(key, acc);
                delta += cost;
                if delta >= budget && commits > 0 {
                    break;
                }
            }
            snaps.push(live.clone());
            for (k, a) in &batch {
                match a {
                    Acc::Write(Some(v)) | Acc::ReadWrite(Some(v)) => {
                        live.insert(*k, v.0);
                    }
                    Acc::Write(None) | Acc::ReadWrite(None) => {
                        live.remove(k);
                    }
                    Acc::Read => {}
                }
            }
            s += 1;
            c += 1;
            ops.extend(commit_ops(s, c, batch.into_iter().collect(), false));
            commits += 1;
            avail = (avail + 1).min(cfg.max_len as usize);
            kinds.push(format!("c{}", delta / 1024));
        } else if k < 10 {
            if avail == 0 {
                continue;
            }
            let n = if rng.chance(1, 12) { avail + 1 } else { rng.range(1, avail.min(3) as u64) as usize };
            ops.push(Op::Rollback(n));
            if n <= avail {
                for _ in 0..n {
                    if let Some(st) = snaps.pop() {
                        live = st;
                    }
                }
                avail -= n;
                kinds.push(format!("rb{}", n));
            } else {
                kinds.push(format!("rb{}!", n));
            }
        } else {
            ops.push(Op::Close);
            ops.push(Op::Open(cfg.clone()));
            kinds.push("reopen".into());
        }
    }
    ops.push(Op::Close);
    History { label: format!("ml{}:seg{}:cc{}:{}", cfg.max_len, cfg.segsz, cfg.cc, kinds.join(",")), ops: arm_wrap(ops) }
}

// ------------------------------------------------------------------------------------------
// the observer's log, in the order in which the operations took effect
// ------------------------------------------------------------------------------------------

#[derive(Clone, Debug)]
enum Item {
    Arm,
    Disarm,
    Ev { seq: u64, kind: String, path: String, off: u64, len: u64, ret: i64 },
}

struct Parsed {
    items: Vec<Item>,
    fsync_overlaps: usize, // operations on a tracked file that took effect while an fsync of that file was running
    unreturned: usize,     // synchronous operations on tracked files without a result line
}

fn parse_log_ordered(path: &Path) -> Parsed {
    let txt = std::fs::read_to_string(path).unwrap_or_default();
    let mut items = Vec::new();
    let mut waiting: HashMap<u64, (String, String, u64, u64)> = HashMap::new();
    let mut fsync_open: HashMap<String, u64> = HashMap::new();
    let mut overlaps = 0;
    for l in txt.lines() {
        let t: Vec<&str> = l.split(' ').collect();
        match t[0] {
            "C" => match t.get(1) {
                Some(&"arm") => items.push(Item::Arm),
                Some(&"disarm") => items.push(Item::Disarm),
                _ => {}
            },
            "E" if t.len() >= 8 => {
                let seq: u64 = t[1].parse().unwrap();
                let (kind, path) = (t[4].to_string(), t[5].to_string());
                let off = t[6].parse::<i64>().unwrap_or(0).max(0) as u64;
                let len = t[7].parse::<i64>().unwrap_or(0).max(0) as u64;
                if kind == "UW" || kind == "UC" || kind == "UE" {
                    if tracked(&path) {
                        // the rollback log, the manifest and the directory are never written through io_uring
                        items.push(Item::Ev { seq, kind, path, off, len, ret: 0 });
                    }
                } else {
                    if (kind == "S" || kind == "D") && tracked(&path) {
                        fsync_open.insert(path.clone(), seq);
                    }
                    waiting.insert(seq, (kind, path, off, len));
                }
            }
            "R" if t.len() >= 3 => {
                let seq: u64 = t[1].parse().unwrap();
                if let Some((kind, path, off, len)) = waiting.remove(&seq) {
                    let ret: i64 = t[2].parse().unwrap_or(-1);
                    if fsync_open.get(&path) == Some(&seq) {
                        fsync_open.remove(&path);
                    } else if tracked(&path) && fsync_open.contains_key(&path) && ["W", "T", "A"].contains(&kind.as_str()) {
                        overlaps += 1;
                    } else if fsync_open.contains_key(".") && ["C", "U", "N"].contains(&kind.as_str()) && tracked(&path) {
                        // a directory operation while the directory is being fsynced
                        overlaps += 1;
                    }
                    items.push(Item::Ev { seq, kind, path, off, len, ret });
                }
            }
            _ => {}
        }
    }
    let unreturned = waiting.values().filter(|w| tracked(&w.1) && ["W", "T", "S", "D", "A", "C", "U"].contains(&w.0.as_str())).count();
    Parsed { items, fsync_overlaps: overlaps, unreturned }
}

// ------------------------------------------------------------------------------------------
// translation of one run
// ------------------------------------------------------------------------------------------

#[derive(Default, Clone)]
pub struct SyncInfo {
    pub id: usize,
    pub op: String,
    pub lines: Vec<String>, // the section of the history file
    pub creates: usize,
    pub unlinks: usize,
    pub shrinks: usize,
    pub appends: usize,
    pub has_manifest_write: bool,
    pub shrink_lines: Vec<usize>, // indices into `lines` of truncations that made a file shorter
}

pub struct Translation {
    pub text: String,
    pub syncs: Vec<SyncInfo>,
    pub empty_windows: usize,
    pub empty_ops: Vec<String>,
    pub events_tracked: usize,
    pub events_dropped: usize,
    pub foreign_writes: usize,
    pub payload_bytes: Vec<u64>, // payload length of every record appended
    pub records: Vec<RecInfo>,   // every record appended, with its payload cut out of the reconstruction
    pub max_segments: usize,
    pub files: BTreeMap<u32, Vec<u8>>, // final reconstructed contents
    pub unsupported: Vec<String>,
    pub book_obs: Vec<BookObs>, // one per armed window: manifest range and segment-file records before / after
}

/// a record appended to a segment file (12-byte header at a block boundary + payload)
pub struct RecInfo {
    pub window: Option<usize>, // index of the armed window (= armed operation) that appended it
    pub seg: u32,
    pub off: u64,
    pub plen: u64,
    pub rid: u64,
    pub payload: Option<Vec<u8>>, // filled in when the window closes (all of its bytes were written by then)
}

/// cut the payloads of the records appended so far out of the reconstructed files
fn resolve_payloads(records: &mut [RecInfo], files: &BTreeMap<u32, Vec<u8>>) {
    for r in records.iter_mut().filter(|r| r.payload.is_none()) {
        let (a, b) = ((r.off + 12) as usize, (r.off + 12 + r.plen) as usize);
        if let Some(f) = files.get(&r.seg) {
            if f.len() >= b {
                r.payload = Some(f[a..b].to_vec());
            }
        }
    }
}

struct Window {
    op: String,
    snap: BTreeMap<u32, Vec<u8>>,
    old_meta: (u64, u64),
    evs: Vec<(String, bool)>, // (event tokens, is a shrinking truncation)
}

fn materialise(dir: &Path, snap: &BTreeMap<u32, Vec<u8>>) {
    std::fs::create_dir_all(dir).unwrap();
    for (seg, bytes) in snap {
        std::fs::write(dir.join(format!("rollback.{:010}.log", seg)), bytes).unwrap();
    }
}

fn translate(parsed: &Parsed, spool: &Path, armed_ops: &[String], work: &Path, max_len: u32, sabotage: Option<&str>) -> Translation {
    let mut files: BTreeMap<u32, Vec<u8>> = BTreeMap::new();
    let mut meta: (u64, u64) = (0, 0);
    let mut last_append: HashMap<u32, (u64, u64)> = HashMap::new(); // seg -> (offset, length) of the record being written
    let mut text = String::new();
    text.push_str("# translated I/O trace of the rollback log (format: ocaml/rb_cmds.ml); starting disk: no segment file\n");
    let mut tr = Translation { text: String::new(), syncs: vec![], empty_windows: 0, empty_ops: vec![], events_tracked: 0, events_dropped: 0, foreign_writes: 0, payload_bytes: vec![], records: vec![], max_segments: 0, files: BTreeMap::new(), unsupported: vec![], book_obs: vec![] };
    let mut win: Option<Window> = None;
    let mut n_windows = 0usize;
    for it in &parsed.items {
        match it {
            Item::Arm => {
                let op = armed_ops.get(n_windows).cloned().unwrap_or_default();
                n_windows += 1;
                tr.book_obs.push(BookObs { pre_meta: meta, pre_present: present_records(&files), post_meta: meta, post_present: Err("window not closed".into()) });
                win = Some(Window { op, snap: files.clone(), old_meta: meta, evs: vec![] });
            }
            Item::Disarm => {
                resolve_payloads(&mut tr.records, &files);
                if let Some(o) = tr.book_obs.last_mut() {
                    o.post_meta = meta;
                    o.post_present = present_records(&files);
                }
                let Some(w) = win.take() else { continue };
                if w.evs.is_empty() {
                    tr.empty_windows += 1;
                    tr.empty_ops.push(w.op.clone());
                    continue;
                }
                let id = tr.syncs.len();
                let mut si = SyncInfo { id, op: w.op.clone(), ..Default::default() };
                let mut ls: Vec<String> = Vec::new();
                ls.push(format!("rbsync {} {}", id, w.op.split(' ').take(2).collect::<Vec<_>>().join("_")));
                ls.push(format!("maxlen {}", max_len));
                ls.push(format!("old {} {}", w.old_meta.0, w.old_meta.1));
                let new_meta = w.evs.iter().rev().find(|e| e.0.starts_with("MW ")).map(|e| {
                    let t: Vec<&str> = e.0.split(' ').collect();
                    (t[1].parse::<u64>().unwrap(), t[2].parse::<u64>().unwrap())
                });
                si.has_manifest_write = new_meta.is_some();
                let nm = new_meta.unwrap_or(w.old_meta);
                ls.push(format!("new {} {}", nm.0, nm.1));
                let pre_dir = work.join(format!("pre{}", id));
                materialise(&pre_dir, &w.snap);
                ls.push(format!("decode {}", pre_dir.display()));
                for (e, shrink) in &w.evs {
                    if *shrink {
                        si.shrink_lines.push(ls.len());
                        si.shrinks += 1;
                    }
                    match e.as_bytes()[0] {
                        b'C' => si.creates += 1,
                        b'U' => si.unlinks += 1,
                        b'A' => si.appends += 1,
                        _ => {}
                    }
                    ls.push(format!("ev {}", e));
                }
                ls.push("endsync".into());
                for l in &ls {
                    text.push_str(l);
                    text.push('\n');
                }
                si.lines = ls;
                tr.syncs.push(si);
            }
            Item::Ev { seq, kind, path, off, len, ret } => {
                if !tracked(path) {
                    if ["W", "UW", "UC", "T", "S", "D", "C", "U"].contains(&kind.as_str()) {
                        tr.events_dropped += 1;
                    }
                    continue;
                }
                let mut evs: Vec<(String, bool)> = Vec::new();
                let seg = seg_of(path);
                match (kind.as_str(), seg) {
                    ("C", Some(sg)) => {
                        if *ret < 0 {
                            continue;
                        }
                        files.insert(sg, Vec::new());
                        last_append.remove(&sg);
                        evs.push((format!("C {}", sg), false));
                    }
                    ("U", Some(sg)) => {
                        if *ret != 0 {
                            continue;
                        }
                        files.remove(&sg);
                        last_append.remove(&sg);
                        evs.push((format!("U {}", sg), false));
                    }
                    ("W", Some(sg)) => {
                        if *ret <= 0 {
                            continue;
                        }
                        let mut data = std::fs::read(spool.join(format!("{}.bin", seq))).unwrap_or_default();
                        data.truncate(*ret as usize);
                        if data.len() != *ret as usize {
                            tr.unsupported.push(format!("payload of write #{} missing", seq));
                            continue;
                        }
                        let Some(f) = files.get_mut(&sg) else {
                            tr.unsupported.push(format!("write #{} to segment {} that does not exist in the reconstruction", seq, sg));
                            continue;
                        };
                        let end = *off as usize + data.len();
                        if f.len() < end {
                            f.resize(end, 0);
                        }
                        f[*off as usize..end].copy_from_slice(&data);
                        if data.len() == 12 && off % BLK == 0 {
                            let plen = u32::from_le_bytes(data[0..4].try_into().unwrap()) as u64;
                            let rid = u64::from_le_bytes(data[4..12].try_into().unwrap());
                            let blocks = (12 + plen + BLK - 1) / BLK;
                            last_append.insert(sg, (*off, blocks * BLK));
                            tr.payload_bytes.push(plen);
                            tr.records.push(RecInfo { window: if win.is_some() { Some(n_windows - 1) } else { None }, seg: sg, off: *off, plen, rid, payload: None });
                            evs.push((format!("A {} {} {} {}", sg, off / BLK, rid, blocks), false));
                        } else if last_append.get(&sg).map_or(false, |la| *off >= la.0 + 12 && end as u64 <= la.0 + la.1) {
                            // payload of the record whose header was just written
                        } else {
                            tr.foreign_writes += 1;
                            let b0 = off / BLK;
                            let b1 = (end as u64 + BLK - 1) / BLK;
                            evs.push((format!("A {} {} 0 {}", sg, b0, b1 - b0), false));
                        }
                    }
                    ("T", Some(sg)) => {
                        if *ret != 0 {
                            continue;
                        }
                        let Some(f) = files.get_mut(&sg) else {
                            tr.unsupported.push(format!("ftruncate #{} of segment {} that does not exist in the reconstruction", seq, sg));
                            continue;
                        };
                        let shrink = (*off as usize) < f.len();
                        f.resize(*off as usize, 0);
                        if off % BLK != 0 {
                            tr.unsupported.push(format!("ftruncate #{} of segment {} to {} bytes: not a multiple of the record alignment", seq, sg, off));
                        }
                        if shrink {
                            last_append.remove(&sg);
                        }
                        evs.push((format!("T {} {}", sg, (off + BLK - 1) / BLK), shrink));
                    }
                    ("S", Some(sg)) | ("D", Some(sg)) => {
                        if *ret != 0 {
                            continue;
                        }
                        if sabotage == Some("seg") && win.is_some() {
                            continue; // self-test: what the trace of a sync that forgets this fsync looks like
                        }
                        evs.push((format!("F {}", sg), false));
                    }
                    ("S", None) | ("D", None) => {
                        if *ret != 0 {
                            continue;
                        }
                        if path == "." {
                            if sabotage == Some("dir") && win.is_some() {
                                continue;
                            }
                            evs.push(("D".into(), false));
                        } else if win.is_some() {
                            evs.push(("MS".into(), false));
                        }
                    }
                    ("W", None) if path == "meta" => {
                        if *ret <= 0 {
                            continue;
                        }
                        let data = std::fs::read(spool.join(format!("{}.bin", seq))).unwrap_or_default();
                        if *off != 0 || data.len() < 64 {
                            tr.unsupported.push(format!("write #{} to meta: {} bytes at {}", seq, data.len(), off));
                            continue;
                        }
                        meta = (u64::from_le_bytes(data[48..56].try_into().unwrap()), u64::from_le_bytes(data[56..64].try_into().unwrap()));
                        if win.is_some() {
                            evs.push((format!("MW {} {}", meta.0, meta.1), false));
                        }
                    }
                    ("UW", _) | ("UC", _) | ("UE", _) | ("A", _) | ("N", _) => {
                        tr.unsupported.push(format!("operation {} #{} on {}", kind, seq, path));
                        continue;
                    }
                    _ => continue, // K L M, creation of meta / the directory: close, lock, mkdir
                }
                tr.max_segments = tr.max_segments.max(files.len());
                tr.events_tracked += evs.len();
                match win.as_mut() {
                    Some(w) => w.evs.extend(evs),
                    None => {
                        for (e, _) in evs {
                            text.push_str(&format!("ev {}\n", e));
                        }
                    }
                }
                let _ = len;
            }
        }
    }
    resolve_payloads(&mut tr.records, &files);
    tr.text = text;
    tr.files = files;
    tr
}

/// the reconstruction against the files the child left behind
fn compare_with_files(dir: &Path, files: &BTreeMap<u32, Vec<u8>>) -> Option<String> {
    let mut on_disk: BTreeMap<u32, Vec<u8>> = BTreeMap::new();
    for e in std::fs::read_dir(dir).ok()?.filter_map(|e| e.ok()) {
        if let Some(sg) = seg_of(&e.file_name().to_string_lossy()) {
            on_disk.insert(sg, std::fs::read(e.path()).unwrap_or_default());
        }
    }
    if on_disk.keys().collect::<Vec<_>>() != files.keys().collect::<Vec<_>>() {
        return Some(format!("segment files on disk {:?}, in the reconstruction {:?}", on_disk.keys().collect::<Vec<_>>(), files.keys().collect::<Vec<_>>()));
    }
    for (sg, bytes) in &on_disk {
        if bytes != &files[sg] {
            return Some(format!("segment {}: {} bytes on disk, {} in the reconstruction, or different contents", sg, bytes.len(), files[sg].len()));
        }
    }
    None
}

// ------------------------------------------------------------------------------------------
// one history
// ------------------------------------------------------------------------------------------

fn run_child_spool(dir: &Path, script: &Path, log: &Path, spool: &Path) -> (Option<i32>, String) {
    let _ = std::fs::remove_file(log);
    let exe = std::env::current_exe().unwrap();
    let out = std::process::Command::new("timeout")
        .arg("300")
        .arg(exe)
        .arg("iochild")
        .arg(dir)
        .arg(script)
        .env("LD_PRELOAD", "/verif/.cache/shim.so")
        .env("NOMT_VERIF_DIR", dir)
        .env("NOMT_VERIF_LOG", log)
        .env("NOMT_VERIF_SPOOL", spool)
        .env("NOMT_VERIF_MODE", "record")
        .env("RUST_BACKTRACE", "0")
        .stderr(std::process::Stdio::null())
        .output()
        .expect("child");
    (out.status.code(), String::from_utf8_lossy(&out.stdout).to_string())
}

#[derive(Default)]
pub struct HistOutcome {
    pub label: String,
    pub syncs: usize,
    pub nontrivial: usize,
    pub windows_without_io: usize,
    pub noio_notes: Vec<String>,
    pub events: usize,
    pub events_dropped: usize,
    pub foreign_writes: usize,
    pub creates: usize,
    pub unlinks: usize,
    pub shrinks: usize,
    pub appends: usize,
    pub prune_syncs: usize,
    pub rollover_syncs: usize,
    pub max_segments: usize,
    pub payload_min: u64,
    pub payload_max: u64,
    pub max_recs: usize,
    pub ops: BTreeMap<String, usize>,
    pub violations: Vec<(String, String, String)>, // sig, detail, replay
    pub sample: Vec<String>,
    pub verdicts: Vec<String>,
    pub mutants: usize,
    pub mutants_rejected: usize,
    pub mutant_clauses: BTreeMap<String, usize>,
    pub mutants_accepted: Vec<String>,
    pub model_s: f64,
    pub child_s: f64,
    // the delta codec on the real records (DeltaCodec.v)
    pub delta_records_decoded: usize,
    pub delta_entries_compared: usize,
    pub delta_empty_priors_seen: usize,
    pub delta_absent_priors_seen: usize,
    pub delta_payload_max: usize,
    pub delta_sample: Vec<String>,
    // the bookkeeping model (RbBook.v) against the real manifest / segment files / rollback outcomes
    pub book_histories: usize,
    pub book_syncs_compared: usize,
    pub book_reopens_compared: usize,
    pub book_rollbacks_compared: usize,
    pub book_refusals_agreed: usize,
    pub book_records_compared: usize,
    pub book_sample: Vec<String>,
}

fn kv_of(line: &str) -> HashMap<String, String> {
    line.split(' ').filter_map(|t| t.split_once('=')).map(|(k, v)| (k.to_string(), v.to_string())).collect()
}

pub struct RunOpts {
    pub index: usize,
    pub dump_dir: Option<String>,
    pub mutate: bool,
    pub sabotage: Option<String>,
    pub only_sync: Option<usize>, // replay: report this sync's verdict
}

pub fn run_history(h: &History, prefix: &str, tag: &str, opts: &RunOpts) -> HistOutcome {
    let mut out = HistOutcome { label: h.label.clone(), payload_min: u64::MAX, ..Default::default() };
    let work = fresh_dir(&format!("rbtrace-{}", tag));
    std::fs::create_dir_all(&work).unwrap();
    let res = std::panic::catch_unwind(std::panic::AssertUnwindSafe(|| run_history_in(h, prefix, &work, &mut out, opts)));
    let _ = std::fs::remove_dir_all(&work);
    if res.is_err() {
        out.violations.push((format!("{}-rb-harness", prefix), "harness panic while checking the history".into(), replay_text(h, None, "harness panic", "")));
    }
    out
}

/// indices of the rollbacks that ask for more deltas than the handle holds (they must fail, without I/O)
fn expected_failures(ops: &[Op]) -> std::collections::HashSet<usize> {
    let mut out = std::collections::HashSet::new();
    let (mut avail, mut ml) = (0usize, usize::MAX);
    for (i, o) in ops.iter().enumerate() {
        match o {
            Op::Open(c) => ml = c.max_len as usize,
            Op::Commit { .. } => avail = (avail + 1).min(ml),
            Op::Rollback(n) => {
                if *n <= avail {
                    avail -= n;
                } else {
                    out.insert(i);
                }
            }
            _ => {}
        }
    }
    out
}

/// the replay file: the script (its first line carries the cfg) + the sync index + the translated trace
fn replay_text(h: &History, sync: Option<usize>, note: &str, trace: &str) -> String {
    let cfg = h.ops.iter().find_map(|o| if let Op::Open(c) = o { Some(c.to_line()) } else { None }).unwrap_or_default();
    let mut t = String::new();
    t += &format!("# history: {}\n# {}\n", h.label, note.replace('\n', " "));
    t += &format!("# rbtrace-replay sync={}\n", sync.map(|s| s.to_string()).unwrap_or_else(|| "-".into()));
    t += &format!("# cfg: {}\n", cfg);
    t += "# --- history script (re-run: nv rbtrace --prop C17 --replay <this file>; every commit / rollback is an armed window)\n";
    t += &script_to_text(&h.ops);
    if !trace.is_empty() {
        t += "# --- translated trace up to the failing sync (strip the '#T ' prefixes and run: echo 'rbcheck <file>' | /verif/ocaml/model)\n";
        for l in trace.lines() {
            t += "#T ";
            t += l;
            t.push('\n');
        }
    }
    t
}

/// the history file with the decoder input (`decode`) replaced by the placements the decoder produced:
/// self-contained, can be fed to `rbcheck` anywhere; optionally cut after section `upto`
fn self_contained(text: &str, recs: &[Vec<String>], upto: Option<usize>) -> String {
    let mut t = String::new();
    let mut section = 0usize;
    for l in text.lines() {
        if l.starts_with("decode ") {
            for x in recs.get(section).map(|v| v.as_slice()).unwrap_or(&[]) {
                t.push_str(x);
                t.push('\n');
            }
            continue;
        }
        t.push_str(l);
        t.push('\n');
        if l == "endsync" {
            if Some(section) == upto {
                break;
            }
            section += 1;
        }
    }
    t
}

// ------------------------------------------------------------------------------------------
// the delta codec on the real records (properties C09 / C10; coq/theories/DeltaCodec.v)
// ------------------------------------------------------------------------------------------

/// What every commit of the history must have logged: armed window -> (operation, key -> prior) for
/// the keys the commit WROTE (Write / ReadWrite entries of its `Finish` batch; reads are not in the
/// delta), the prior taken from a plain map maintained while walking the script.  A stack of maps
/// makes `rollback n` restore the map of n commits ago (a rollback the handle has not enough deltas
/// for fails without changing anything, as in `expected_failures`).
fn expected_deltas(ops: &[Op]) -> BTreeMap<usize, (String, BTreeMap<Key, Option<ValDesc>>)> {
    let mut out = BTreeMap::new();
    let mut cur: BTreeMap<Key, ValDesc> = BTreeMap::new();
    let mut stack: Vec<BTreeMap<Key, ValDesc>> = Vec::new();
    let mut finished: HashMap<u32, Vec<(Key, Acc)>> = HashMap::new();
    let (mut avail, mut ml) = (0usize, usize::MAX);
    let mut windows = 0usize; // armed windows opened so far
    for o in ops {
        match o {
            Op::Open(c) => ml = c.max_len as usize,
            Op::Arm => windows += 1,
            Op::Finish { c, batch, .. } => {
                finished.insert(*c, batch.clone());
            }
            Op::Commit { c, .. } => {
                let Some(batch) = finished.remove(c) else { continue };
                let before = cur.clone();
                let mut exp: BTreeMap<Key, Option<ValDesc>> = BTreeMap::new();
                for (k, a) in &batch {
                    let (Acc::Write(nv) | Acc::ReadWrite(nv)) = a else { continue };
                    exp.insert(*k, before.get(k).copied());
                    match nv {
                        Some(d) => {
                            cur.insert(*k, *d);
                        }
                        None => {
                            cur.remove(k);
                        }
                    }
                }
                stack.push(before);
                avail = (avail + 1).min(ml);
                if windows > 0 {
                    out.insert(windows - 1, (o.to_line(), exp));
                }
            }
            Op::Rollback(n) => {
                if *n <= avail {
                    for _ in 0..*n {
                        if let Some(m) = stack.pop() {
                            cur = m;
                        }
                    }
                    avail -= n;
                }
            }
            _ => {}
        }
    }
    out
}

/// self-test of check (c), the seeded change C10-x3 applied to the BYTES of a record: every entry of the
/// reinstate group whose value is empty is filed under "erase" instead (None when the payload is not in
/// the documented layout)
fn refile_empty_values_as_erase(p: &[u8]) -> Option<Vec<u8>> {
    let u32_at = |i: usize| -> Option<usize> { Some(u32::from_le_bytes(p.get(i..i + 4)?.try_into().ok()?) as usize) };
    let n1 = u32_at(0)?;
    let mut erase: Vec<&[u8]> = (0..n1).map(|i| p.get(4 + 32 * i..36 + 32 * i)).collect::<Option<_>>()?;
    let mut at = 4 + 32 * n1;
    let n2 = u32_at(at)?;
    at += 4;
    let mut keep: Vec<(&[u8], &[u8])> = Vec::new();
    for _ in 0..n2 {
        let k = p.get(at..at + 32)?;
        let l = u32_at(at + 32)?;
        let v = p.get(at + 36..at + 36 + l)?;
        at += 36 + l;
        if l == 0 {
            erase.push(k);
        } else {
            keep.push((k, v));
        }
    }
    let mut o = (erase.len() as u32).to_le_bytes().to_vec();
    erase.iter().for_each(|k| o.extend_from_slice(k));
    o.extend_from_slice(&(keep.len() as u32).to_le_bytes());
    for (k, v) in keep {
        o.extend_from_slice(k);
        o.extend_from_slice(&(v.len() as u32).to_le_bytes());
        o.extend_from_slice(v);
    }
    Some(o)
}

/// Every record appended during the history goes through the extracted decoder (`deltadec`,
/// ocaml/delta_cmds.ml): (a) it decodes, (b) encoding the decoded groups again in the decoded order
/// gives the payload back, (c) the decoded map is the reverse delta of the commit that appended it.
fn check_deltas(h: &History, prefix: &str, work: &Path, tr: &Translation, model: &mut Model, out: &mut HistOutcome, sabotage: Option<&str>) {
    let expected = expected_deltas(&h.ops);
    let mut seen: HashMap<String, usize> = HashMap::new();
    let mut report = |out: &mut HistOutcome, kind: &str, d: String| {
        let c = seen.entry(kind.to_string()).or_default();
        *c += 1;
        if *c <= 3 {
            out.violations.push((format!("{}-rb-delta-{}", prefix, kind), d.clone(), replay_text(h, None, &d, "")));
        }
    };
    let short = |b: &[u8]| -> String { if b.len() <= 16 { hex(b) } else { format!("{}..({} bytes)", hex(&b[..16]), b.len()) } };
    let mut by_window: BTreeMap<usize, usize> = BTreeMap::new();
    for r in &tr.records {
        let ctx = format!("record {} (segment {}, offset {}, payload {} bytes)", r.rid, r.seg, r.off, r.plen);
        let Some((op, exp)) = r.window.and_then(|w| expected.get(&w)) else {
            report(out, "content", format!("{} was appended outside the commits of the history (armed window {:?})", ctx, r.window));
            continue;
        };
        *by_window.entry(r.window.unwrap()).or_default() += 1;
        let ctx = format!("{} appended by `{}` (armed window {})", ctx, op, r.window.unwrap());
        let Some(payload) = &r.payload else {
            report(out, "decode", format!("{}: the payload was not completely written when the operation returned", ctx));
            continue;
        };
        let payload: Vec<u8> = if sabotage == Some("delta") { refile_empty_values_as_erase(payload).unwrap_or_else(|| payload.clone()) } else { payload.clone() };
        let pfile = work.join("delta.bin");
        std::fs::write(&pfile, &payload).unwrap();
        let reply = model.ask_multi(&format!("deltadec {}", pfile.display()));
        let head = reply.first().cloned().unwrap_or_default();
        // (a) the record decodes
        if !head.starts_with("delta ok ") {
            report(out, "decode", format!("{}: the extracted decoder (DeltaCodec.decode_groups) answers `{}`; payload {}", ctx, head, short(&payload)));
            continue;
        }
        out.delta_records_decoded += 1;
        out.delta_payload_max = out.delta_payload_max.max(payload.len());
        // (b) encode_groups of the decoded groups, in the decoded order, is the payload
        let kv = kv_of(&head);
        if kv.get("reencode").map(|s| s.as_str()) != Some("ok") || kv.get("rest").map(|s| s.as_str()) != Some("0") {
            report(out, "reencode", format!("{}: encoding the decoded delta in the decoded order does not reproduce the payload: {}", ctx, head));
        }
        // (c) the decoded map against the history's map
        let mut dec: BTreeMap<Key, Option<Vec<u8>>> = BTreeMap::new();
        let mut malformed = false;
        for l in reply.iter().skip(1) {
            let t: Vec<&str> = l.split(' ').collect();
            let key = |s: &str| -> Option<Key> { unhex(s).try_into().ok() };
            let dup = match (t[0], t.len()) {
                ("e", 2) => key(t[1]).map(|k| dec.insert(k, None).is_some()),
                ("r", 4) => key(t[1]).map(|k| dec.insert(k, Some(unhex(t[3]))).is_some()),
                ("r", 3) if t[2] == "0" => key(t[1]).map(|k| dec.insert(k, Some(Vec::new())).is_some()), // the empty value (the line arrives trimmed)
                _ => None,
            };
            malformed |= dup != Some(false);
        }
        if malformed {
            report(out, "content", format!("{}: the decoder's answer is not a map of 32-byte keys: {:?}", ctx, reply.iter().take(3).collect::<Vec<_>>()));
            continue;
        }
        let show = |p: &Option<Vec<u8>>| match p {
            None => "None (the key did not exist)".to_string(),
            Some(v) => format!("Some({} bytes: {})", v.len(), short(v)),
        };
        let mut diffs: Vec<String> = Vec::new();
        for (k, want) in exp {
            let want: Option<Vec<u8>> = want.map(|d| value_bytes(d.0, d.1));
            out.delta_entries_compared += 1;
            match dec.get(k) {
                None => diffs.push(format!("key {} was written by the commit but is not in the delta", hex(k))),
                Some(got) => {
                    match got {
                        None => out.delta_absent_priors_seen += 1,
                        Some(v) if v.is_empty() => out.delta_empty_priors_seen += 1,
                        _ => {}
                    }
                    if *got != want {
                        diffs.push(format!("key {}: the record holds the prior {}, the key's value before the commit was {}", hex(k), show(got), show(&want)));
                    }
                }
            }
        }
        for k in dec.keys().filter(|k| !exp.contains_key(*k)) {
            diffs.push(format!("key {} is in the delta but was not written by the commit", hex(k)));
        }
        if !diffs.is_empty() {
            report(out, "content", format!("{}: the decoded delta is not the reverse delta of the commit ({} differences): {}", ctx, diffs.len(), diffs.iter().take(3).cloned().collect::<Vec<_>>().join("; ")));
        } else if out.delta_sample.is_empty() && dec.values().any(|v| v.is_none()) && dec.values().any(|v| v.as_ref().map_or(false, |v| v.is_empty())) {
            out.delta_sample = vec![ctx.clone(), head.clone()];
            out.delta_sample.extend(reply.iter().skip(1).map(|l| l.chars().take(120).collect::<String>()));
        }
    }
    // every commit logs exactly one record
    for (w, (op, _)) in &expected {
        let n = by_window.get(w).copied().unwrap_or(0);
        if n != 1 {
            report(out, "content", format!("`{}` (armed window {}) appended {} records to the rollback log, expected exactly one", op, w, n));
        }
    }
}

// ------------------------------------------------------------------------------------------
// the bookkeeping of the rollback log (properties C09 / C10; coq/theories/RbBook.v)
// ------------------------------------------------------------------------------------------

/// what the real run shows around one armed window
pub struct BookObs {
    pub pre_meta: (u64, u64),
    pub pre_present: Result<Vec<(u32, u64, u64)>, String>, // (segment, record id, blocks) in file order
    pub post_meta: (u64, u64),
    pub post_present: Result<Vec<(u32, u64, u64)>, String>,
}

/// the records in the reconstructed segment files: a walk over the 12-byte headers (payload length u32 LE,
/// record id u64 LE) at 4 KiB aligned offsets, segments in the order of their ids
fn present_records(files: &BTreeMap<u32, Vec<u8>>) -> Result<Vec<(u32, u64, u64)>, String> {
    let mut out = Vec::new();
    for (seg, f) in files {
        let mut off = 0usize;
        while off < f.len() {
            if off + 12 > f.len() {
                return Err(format!("segment {}: {} bytes, no room for a header at {}", seg, f.len(), off));
            }
            let plen = u32::from_le_bytes(f[off..off + 4].try_into().unwrap()) as u64;
            let rid = u64::from_le_bytes(f[off + 4..off + 12].try_into().unwrap());
            let blocks = (12 + plen + BLK - 1) / BLK;
            if off as u64 + blocks * BLK > f.len() as u64 {
                return Err(format!("segment {}: record {} at {} ({} blocks) exceeds the file ({} bytes)", seg, rid, off, blocks, f.len()));
            }
            out.push((*seg, rid, blocks));
            off += (blocks * BLK) as usize;
        }
    }
    Ok(out)
}

fn show_present(p: &Result<Vec<(u32, u64, u64)>, String>) -> String {
    match p {
        Err(e) => format!("undecodable ({})", e),
        Ok(v) if v.is_empty() => "-".into(),
        Ok(v) => v.iter().map(|(s, r, b)| format!("{}:{}:{}", s, r, b)).collect::<Vec<_>>().join(";"),
    }
}

/// Replay the history's operation list in the extracted model (driver command `rbbook`) and compare, around
/// every armed commit / rollback, the model's manifest range and physically present records with the real
/// ones, and the model's outcome with the real outcome.
fn check_book(h: &History, prefix: &str, work: &Path, tr: &Translation, stdout: &str, cfg: &Cfg, model: &mut Model, out: &mut HistOutcome, sabotage: Option<&str>) {
    // the real outcome of every operation of the script
    let mut real: HashMap<usize, String> = HashMap::new();
    for l in stdout.lines() {
        let t: Vec<&str> = l.splitn(3, ' ').collect();
        if t.len() == 3 && t[0] == "OP" {
            if let Ok(i) = t[1].parse::<usize>() {
                real.insert(i, t[2].to_string());
            }
        }
    }
    // the model's script
    let segsz = if cfg.segsz == 0 { 64 * 1024 * 1024 } else { cfg.segsz };
    let mut script = format!("# bookkeeping script of the history (format: ocaml/rbbook_cmds.ml)\ncfg {} {}\n", cfg.max_len, segsz);
    // per model operation: (line, armed window, index of the operation in the history)
    let mut mops: Vec<(String, Option<usize>, usize)> = Vec::new();
    let (mut windows, mut opened) = (0usize, false);
    for (i, o) in h.ops.iter().enumerate() {
        match o {
            Op::Open(_) => {
                if opened {
                    mops.push(("o".into(), None, i));
                }
                opened = true;
            }
            Op::Commit { .. } => {
                let w = windows;
                windows += 1;
                let recs: Vec<&RecInfo> = tr.records.iter().filter(|r| r.window == Some(w)).collect();
                if recs.len() != 1 {
                    return; // reported by check_deltas ("appended N records, expected exactly one")
                }
                mops.push((format!("c {}", (12 + recs[0].plen + BLK - 1) / BLK), Some(w), i));
            }
            Op::Rollback(n) => {
                let w = windows;
                windows += 1;
                mops.push((format!("r {}", n), Some(w), i));
            }
            _ => {}
        }
    }
    if windows != tr.book_obs.len() {
        let d = format!("{} armed operations in the script, {} armed windows in the observer's log", windows, tr.book_obs.len());
        out.violations.push((format!("{}-rb-harness-log", prefix), d.clone(), replay_text(h, None, &d, "")));
        return;
    }
    for (l, _, _) in &mops {
        script.push_str(l);
        script.push('\n');
    }
    let sfile = work.join("history.book");
    std::fs::write(&sfile, &script).unwrap();
    let variant = sabotage.and_then(|s| s.strip_prefix("book-")).map(|v| format!(" {}", v)).unwrap_or_default();
    let reply = model.ask_multi(&format!("rbbook {}{}", sfile.display(), variant));
    let lines: Vec<HashMap<String, String>> = reply.iter().filter(|l| l.starts_with("book ")).map(|l| kv_of(l)).collect();
    out.book_histories += 1;
    let mut reported = 0usize;
    let mut report = |out: &mut HistOutcome, d: String| {
        reported += 1;
        if reported <= 3 {
            let note = format!("{} | bookkeeping script: {}", d, script.lines().skip(1).collect::<Vec<_>>().join(" / "));
            out.violations.push((format!("{}-rb-book-model", prefix), d, replay_text(h, None, &note, "")));
        }
    };
    let g = |m: &HashMap<String, String>, k: &str| m.get(k).cloned().unwrap_or_default();
    let state_diff = |m: &HashMap<String, String>, meta: (u64, u64), present: &Result<Vec<(u32, u64, u64)>, String>| -> Option<String> {
        let (mman, mpres) = (g(m, "man"), g(m, "present"));
        let (rman, rpres) = (format!("{}-{}", meta.0, meta.1), show_present(present));
        if mman != rman || mpres != rpres {
            Some(format!("model: manifest range {} records in the segment files (segment:id:blocks) {}; real: manifest range {} records {}", mman, mpres, rman, rpres))
        } else {
            None
        }
    };
    for (k, (line, win, opi)) in mops.iter().enumerate() {
        let what = format!("operation {} of the history (`{}`; model operation {} `{}`)", opi, h.ops[*opi].to_line().chars().take(30).collect::<String>(), k, line);
        let Some(m) = lines.get(k) else {
            report(out, format!("the model stopped before {}: it failed at model operation {} with {}", what, lines.len().saturating_sub(1), lines.last().map(|m| g(m, "out")).unwrap_or_default()));
            break;
        };
        let Some(w) = win else { continue }; // a reopening: compared through the state before the next armed operation
        let obs = &tr.book_obs[*w];
        // the state before the operation (after the previous one, possibly a reopening)
        if k > 0 {
            if let Some(d) = state_diff(&lines[k - 1], obs.pre_meta, &obs.pre_present) {
                let prev = &mops[k - 1];
                report(out, format!("before {} - after model operation {} `{}`{} - the bookkeeping model and the real run differ: {}", what, k - 1, prev.0, if prev.1.is_none() { " (a reopening)" } else { "" }, d));
                break;
            }
            if mops[k - 1].1.is_none() {
                out.book_reopens_compared += 1;
            }
        }
        // the outcome
        let r = real.get(opi).cloned().unwrap_or_default();
        let rclass = if r.starts_with("ok") { "ok" } else if r.starts_with("err") && r.contains("not enough logged") { "refused" } else { "fail" };
        let mout = g(m, "out");
        let mclass = if mout.starts_with("fail") { "fail" } else { mout.as_str() };
        if rclass != mclass {
            report(out, format!("{}: the bookkeeping model says `{}`, the real operation returned `{}`", what, mout, r.chars().take(200).collect::<String>()));
            break;
        }
        // the state after the operation
        if let Some(d) = state_diff(m, obs.post_meta, &obs.post_present) {
            report(out, format!("after {} the bookkeeping model and the real run differ: {}", what, d));
            break;
        }
        out.book_records_compared += obs.post_present.as_ref().map(|v| v.len()).unwrap_or(0);
        if line.starts_with("r ") {
            out.book_rollbacks_compared += 1;
            if mclass == "refused" {
                out.book_refusals_agreed += 1;
            }
        }
        if mclass == "ok" {
            out.book_syncs_compared += 1;
        }
        if out.book_sample.len() < 6 && (line.starts_with("r ") || k > 0 && mops[k - 1].1.is_none()) {
            out.book_sample.push(format!("{} -> model & real: out={} manifest={} present={} (model live range {} mem {})", line, mout, g(m, "man"), g(m, "present"), g(m, "live"), g(m, "mem")));
        }
    }
}


fn run_history_in(h: &History, prefix: &str, work: &Path, out: &mut HistOutcome, opts: &RunOpts) {
    let db = work.join("db");
    let spool = work.join("spool");
    std::fs::create_dir_all(&db).unwrap();
    std::fs::create_dir_all(&spool).unwrap();
    let script = work.join("history.script");
    let script_text = script_to_text(&h.ops);
    std::fs::write(&script, &script_text).unwrap();
    let log = work.join("events.log");
    let cfg = h.ops.iter().find_map(|o| if let Op::Open(c) = o { Some(c.clone()) } else { None }).unwrap_or_default();
    let t0 = std::time::Instant::now();
    let (code, stdout) = run_child_spool(&db, &script, &log, &spool);
    out.child_s = t0.elapsed().as_secs_f64();
    if code != Some(0) || !stdout.contains("DONE") {
        let d = format!("the recorded run failed: exit {:?} {}", code, stdout.lines().rev().take(3).collect::<Vec<_>>().join(" | "));
        out.violations.push((format!("{}-rb-record-run", prefix), d.clone(), replay_text(h, None, &d, "")));
        return;
    }
    // every commit and every rollback the handle has enough deltas for must succeed in a fault-free run
    let expected = expected_failures(&h.ops);
    for l in stdout.lines() {
        let t: Vec<&str> = l.splitn(3, ' ').collect();
        if t.len() < 3 || t[0] != "OP" {
            continue;
        }
        let Ok(i) = t[1].parse::<usize>() else { continue };
        if !matches!(h.ops.get(i), Some(Op::Commit { .. }) | Some(Op::Rollback(_))) || t[2].starts_with("ok") {
            continue;
        }
        if expected.contains(&i) && t[2].starts_with("err") && t[2].contains("poisoned=0") {
            continue;
        }
        let d = format!("operation {} of the history ({}) failed in a fault-free run: {}", i, h.ops[i].to_line().chars().take(40).collect::<String>(), t[2].chars().take(300).collect::<String>());
        out.violations.push((format!("{}-rb-op-failed", prefix), d.clone(), replay_text(h, None, &d, "")));
        return;
    }
    let armed_ops: Vec<String> = h.ops.iter().filter(|o| matches!(o, Op::Commit { .. } | Op::Rollback(_))).map(|o| o.to_line()).collect();
    let parsed = parse_log_ordered(&log);
    let tr = translate(&parsed, &spool, &armed_ops, work, cfg.max_len, opts.sabotage.as_deref());
    out.windows_without_io = tr.empty_windows;
    for op in tr.empty_ops.iter() {
        if out.noio_notes.len() < 4 {
            let line = stdout.lines().find(|l| l.contains(" err") || l.contains("deferred") || l.contains("panic")).unwrap_or("");
            out.noio_notes.push(format!("{}: {} [{}]", h.label.chars().take(40).collect::<String>(), op.chars().take(30).collect::<String>(), line.chars().take(100).collect::<String>()));
        }
    }
    out.events = tr.events_tracked;
    out.events_dropped = tr.events_dropped;
    out.foreign_writes = tr.foreign_writes;
    out.max_segments = tr.max_segments;
    for p in &tr.payload_bytes {
        out.payload_min = out.payload_min.min(*p);
        out.payload_max = out.payload_max.max(*p);
    }
    if parsed.fsync_overlaps > 0 {
        let d = format!("{} operations took effect on a segment file / the directory while an fsync of it was running: the translated trace (fsync placed where it returned) would not be faithful", parsed.fsync_overlaps);
        out.violations.push((format!("{}-rb-harness-translation-assumption", prefix), d.clone(), replay_text(h, None, &d, "")));
        return;
    }
    if parsed.unreturned > 0 {
        let d = format!("{} synchronous operations on the tracked files have no result line in the log", parsed.unreturned);
        out.violations.push((format!("{}-rb-harness-log", prefix), d.clone(), replay_text(h, None, &d, "")));
    }
    for u in &tr.unsupported {
        let d = format!("event outside the translation: {}", u);
        out.violations.push((format!("{}-rb-harness-translation", prefix), d.clone(), replay_text(h, None, &d, "")));
    }
    if let Some(m) = compare_with_files(&db, &tr.files) {
        let d = format!("the segment files reconstructed from the trace differ from the files the run left behind: {}", m);
        out.violations.push((format!("{}-rb-harness-reconstruction", prefix), d.clone(), replay_text(h, None, &d, "")));
        return;
    }
    let hist = work.join("history.trace");
    std::fs::write(&hist, &tr.text).unwrap();
    let t1 = std::time::Instant::now();
    let mut model = Model::spawn();
    let reply = model.ask_multi(&format!("rbcheck {} dump", hist.display()));
    out.model_s = t1.elapsed().as_secs_f64();
    let mut recs: Vec<Vec<String>> = vec![vec![]];
    let mut verdicts: Vec<String> = Vec::new();
    for l in reply.iter() {
        if l.starts_with("rec ") {
            recs.last_mut().unwrap().push(l.clone());
        } else if l.starts_with("rbsync ") {
            verdicts.push(l.clone());
            recs.push(vec![]);
        }
    }
    if verdicts.len() != tr.syncs.len() {
        let d = format!("the driver answered {} verdicts for {} windows: {:?}", verdicts.len(), tr.syncs.len(), reply.iter().take(3).collect::<Vec<_>>());
        out.violations.push((format!("{}-rb-harness-driver", prefix), d.clone(), replay_text(h, None, &d, "")));
        return;
    }
    if let Some(d) = &opts.dump_dir {
        std::fs::create_dir_all(d).ok();
        std::fs::write(format!("{}/{}.script", d, opts.index), &script_text).ok();
        std::fs::write(format!("{}/{}.trace", d, opts.index), self_contained(&tr.text, &recs, None)).ok();
        std::fs::write(format!("{}/{}.verdicts", d, opts.index), verdicts.join("\n") + "\n").ok();
    }
    check_deltas(h, prefix, work, &tr, &mut model, out, opts.sabotage.as_deref());
    check_book(h, prefix, work, &tr, &stdout, &cfg, &mut model, out, opts.sabotage.as_deref());
    let mut failing: Vec<(usize, String, String)> = Vec::new();
    let mut targets: Vec<usize> = Vec::new();
    for (si, line) in tr.syncs.iter().zip(verdicts.iter()) {
        let kv = kv_of(line);
        let g = |k: &str| kv.get(k).cloned().unwrap_or_default();
        let n = |k: &str| kv.get(k).and_then(|v| v.parse::<usize>().ok()).unwrap_or(0);
        out.syncs += 1;
        *out.ops.entry(si.op.split(' ').next().unwrap_or("").to_string()).or_default() += 1;
        out.creates += si.creates;
        out.unlinks += si.unlinks;
        out.shrinks += si.shrinks;
        out.appends += si.appends;
        out.max_recs = out.max_recs.max(n("recs"));
        if si.creates > 0 {
            out.rollover_syncs += 1;
        }
        if si.unlinks > 0 {
            out.prune_syncs += 1;
        }
        if si.creates + si.unlinks + si.shrinks > 0 {
            out.nontrivial += 1;
            targets.push(si.id);
            if out.sample.is_empty() && si.creates > 0 && si.unlinks > 0 {
                out.sample = si.lines.clone();
                out.sample.push(format!("# verdict of the extracted monitor: {}", line));
            }
        } else if n("recs") > 0 && targets.len() < 2 {
            targets.push(si.id);
        }
        if out.verdicts.len() < 8 {
            out.verdicts.push(line.to_string());
        }
        if opts.only_sync == Some(si.id) {
            println!("sync {}: {}", si.id, line);
        }
        let ctx = format!("sync {} of the history ({}): {}", si.id, si.op.chars().take(60).collect::<String>(), line);
        if !si.has_manifest_write {
            failing.push((si.id, format!("{}-rb-discipline-no-manifest-write", prefix), format!("the armed operation performed I/O on the rollback log but never wrote the manifest; {}", ctx)));
        } else if g("discipline") != "ok" {
            failing.push((si.id, format!("{}-rb-discipline-{}", prefix, g("clause")), format!("the sync violates the rollback-log discipline: clause {} at position {} [{}]; {}", g("clause"), g("pos"), g("at"), ctx)));
        }
        if g("start") != "ok" {
            failing.push((si.id, format!("{}-rb-start-{}", prefix, g("start").trim_start_matches("FAIL:").split(',').next().unwrap_or("")), format!("the disk at the start of the sync does not hold the old live range as the theorem assumes: {}; {}", g("start"), ctx)));
        }
        if g("inst") != "ok" {
            failing.push((si.id, format!("{}-rb-inst-{}", prefix, g("inst").trim_start_matches("FAIL:").split(',').next().unwrap_or("")), format!("the instance is not as the theorem assumes (the pre-sync segment files do not hold the old live range in consecutive order, or the ranges are inconsistent): {}; {}", g("inst"), ctx)));
        }
        if !g("decode").starts_with("ok") {
            failing.push((si.id, format!("{}-rb-decode", prefix), format!("the pre-sync segment files cannot be decoded: {}; {}", g("decode"), ctx)));
        }
    }
    if !failing.is_empty() {
        let mut seen: HashMap<String, usize> = HashMap::new();
        for (id, sig, detail) in failing {
            let c = seen.entry(sig.clone()).or_default();
            *c += 1;
            if *c > 3 {
                continue;
            }
            let t = self_contained(&tr.text, &recs, Some(id));
            out.violations.push((sig, detail.clone(), replay_text(h, Some(id), &detail, &t)));
        }
        return;
    }
    // self-check: the same recorded syncs with one protocol step removed / displaced must be rejected
    if opts.mutate {
        for target in targets.iter().take(6) {
            let base: Vec<String> = self_contained(&tr.text, &recs, Some(*target)).lines().map(|l| l.to_string()).collect();
            let si = &tr.syncs[*target];
            let rg = |k: &str| -> (u64, u64) {
                kv_of(&verdicts[*target]).get(k).and_then(|v| v.split_once('-').map(|(a, b)| (a.parse().unwrap_or(0), b.parse().unwrap_or(0)))).unwrap_or((0, 0))
            };
            for (name, lines) in mutants(&base, *target, si, rg("old"), rg("new")) {
                let mpath = work.join("mutant.trace");
                std::fs::write(&mpath, lines.join("\n") + "\n").unwrap();
                let r = model.ask_multi(&format!("rbcheck {}", mpath.display()));
                let v = r.iter().filter(|l| l.starts_with(&format!("rbsync {} ", target))).last().cloned().unwrap_or_default();
                let kv = kv_of(&v);
                out.mutants += 1;
                if kv.get("discipline").map(|d| d.starts_with("FAIL")).unwrap_or(false) {
                    out.mutants_rejected += 1;
                    *out.mutant_clauses.entry(format!("{} -> {}", name, kv.get("clause").cloned().unwrap_or_default())).or_default() += 1;
                } else if out.mutants_accepted.len() < 6 {
                    out.mutants_accepted.push(format!("{} / sync {} ({}): mutation '{}' accepted: {}", h.label.chars().take(30).collect::<String>(), target, si.op.chars().take(20).collect::<String>(), name, v.chars().take(160).collect::<String>()));
                } else {
                    out.mutants_accepted.push(String::new());
                }
            }
        }
    }
}

/// protocol mutations of section `target` of a self-contained history: each one removes or displaces one
/// step the atomicity argument depends on
fn mutants(base: &[String], target: usize, si: &SyncInfo, old: (u64, u64), new: (u64, u64)) -> Vec<(&'static str, Vec<String>)> {
    let mut out: Vec<(&'static str, Vec<String>)> = Vec::new();
    let Some(a) = base.iter().position(|l| l.starts_with(&format!("rbsync {} ", target))) else { return out };
    let Some(b) = base[a..].iter().position(|l| l == "endsync").map(|i| a + i) else { return out };
    let find = |from: usize, to: usize, pat: &str| -> Option<usize> { (from..to).find(|i| base[*i].starts_with(pat)) };
    let rfind = |from: usize, to: usize, pat: &str| -> Option<usize> { (from..to).rev().find(|i| base[*i].starts_with(pat)) };
    let Some(iw) = find(a, b, "ev MW ") else { return out };
    let Some(is_) = find(iw, b, "ev MS") else { return out };
    let without = |i: usize| -> Vec<String> { base.iter().enumerate().filter(|(j, _)| *j != i).map(|(_, l)| l.clone()).collect() };
    let moved = |from: std::ops::Range<usize>, to: usize| -> Vec<String> {
        let chunk: Vec<String> = base[from.clone()].to_vec();
        let mut v: Vec<String> = Vec::new();
        for (j, l) in base.iter().enumerate() {
            if j == to {
                v.extend(chunk.iter().cloned());
            }
            if !from.contains(&j) {
                v.push(l.clone());
            }
        }
        v
    };
    // the seeded change C17-u5: pruning before the manifest write
    if let Some(u) = find(is_, b, "ev U ") {
        out.push(("unlink moved before the manifest write", moved(u..u + 1, iw)));
        out.push(("unlink moved between the manifest write and its fsync", moved(u..u + 1, is_)));
    }
    // the self-contained text has `rec` lines where the history file has one `decode` line: shift
    let n_rec = (a..b).filter(|i| base[*i].starts_with("rec ")).count();
    for sl in &si.shrink_lines {
        let j = (a + sl + n_rec).wrapping_sub(1);
        if j > is_ && j < b && base[j].starts_with("ev T ") {
            out.push(("shrinking truncation moved before the manifest write", moved(j..j + 1, iw)));
            break;
        }
    }
    if let Some(ap) = find(a, iw, "ev A ") {
        let t: Vec<String> = base[ap].split(' ').map(|x| x.to_string()).collect();
        if let Some(f) = find(ap, iw, &format!("ev F {}", t[2])) {
            out.push(("segment fsync dropped", without(f)));
        }
        if find(a, ap, &format!("ev C {}", t[2])).is_some() {
            if let Some(d) = find(ap, iw, "ev D") {
                out.push(("directory fsync after the segment creation dropped", without(d)));
            }
        }
        out.push(("append dropped", without(ap)));
        // the record lands on the bytes of an old live record
        let in_range = |i: &usize, rg: (u64, u64)| -> bool {
            let id: u64 = base[*i].split(' ').nth(1).and_then(|x| x.parse().ok()).unwrap_or(0);
            base[*i].starts_with("rec ") && rg.0 != 0 && id >= rg.0 && id <= rg.1
        };
        if let Some(r) = (a..b).rev().find(|i| in_range(i, old)) {
            let rt: Vec<&str> = base[r].split(' ').collect();
            let mut v = base.to_vec();
            v[ap] = format!("ev A {} {} {} {}", rt[2], rt[3], t[4], t[5]);
            out.push(("append onto the bytes of an old live record", v));
            let mut v = base.to_vec();
            let off: u64 = rt[3].parse().unwrap_or(0);
            v.insert(ap, format!("ev T {} {}", rt[2], off));
            out.push(("truncation into an old live record before the append", v));
        }
        // the record is written somewhere else than right behind its predecessor
        if find(a, ap, &format!("ev C {}", t[2])).is_none() {
            let mut v = base.to_vec();
            let off: u64 = t[3].parse().unwrap_or(0);
            v[ap] = format!("ev A {} {} {} {}", t[2], off + 3, t[4], t[5]);
            out.push(("append leaves a hole behind the previous record", v));
        }
        out.push(("manifest written and synced before the append", moved(iw..is_ + 1, a + (ap - a))));
    }
    // a segment that holds a record of the new range is unlinked / cut after the switch-over
    if let Some(r) = (a..b).find(|i| {
        let id: u64 = base[*i].split(' ').nth(1).and_then(|x| x.parse().ok()).unwrap_or(0);
        base[*i].starts_with("rec ") && new.0 != 0 && id >= new.0 && id <= new.1
    }) {
        let rt: Vec<&str> = base[r].split(' ').collect();
        let mut v = base.to_vec();
        v.insert(b, format!("ev U {}", rt[2]));
        out.push(("a segment holding a record of the new range unlinked after the switch-over", v));
        let mut v = base.to_vec();
        v.insert(b, format!("ev T {} {}", rt[2], rt[3]));
        out.push(("a record of the new range cut off after the switch-over", v));
    }
    let _ = rfind;
    out
}

// ------------------------------------------------------------------------------------------

fn cmd_replay(kv: &HashMap<String, String>, prefix: &str) -> i32 {
    let file = kv.get("replay").cloned().unwrap();
    let txt = std::fs::read_to_string(&file).expect("replay file");
    let sync: Option<usize> = txt.lines().find_map(|l| l.strip_prefix("# rbtrace-replay sync=")).and_then(|s| s.trim().parse().ok());
    let ops = script_from_text(&txt);
    let h = History { label: format!("replay:{}", file), ops };
    let o = run_history(&h, prefix, "replay", &RunOpts { index: 0, dump_dir: kv.get("dump").cloned(), mutate: false, sabotage: kv.get("sabotage").cloned(), only_sync: sync });
    println!("replayed {} syncs ({} non-trivial), {} violations", o.syncs, o.nontrivial, o.violations.len());
    for (sig, detail, _) in &o.violations {
        println!("violation {}: {}", sig, detail);
    }
    if o.violations.is_empty() { 0 } else { 1 }
}

pub fn cmd_rbtrace(kv: &HashMap<String, String>) -> i32 {
    let prop = kv.get("prop").cloned().unwrap_or_else(|| "C17".into());
    let prefix = prop.to_lowercase();
    if kv.contains_key("replay") {
        return cmd_replay(kv, &prefix);
    }
    let thorough = kv.get("tier").map(|t| t == "thorough").unwrap_or(false);
    let seed: u64 = kv.get("seed").and_then(|s| s.parse().ok()).unwrap_or(1);
    let n: usize = kv.get("n").and_then(|s| s.parse().ok()).unwrap_or(if thorough { 480 } else { 48 });
    let out_path = kv.get("out").cloned().expect("--out");
    let replay_dir = kv.get("replays").cloned().unwrap_or_else(|| format!("/verif/replays/{}", prop));
    let threads: usize = kv.get("threads").and_then(|s| s.parse().ok()).unwrap_or(12);
    // the replay directory is shared with the other engines of the property: only our own files go
    std::fs::create_dir_all(&replay_dir).ok();
    if let Ok(rd) = std::fs::read_dir(&replay_dir) {
        for e in rd.filter_map(|e| e.ok()) {
            if e.file_name().to_string_lossy().starts_with(&format!("{}-rbtrace-", prop)) {
                let _ = std::fs::remove_file(e.path());
            }
        }
    }
    let dump_dir = kv.get("dump").cloned();
    // self-test of the reporting path: drop the fsyncs of the segments ("seg") or of the directory ("dir")
    let sabotage = kv.get("sabotage").cloned();
    let n_mutated: usize = kv.get("mutants").and_then(|s| s.parse().ok()).unwrap_or(n);
    let t0 = std::time::Instant::now();
    let mut rng = Rng::new(seed ^ 0x7262_7472_6163_65);
    let hs: Vec<(usize, History)> = (0..n).map(|i| { let mut r = rng.fork(); (i, gen_history(&mut r, thorough, i)) }).collect();
    let queue = std::sync::Arc::new(std::sync::Mutex::new(hs));
    let results = std::sync::Arc::new(std::sync::Mutex::new(Vec::new()));
    let mut handles = Vec::new();
    for _ in 0..threads.min(n).max(1) {
        let (q, res, prefix, dump_dir, sabotage) = (queue.clone(), results.clone(), prefix.clone(), dump_dir.clone(), sabotage.clone());
        handles.push(std::thread::spawn(move || loop {
            let item = q.lock().unwrap().pop();
            let Some((i, h)) = item else { break };
            let o = run_history(&h, &prefix, &format!("{}", i), &RunOpts { index: i, dump_dir: dump_dir.clone(), mutate: i < n_mutated, sabotage: sabotage.clone(), only_sync: None });
            res.lock().unwrap().push((i, o));
        }));
    }
    for h in handles {
        h.join().unwrap();
    }
    let mut results = std::mem::take(&mut *results.lock().unwrap());
    results.sort_by_key(|r| r.0);
    let mut viol = Vec::new();
    let mut sigs: BTreeMap<String, usize> = BTreeMap::new();
    let (mut syncs, mut nontrivial, mut noio, mut events, mut dropped, mut foreign) = (0, 0, 0, 0, 0, 0);
    let (mut creates, mut unlinks, mut shrinks, mut appends, mut prune_syncs, mut rollover_syncs, mut max_segments, mut max_recs) = (0, 0, 0, 0, 0, 0, 0, 0);
    let (mut pmin, mut pmax) = (u64::MAX, 0u64);
    let (mut model_s, mut child_s) = (0.0, 0.0);
    let (mut mutants, mut mutants_rejected) = (0usize, 0usize);
    let (mut d_records, mut d_entries, mut d_empty, mut d_absent, mut d_pmax) = (0usize, 0usize, 0usize, 0usize, 0usize);
    let (mut b_hist, mut b_syncs, mut b_reopens, mut b_rollbacks, mut b_refusals, mut b_records) = (0usize, 0usize, 0usize, 0usize, 0usize, 0usize);
    let mut b_sample: Vec<J> = Vec::new();
    let mut d_sample: Vec<J> = Vec::new();
    let mut accepted: Vec<J> = Vec::new();
    let mut n_accepted = 0usize;
    let mut noio_notes: Vec<J> = Vec::new();
    let mut mutant_clauses: BTreeMap<String, usize> = BTreeMap::new();
    let mut ops: BTreeMap<String, usize> = BTreeMap::new();
    let mut labels: Vec<J> = Vec::new();
    let mut samples: Vec<J> = Vec::new();
    for (i, o) in results {
        syncs += o.syncs;
        nontrivial += o.nontrivial;
        noio += o.windows_without_io;
        for x in &o.noio_notes {
            if noio_notes.len() < 8 {
                noio_notes.push(J::s(x.clone()));
            }
        }
        events += o.events;
        dropped += o.events_dropped;
        foreign += o.foreign_writes;
        creates += o.creates;
        unlinks += o.unlinks;
        shrinks += o.shrinks;
        appends += o.appends;
        prune_syncs += o.prune_syncs;
        rollover_syncs += o.rollover_syncs;
        max_segments = max_segments.max(o.max_segments);
        max_recs = max_recs.max(o.max_recs);
        pmin = pmin.min(o.payload_min);
        pmax = pmax.max(o.payload_max);
        model_s += o.model_s;
        child_s += o.child_s;
        for (k, v) in &o.ops {
            *ops.entry(k.clone()).or_default() += v;
        }
        mutants += o.mutants;
        mutants_rejected += o.mutants_rejected;
        d_records += o.delta_records_decoded;
        d_entries += o.delta_entries_compared;
        d_empty += o.delta_empty_priors_seen;
        d_absent += o.delta_absent_priors_seen;
        d_pmax = d_pmax.max(o.delta_payload_max);
        b_hist += o.book_histories;
        b_syncs += o.book_syncs_compared;
        b_reopens += o.book_reopens_compared;
        b_rollbacks += o.book_rollbacks_compared;
        b_refusals += o.book_refusals_agreed;
        b_records += o.book_records_compared;
        if b_sample.is_empty() && !o.book_sample.is_empty() {
            b_sample = o.book_sample.iter().map(|s| J::s(s.clone())).collect();
        }
        if d_sample.is_empty() && !o.delta_sample.is_empty() {
            d_sample = o.delta_sample.iter().map(|s| J::s(s.clone())).collect();
        }
        for (k, v) in &o.mutant_clauses {
            *mutant_clauses.entry(k.clone()).or_default() += v;
        }
        for a in &o.mutants_accepted {
            n_accepted += 1;
            if !a.is_empty() && accepted.len() < 12 {
                accepted.push(J::s(a.clone()));
            }
        }
        if labels.len() < 64 {
            labels.push(J::s(format!("{} ({} syncs)", o.label, o.syncs)));
        }
        if samples.is_empty() && !o.sample.is_empty() {
            samples.push(J::obj(vec![
                ("history", J::s(o.label.clone())),
                ("translated_sync", J::Arr(o.sample.iter().map(|s| J::s(s.clone())).collect())),
                ("first_verdicts_of_the_history", J::Arr(o.verdicts.iter().map(|s| J::s(s.clone())).collect())),
            ]));
        }
        for (vi, (sig, detail, replay)) in o.violations.into_iter().enumerate() {
            let c = sigs.entry(sig.clone()).or_default();
            *c += 1;
            if *c > 12 {
                continue;
            }
            let path = format!("{}/{}-rbtrace-seed{}-{}-{}.txt", replay_dir, prop, seed, i, vi);
            std::fs::write(&path, format!("# property {} sig {}\n# {}\n{}", prop, sig, detail.replace('\n', " "), replay)).unwrap();
            viol.push(J::obj(vec![("replay", J::s(path)), ("sig", J::s(sig.clone())), ("kind", J::s(sig)), ("detail", J::s(detail))]));
        }
    }
    let j = J::obj(vec![
        ("engine", J::s("rbtrace")),
        ("property", J::s(prop)),
        ("evaluations", J::Int(syncs as i64)),
        ("distinct_nontrivial", J::Int(nontrivial as i64)),
        ("rule", J::s("one evaluation = one sync (armed commit or rollback of a generated history with rollback enabled and tiny rollback segments, run by the real implementation under the I/O observer) whose recorded events on the rollback segment files, the directory and the manifest, translated into the alphabet of RbProto.v, are judged by the extracted Coq code: rb_explain (= rb_discipline, rb_explain_ok), start_checks, inst_checks, against the instance decoded by RbProto.rb_scan from the reconstruction of the pre-sync segment files, on the disk obtained by replaying all earlier events through dstep; manifest ranges are mapped through RbProto.guaranteed max_rollback_log_len; non-trivial = the sync created, unlinked or shortened a segment file; distinct by construction (distinct windows of distinct histories)")),
        ("histories", J::Int(n as i64)),
        ("history_labels", J::Arr(labels)),
        ("stats", J::obj(vec![
            ("syncs_checked", J::Int(syncs as i64)),
            ("armed_operations", J::Obj(ops.into_iter().map(|(k, v)| (k, J::Int(v as i64))).collect())),
            ("armed_windows_without_rollback_log_io", J::Int(noio as i64)),
            ("armed_windows_without_rollback_log_io_first_cases", J::Arr(noio_notes)),
            ("translated_events", J::Int(events as i64)),
            ("dropped_events_on_other_files", J::Int(dropped as i64)),
            ("writes_not_in_record_format", J::Int(foreign as i64)),
            ("records_appended_in_windows", J::Int(appends as i64)),
            ("record_payload_bytes_min", J::Int(if pmin == u64::MAX { 0 } else { pmin as i64 })),
            ("record_payload_bytes_max", J::Int(pmax as i64)),
            ("segments_created_in_windows", J::Int(creates as i64)),
            ("segments_unlinked_in_windows", J::Int(unlinks as i64)),
            ("shrinking_truncations_in_windows", J::Int(shrinks as i64)),
            ("syncs_with_roll_over", J::Int(rollover_syncs as i64)),
            ("syncs_with_pruning", J::Int(prune_syncs as i64)),
            ("max_segment_files_alive", J::Int(max_segments as i64)),
            ("max_old_live_records", J::Int(max_recs as i64)),
            ("mutants", J::Int(mutants as i64)),
            ("mutants_rejected", J::Int(mutants_rejected as i64)),
            ("mutants_rejected_by_clause", J::Obj(mutant_clauses.iter().map(|(k, v)| (k.clone(), J::Int(*v as i64))).collect())),
            ("harness_self_check_failures_mutants_accepted", J::Int(n_accepted as i64)),
            ("harness_self_check_failures_first_cases", J::Arr(accepted)),
            ("delta_records_decoded", J::Int(d_records as i64)),
            ("delta_entries_compared", J::Int(d_entries as i64)),
            ("delta_empty_priors_seen", J::Int(d_empty as i64)),
            ("delta_absent_priors_seen", J::Int(d_absent as i64)),
            ("delta_payload_bytes_max", J::Int(d_pmax as i64)),
            ("delta_rule", J::s("every record appended to the rollback log during a history: the payload (cut out of the segment files reconstructed from the observed writes) is decoded by the extracted DeltaCodec.decode_groups; it must decode, DeltaCodec.reencodes (encode_groups of the decoded groups in the decoded order = the payload) must hold with nothing left in the cursor, and the decoded map must be the reverse delta of the commit that appended it: its keys = the keys the commit wrote, each prior = the key's value before the commit in the map the harness maintains along the script (stack of maps for rollbacks); every commit appends exactly one record")),
            ("delta_sample_record", J::Arr(d_sample)),
            ("book_histories", J::Int(b_hist as i64)),
            ("book_syncs_compared", J::Int(b_syncs as i64)),
            ("book_reopens_compared", J::Int(b_reopens as i64)),
            ("book_rollbacks_compared", J::Int(b_rollbacks as i64)),
            ("book_refused_rollbacks_agreed", J::Int(b_refusals as i64)),
            ("book_present_records_compared", J::Int(b_records as i64)),
            ("book_rule", J::s("every history is replayed in the extracted bookkeeping model of the rollback log (RbBook.b_step, theorems C09_rbbook_*): its operation list (commits with the size in 4 KiB blocks of the record the real commit appended, rollbacks with their n, reopenings; max_rollback_log_len and the segment size from the cfg) goes to the driver command `rbbook`; for every armed commit / rollback the model's manifest range is compared with the rollback_start_live / rollback_end_live of the REAL manifest after the operation, the model's physically present records (segment id, record id, blocks) with the records in the segment files reconstructed from the observed writes (and equal to the files left on disk), and the model's outcome (ok / refused) with the real one; the state BEFORE each armed operation is compared too, which covers what a reopening did to the files; sig <prop>-rb-book-model on any difference")),
            ("book_sample", J::Arr(b_sample)),
            ("child_seconds_total", J::Num(child_s)),
            ("model_seconds_total", J::Num(model_s)),
        ])),
        ("violations_by_sig", J::Obj(sigs.iter().map(|(k, v)| (k.clone(), J::Int(*v as i64))).collect())),
        ("samples", J::Arr(samples)),
        ("violations", J::Arr(viol.clone())),
        ("wall_s", J::Num(t0.elapsed().as_secs_f64())),
    ]);
    std::fs::write(&out_path, j.to_string()).unwrap();
    if viol.is_empty() { 0 } else { 1 }
}

#[allow(dead_code)]
fn _unused(_: Cfg, _: Key) {}
