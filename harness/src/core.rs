//! E-core: function-level differential runs of nomt-core's pure functions against their Coq
//! mirrors (PathProof / VerifyUpdate / BuildTrie / MultiProof / MultiUpdate, extracted and reached
//! through ocaml/core_cmds.ml), plus the oracles of C02 C06 C07 C08 C18.
//!
//! Everything that crosses the pipe is text in the syntax documented in ocaml/core_cmds.ml.  The
//! unit of work (and of replay) is an `Item`: either one `Call` of a function under test (an
//! arbitrary, possibly malformed object) or one honest pipeline (C02 / C06 / C07) that is a
//! function of the key set and a few keys / ops only.  Both the Rust objects and the model
//! commands are derived from the same text, so a replay file is self-contained.

use crate::gen::KeyGen;
use crate::json::J;
use crate::model::{eval_table, parse_proof, MTerminal, Model};
use crate::util::{diverge_at, flip_bit, get_bit, hex, key_from_hex, set_bit, Key, Rng};
use bitvec::prelude::*;
use nomt_core::hasher::{Blake3Hasher, NodeHasher, ValueHasher};
use nomt_core::proof::{
    self, MultiPathProof, MultiProof, PathProof, PathProofTerminal, PathUpdate, VerifiedMultiProof,
};
use nomt_core::trie::{InternalData, LeafData, Node, TERMINATOR};
use nomt_core::trie_pos::TriePosition;
use std::collections::{BTreeMap, HashMap, HashSet};
use std::panic::{catch_unwind, AssertUnwindSafe};
use std::sync::{Arc, Mutex};

type H = Blake3Hasher;

/// depths / indices above this are not sent to the model (unary naturals): Rust only
const MODEL_NUM_CAP: usize = 100_000;

fn guarded<T>(f: impl FnOnce() -> T) -> Result<T, String> {
    catch_unwind(AssertUnwindSafe(f)).map_err(|e| {
        if let Some(s) = e.downcast_ref::<String>() {
            s.clone()
        } else if let Some(s) = e.downcast_ref::<&str>() {
            s.to_string()
        } else {
            "panic".to_string()
        }
    })
}

fn digest(b: &[u8]) -> [u8; 32] {
    <Blake3Hasher as ValueHasher>::hash_value(b)
}

/// value hash of value id `vid` (any fixed injective encoding would do)
pub fn vhash(vid: u32) -> [u8; 32] {
    let mut b = b"nv-core-value".to_vec();
    b.extend_from_slice(&vid.to_le_bytes());
    digest(&b)
}

/// opaque node number n labelled leaf (MSB set) or internal (MSB clear, not all-zero)
fn opaque(leaf: bool, n: u32) -> Node {
    let mut b = b"nv-core-opaque".to_vec();
    b.extend_from_slice(&n.to_le_bytes());
    let mut d = digest(&b);
    if leaf {
        d[0] |= 0x80;
    } else {
        d[0] &= 0x7f;
        d[31] |= 1;
    }
    d
}

// ------------------------------------------------------------------------------------------------
// pipe syntax: AST, printing, parsing

#[derive(Clone, Debug, PartialEq)]
pub enum NodeE {
    A(u32),
    B(u32),
    T,
    Op(bool, u32),
    Int(Box<NodeE>, Box<NodeE>),
    Leaf(Key, u32),
}

#[derive(Clone, Debug, PartialEq)]
pub struct KeyBits(pub Vec<bool>);

impl KeyBits {
    fn of_key(k: &Key) -> KeyBits {
        KeyBits((0..256).map(|i| get_bit(k, i)).collect())
    }
    fn prefix(k: &Key, n: usize) -> KeyBits {
        KeyBits((0..n.min(256)).map(|i| get_bit(k, i)).collect())
    }
    fn to_text(&self) -> String {
        bits_text(self.0.iter().copied(), self.0.len())
    }
    fn parse(s: &str) -> KeyBits {
        let (h, n) = match s.find('/') {
            Some(i) => (&s[..i], s[i + 1..].parse::<usize>().expect("bits")),
            None => (s, 4 * s.len()),
        };
        let mut bits = Vec::new();
        for c in h.chars() {
            let v = c.to_digit(16).expect("hex digit");
            for b in (0..4).rev() {
                bits.push((v >> b) & 1 == 1);
            }
        }
        bits.truncate(n);
        assert!(bits.len() == n, "key {:?} shorter than its bit count", s);
        KeyBits(bits)
    }
    fn bitvec(&self) -> BitVec<u8, Msb0> {
        self.0.iter().copied().collect()
    }
    /// first 256 bits as a key (zero padded)
    fn key(&self) -> Key {
        let mut k = [0u8; 32];
        for (i, b) in self.0.iter().take(256).enumerate() {
            set_bit(&mut k, i, *b);
        }
        k
    }
}

/// the model's string_of_key: nibbles, MSB first, zero padded, "/n" unless n = 256
fn bits_text(bits: impl Iterator<Item = bool>, n: usize) -> String {
    let v: Vec<bool> = bits.collect();
    let mut s = String::new();
    for i in 0..(n + 3) / 4 {
        let mut x = 0;
        for b in 0..4 {
            x = (x << 1) | (if 4 * i + b < n && v[4 * i + b] { 1 } else { 0 });
        }
        s.push(std::char::from_digit(x, 16).unwrap());
    }
    if n != 256 {
        s.push_str(&format!("/{}", n));
    }
    s
}

#[derive(Clone, Debug, PartialEq)]
pub enum TermE {
    Leaf(Key, u32),
    Term(KeyBits), // at most 256 bits
}

impl TermE {
    fn to_text(&self) -> String {
        match self {
            TermE::Leaf(k, v) => format!("L:{}:{}", hex(k), v),
            TermE::Term(p) => {
                let t = p.to_text();
                if t.contains('/') { format!("P:{}", t) } else { format!("P:{}/256", t) }
            }
        }
    }
    fn parse(s: &str) -> TermE {
        let t: Vec<&str> = s.split(':').collect();
        match t[0] {
            "L" => TermE::Leaf(key_from_hex(t[1]), t[2].parse().expect("vid")),
            "P" => TermE::Term(KeyBits::parse(t[1])),
            _ => panic!("terminal syntax {:?}", s),
        }
    }
    fn path(&self) -> KeyBits {
        match self {
            TermE::Leaf(k, _) => KeyBits::of_key(k),
            TermE::Term(p) => p.clone(),
        }
    }
    fn rust(&self) -> PathProofTerminal {
        match self {
            TermE::Leaf(k, v) => PathProofTerminal::Leaf(LeafData { key_path: *k, value_hash: vhash(*v) }),
            TermE::Term(p) => PathProofTerminal::Terminator(if p.0.is_empty() {
                TriePosition::new()
            } else {
                TriePosition::from_path_and_depth(p.key(), p.0.len() as u16)
            }),
        }
    }
}

impl NodeE {
    fn to_text(&self) -> String {
        match self {
            NodeE::A(i) => format!("#{}", i),
            NodeE::B(i) => format!("${}", i),
            NodeE::T => "T".into(),
            NodeE::Op(l, n) => format!("o{}{}", if *l { 'l' } else { 'i' }, n),
            NodeE::Int(a, b) => format!("N({},{})", a.to_text(), b.to_text()),
            NodeE::Leaf(k, v) => format!("F({},{})", hex(k), v),
        }
    }
    fn parse(s: &str) -> NodeE {
        let b = s.as_bytes();
        let mut pos = 0;
        let r = Self::parse_at(b, &mut pos);
        assert!(pos == b.len(), "node syntax {:?}", s);
        r
    }
    fn num(b: &[u8], pos: &mut usize) -> u32 {
        let st = *pos;
        while *pos < b.len() && b[*pos].is_ascii_digit() {
            *pos += 1;
        }
        std::str::from_utf8(&b[st..*pos]).unwrap().parse().expect("number")
    }
    fn parse_at(b: &[u8], pos: &mut usize) -> NodeE {
        let c = b[*pos];
        *pos += 1;
        match c {
            b'#' => NodeE::A(Self::num(b, pos)),
            b'$' => NodeE::B(Self::num(b, pos)),
            b'T' => NodeE::T,
            b'o' => {
                let l = b[*pos] == b'l';
                *pos += 1;
                NodeE::Op(l, Self::num(b, pos))
            }
            b'N' => {
                *pos += 1; // (
                let x = Self::parse_at(b, pos);
                *pos += 1; // ,
                let y = Self::parse_at(b, pos);
                *pos += 1; // )
                NodeE::Int(Box::new(x), Box::new(y))
            }
            b'F' => {
                *pos += 1;
                let st = *pos;
                while b[*pos] != b',' {
                    *pos += 1;
                }
                let k = key_from_hex(std::str::from_utf8(&b[st..*pos]).unwrap());
                *pos += 1;
                let v = Self::num(b, pos);
                *pos += 1;
                NodeE::Leaf(k, v)
            }
            _ => panic!("node syntax"),
        }
    }
}

pub type OpE = (Key, Option<u32>);

fn op_text(o: &OpE) -> String {
    match o.1 {
        Some(v) => format!("{}:w{}", hex(&o.0), v),
        None => format!("{}:d", hex(&o.0)),
    }
}
fn op_parse(s: &str) -> OpE {
    let (k, w) = s.split_once(':').expect("op");
    (key_from_hex(k), if w == "d" { None } else { Some(w[1..].parse().expect("vid")) })
}
fn ops_text(ops: &[OpE]) -> String {
    ops.iter().map(op_text).collect::<Vec<_>>().join(" ")
}

#[derive(Clone, Debug, PartialEq)]
pub struct PPE {
    pub term: TermE,
    pub sibs: Vec<NodeE>,
}

#[derive(Clone, Debug, PartialEq)]
pub enum Query {
    V(Key, u32),
    N(Key),
}

#[derive(Clone, Debug, PartialEq)]
pub enum MQuery {
    I(Key),
    V(Key, u32),
    N(Key),
    VI(Key, u32, usize),
    NI(Key, usize),
}

#[derive(Clone, Debug, PartialEq)]
pub enum Call {
    Pp { p: PPE, key: KeyBits, root: NodeE, queries: Vec<Query> },
    Vu { prev: NodeE, paths: Vec<(PPE, KeyBits, NodeE, Vec<OpE>)> },
    Bt { skip: usize, ops: Vec<(Key, u32)> },
    Fpp { proofs: Vec<PPE> },
    Multi { root: Option<NodeE>, paths: Vec<(TermE, usize)>, sibs: Vec<NodeE>, queries: Vec<MQuery>, updates: Vec<Vec<OpE>> },
}

fn nodes_text(v: &[NodeE]) -> String {
    v.iter().map(|n| n.to_text()).collect::<Vec<_>>().join(" ")
}

impl Call {
    pub fn to_line(&self) -> String {
        match self {
            Call::Pp { p, key, root, queries } => format!(
                "pp {} {} {} ; {} ; {}",
                p.term.to_text(),
                key.to_text(),
                root.to_text(),
                nodes_text(&p.sibs),
                queries
                    .iter()
                    .map(|q| match q {
                        Query::V(k, v) => format!("v:{}:{}", hex(k), v),
                        Query::N(k) => format!("n:{}", hex(k)),
                    })
                    .collect::<Vec<_>>()
                    .join(" ")
            ),
            Call::Vu { prev, paths } => {
                let mut s = format!("vu {}", prev.to_text());
                for (p, k, r, ops) in paths {
                    s += &format!(" ; {} {} {} , {} , {}", p.term.to_text(), k.to_text(), r.to_text(), nodes_text(&p.sibs), ops_text(ops));
                }
                s
            }
            Call::Bt { skip, ops } => format!(
                "bt {} {}",
                skip,
                ops.iter().map(|(k, v)| format!("{}:{}", hex(k), v)).collect::<Vec<_>>().join(" ")
            ),
            Call::Fpp { proofs } => {
                // the model command only needs sibling counts; the replay text keeps the siblings
                let mut s = "fpp".to_string();
                for (i, p) in proofs.iter().enumerate() {
                    s += &format!("{}{} , {}", if i == 0 { " " } else { " ; " }, p.term.to_text(), nodes_text(&p.sibs));
                }
                s
            }
            Call::Multi { root, paths, sibs, queries, updates } => {
                let mut s = format!(
                    "multi {} ; {} ; {} ; {}",
                    root.as_ref().map(|r| r.to_text()).unwrap_or_else(|| "self".into()),
                    paths.iter().map(|(t, d)| format!("{}@{}", t.to_text(), d)).collect::<Vec<_>>().join(" "),
                    nodes_text(sibs),
                    queries
                        .iter()
                        .map(|q| match q {
                            MQuery::I(k) => format!("i:{}", hex(k)),
                            MQuery::V(k, v) => format!("v:{}:{}", hex(k), v),
                            MQuery::N(k) => format!("n:{}", hex(k)),
                            MQuery::VI(k, v, i) => format!("vi:{}:{}:{}", hex(k), v, i),
                            MQuery::NI(k, i) => format!("ni:{}:{}", hex(k), i),
                        })
                        .collect::<Vec<_>>()
                        .join(" ")
                );
                for u in updates {
                    s += &format!(" ; {}", ops_text(u));
                }
                s
            }
        }
    }

    pub fn parse(line: &str) -> Call {
        let toks: Vec<&str> = line.split(' ').filter(|s| !s.is_empty()).collect();
        let split = |toks: &[&str], sep: &str| -> Vec<Vec<String>> {
            let mut out = vec![Vec::new()];
            for t in toks {
                if *t == sep {
                    out.push(Vec::new());
                } else {
                    out.last_mut().unwrap().push(t.to_string());
                }
            }
            out
        };
        match toks[0] {
            "pp" => {
                let s = split(&toks[1..], ";");
                Call::Pp {
                    p: PPE { term: TermE::parse(&s[0][0]), sibs: s[1].iter().map(|x| NodeE::parse(x)).collect() },
                    key: KeyBits::parse(&s[0][1]),
                    root: NodeE::parse(&s[0][2]),
                    queries: s[2]
                        .iter()
                        .map(|q| {
                            let t: Vec<&str> = q.split(':').collect();
                            match t[0] {
                                "v" => Query::V(key_from_hex(t[1]), t[2].parse().unwrap()),
                                _ => Query::N(key_from_hex(t[1])),
                            }
                        })
                        .collect(),
                }
            }
            "vu" => {
                let s = split(&toks[2..], ";");
                let mut paths = Vec::new();
                for g in s.iter().filter(|g| !g.is_empty()) {
                    let gs: Vec<&str> = g.iter().map(|x| x.as_str()).collect();
                    let p = split(&gs, ",");
                    paths.push((
                        PPE { term: TermE::parse(&p[0][0]), sibs: p[1].iter().map(|x| NodeE::parse(x)).collect() },
                        KeyBits::parse(&p[0][1]),
                        NodeE::parse(&p[0][2]),
                        p[2].iter().map(|x| op_parse(x)).collect(),
                    ));
                }
                Call::Vu { prev: NodeE::parse(toks[1]), paths }
            }
            "bt" => Call::Bt {
                skip: toks[1].parse().unwrap(),
                ops: toks[2..]
                    .iter()
                    .map(|e| {
                        let (k, v) = e.split_once(':').unwrap();
                        (key_from_hex(k), v.parse().unwrap())
                    })
                    .collect(),
            },
            "fpp" => {
                let s = split(&toks[1..], ";");
                let mut proofs = Vec::new();
                for g in s.iter().filter(|g| !g.is_empty()) {
                    let gs: Vec<&str> = g.iter().map(|x| x.as_str()).collect();
                    let p = split(&gs, ",");
                    proofs.push(PPE {
                        term: TermE::parse(&p[0][0]),
                        sibs: p.get(1).map(|v| v.iter().map(|x| NodeE::parse(x)).collect()).unwrap_or_default(),
                    });
                }
                Call::Fpp { proofs }
            }
            "multi" => {
                let s = split(&toks[1..], ";");
                Call::Multi {
                    root: if s[0][0] == "self" { None } else { Some(NodeE::parse(&s[0][0])) },
                    paths: s[1]
                        .iter()
                        .map(|x| {
                            let i = x.rfind('@').unwrap();
                            (TermE::parse(&x[..i]), x[i + 1..].parse().unwrap())
                        })
                        .collect(),
                    sibs: s[2].iter().map(|x| NodeE::parse(x)).collect(),
                    queries: s[3]
                        .iter()
                        .map(|q| {
                            let t: Vec<&str> = q.split(':').collect();
                            match t[0] {
                                "i" => MQuery::I(key_from_hex(t[1])),
                                "v" => MQuery::V(key_from_hex(t[1]), t[2].parse().unwrap()),
                                "n" => MQuery::N(key_from_hex(t[1])),
                                "vi" => MQuery::VI(key_from_hex(t[1]), t[2].parse().unwrap(), t[3].parse().unwrap()),
                                _ => MQuery::NI(key_from_hex(t[1]), t[2].parse().unwrap()),
                            }
                        })
                        .collect(),
                    updates: s[4..].iter().map(|u| u.iter().map(|x| op_parse(x)).collect()).collect(),
                }
            }
            _ => panic!("unknown call {:?}", toks[0]),
        }
    }

    fn fname(&self) -> &'static str {
        match self {
            Call::Pp { .. } => "pp",
            Call::Vu { .. } => "vu",
            Call::Bt { .. } => "bt",
            Call::Fpp { .. } => "fpp",
            Call::Multi { .. } => "multi",
        }
    }
}

/// the honest pipelines and single calls
#[derive(Clone, Debug)]
pub enum Item {
    Call(Call),
    /// honest multi-proof pipeline over the terminals of the lookup keys
    C07 { lookups: Vec<Key>, queries: Vec<(Key, u32)>, updates: Vec<Vec<OpE>> },
    /// per-path verify_update over the canonical grouping of a write set
    C06 { ops: Vec<OpE> },
    /// build_trie of a sorted set sharing a `skip`-bit prefix
    C02 { skip: usize, ops: Vec<(Key, u32)> },
}

fn keys_text(v: &[Key]) -> String {
    v.iter().map(|k| hex(k)).collect::<Vec<_>>().join(" ")
}

impl Item {
    pub fn to_line(&self) -> String {
        match self {
            Item::Call(c) => format!("call {}", c.to_line()),
            Item::C07 { lookups, queries, updates } => {
                let mut s = format!(
                    "c07 {} ; {}",
                    keys_text(lookups),
                    queries.iter().map(|(k, v)| format!("{}:{}", hex(k), v)).collect::<Vec<_>>().join(" ")
                );
                for u in updates {
                    s += &format!(" ; {}", ops_text(u));
                }
                s
            }
            Item::C06 { ops } => format!("c06 {}", ops_text(ops)),
            Item::C02 { skip, ops } => format!(
                "c02 {} {}",
                skip,
                ops.iter().map(|(k, v)| format!("{}:{}", hex(k), v)).collect::<Vec<_>>().join(" ")
            ),
        }
    }
    pub fn parse(line: &str) -> Item {
        let (head, rest) = line.split_once(' ').unwrap_or((line, ""));
        match head {
            "call" => Item::Call(Call::parse(rest)),
            "c07" => {
                let secs: Vec<Vec<&str>> = rest.split(';').map(|s| s.split(' ').filter(|x| !x.is_empty()).collect()).collect();
                Item::C07 {
                    lookups: secs[0].iter().map(|k| key_from_hex(k)).collect(),
                    queries: secs[1]
                        .iter()
                        .map(|e| {
                            let (k, v) = e.split_once(':').unwrap();
                            (key_from_hex(k), v.parse().unwrap())
                        })
                        .collect(),
                    updates: secs[2..].iter().map(|u| u.iter().map(|x| op_parse(x)).collect()).collect(),
                }
            }
            "c06" => Item::C06 { ops: rest.split(' ').filter(|x| !x.is_empty()).map(op_parse).collect() },
            "c02" => {
                let t: Vec<&str> = rest.split(' ').filter(|x| !x.is_empty()).collect();
                Item::C02 {
                    skip: t[0].parse().unwrap(),
                    ops: t[1..]
                        .iter()
                        .map(|e| {
                            let (k, v) = e.split_once(':').unwrap();
                            (key_from_hex(k), v.parse().unwrap())
                        })
                        .collect(),
                }
            }
            _ => panic!("unknown item {:?}", head),
        }
    }
}

// ------------------------------------------------------------------------------------------------
// per-thread context: the model, the two evaluated views

#[derive(Default, Clone)]
pub struct Counters(pub BTreeMap<String, u64>);
impl Counters {
    fn inc(&mut self, k: impl Into<String>) {
        *self.0.entry(k.into()).or_default() += 1;
    }
    fn add(&mut self, k: impl Into<String>, n: u64) {
        *self.0.entry(k.into()).or_default() += n;
    }
    fn merge(&mut self, o: &Counters) {
        for (k, v) in &o.0 {
            *self.0.entry(k.clone()).or_default() += v;
        }
    }
}

#[derive(Clone, Debug)]
pub struct Viol {
    pub sig: String,
    pub detail: String,
    pub replay: String, // body of the replay file
}

pub struct Ctx {
    model: Model,
    prop: String,
    tab: [HashMap<u32, Node>; 2],
    root_id: [u32; 2],
    kv: [BTreeMap<Key, u32>; 2],
    setkv: [String; 2],
    tabinfo: HashMap<u32, TabEntry>,
    pub stats: Counters,
    pub viol: Vec<Viol>,
    pub evals: u64,
    pub lines: Vec<(String, bool)>, // (item line, non-trivial)
    family: String,
}

type Fields = Vec<(String, String)>;

pub struct CallOut {
    rust: Fields,
    model: Option<Fields>,
}

fn field<'a>(f: &'a Fields, k: &str) -> Option<&'a str> {
    f.iter().find(|(a, _)| a == k).map(|(_, b)| b.as_str())
}

fn class_of(v: &str) -> &str {
    // "ok:..." -> ok ; "err:X" stays ; "pathfail:i:class" -> pathfail
    if v.starts_with("ok") {
        "ok"
    } else if v.starts_with("pathfail") {
        "pathfail"
    } else {
        v
    }
}

impl Ctx {
    pub fn new(prop: &str) -> Ctx {
        Ctx {
            model: Model::spawn(),
            prop: prop.to_string(),
            tab: [HashMap::new(), HashMap::new()],
            root_id: [0, 0],
            kv: [BTreeMap::new(), BTreeMap::new()],
            setkv: [String::new(), String::new()],
            tabinfo: HashMap::new(),
            stats: Counters::default(),
            viol: Vec::new(),
            evals: 0,
            lines: Vec::new(),
            family: String::new(),
        }
    }

    pub fn set_view(&mut self, slot: usize, kv: &BTreeMap<Key, u32>) {
        let line = format!("setkv {} {}", slot, kv.iter().map(|(k, v)| format!("{}:{}", hex(k), v)).collect::<Vec<_>>().join(" "));
        self.model.expect_ok(&line);
        let lines = self.model.ask_multi(if slot == 0 { "table" } else { "tableb" });
        let t = eval_table::<H>(&lines, &|vid| vhash(vid));
        if slot == 0 {
            self.tabinfo = parse_tab(&lines);
        }
        self.root_id[slot] = lines.last().and_then(|l| l.strip_prefix("root ")).map(|x| x.parse().unwrap()).unwrap_or(0);
        self.tab[slot] = t.nodes;
        self.kv[slot] = kv.clone();
        self.setkv[slot] = line;
    }

    fn root(&self, slot: usize) -> Node {
        self.tab[slot][&self.root_id[slot]]
    }

    fn node(&self, e: &NodeE) -> Node {
        match e {
            NodeE::A(i) => *self.tab[0].get(i).unwrap_or_else(|| panic!("no node #{}", i)),
            NodeE::B(i) => *self.tab[1].get(i).unwrap_or_else(|| panic!("no node ${}", i)),
            NodeE::T => TERMINATOR,
            NodeE::Op(l, n) => opaque(*l, *n),
            NodeE::Int(a, b) => H::hash_internal(&InternalData { left: self.node(a), right: self.node(b) }),
            NodeE::Leaf(k, v) => H::hash_leaf(&LeafData { key_path: *k, value_hash: vhash(*v) }),
        }
    }

    fn rpn(&self, s: &str) -> Node {
        let mut st: Vec<Node> = Vec::new();
        for t in s.split(' ').filter(|x| !x.is_empty()) {
            match t.as_bytes()[0] {
                b'T' => st.push(TERMINATOR),
                b'I' => {
                    let r = st.pop().expect("rpn");
                    let l = st.pop().expect("rpn");
                    st.push(H::hash_internal(&InternalData { left: l, right: r }));
                }
                b'L' => {
                    let p: Vec<&str> = t.split(':').collect();
                    st.push(H::hash_leaf(&LeafData { key_path: key_from_hex(p[1]), value_hash: vhash(p[2].parse().unwrap()) }));
                }
                b'O' => {
                    let leaf = t.as_bytes()[1] == b'l';
                    st.push(opaque(leaf, t[3..].parse().unwrap()));
                }
                _ => panic!("rpn token {:?}", t),
            }
        }
        assert!(st.len() == 1, "rpn {:?}", s);
        st[0]
    }

    /// "ok <rpn>" | "err:X" | "panic"  ->  "ok:<hex>" | ...
    fn node_result(&self, s: &str) -> String {
        let s = s.trim();
        if let Some(r) = s.strip_prefix("ok") {
            format!("ok:{}", hex(&self.rpn(r)))
        } else {
            s.to_string()
        }
    }

    fn honest_proof(&mut self, k: &Key) -> PPE {
        let r = self.model.ask(&format!("prove {}", hex(k)));
        let (t, ids) = parse_proof(&r);
        PPE {
            term: match t {
                MTerminal::Leaf(k2, v) => TermE::Leaf(k2, v),
                MTerminal::Term(d) => TermE::Term(KeyBits::prefix(k, d)),
            },
            sibs: ids.into_iter().map(NodeE::A).collect(),
        }
    }

    fn model_get(&mut self, k: &Key) -> Option<u32> {
        let r = self.model.ask(&format!("get {}", hex(k)));
        r.strip_prefix("some ").map(|v| v.parse().unwrap())
    }

    fn apply_root(&mut self, ops: &[OpE]) -> Node {
        let r = self.model.ask(&format!("applyroot {}", ops_text(ops)));
        self.rpn(r.strip_prefix("ok").expect("applyroot"))
    }

    // --------------------------------------------------------------------------------------------
    // running one call on both sides

    fn rust_pp(&self, p: &PPE) -> PathProof {
        PathProof { terminal: p.term.rust(), siblings: p.sibs.iter().map(|n| self.node(n)).collect() }
    }

    pub fn run_call(&mut self, c: &Call) -> CallOut {
        match c {
            Call::Pp { p, key, root, queries } => {
                let mut rf: Fields = Vec::new();
                let proof = self.rust_pp(p);
                let kb = key.bitvec();
                let rootb = self.node(root);
                let r = guarded(|| proof.verify::<H>(&kb, rootb));
                match r {
                    Err(_) => rf.push(("verify".into(), "panic".into())),
                    Ok(Err(e)) => rf.push(("verify".into(), format!("err:{:?}", e))),
                    Ok(Ok(v)) => {
                        rf.push(("verify".into(), format!("ok:{}", bits_text(v.path().iter().by_vals(), v.path().len()))));
                        for (i, q) in queries.iter().enumerate() {
                            let r = match q {
                                Query::V(k, x) => guarded(|| v.confirm_value(&LeafData { key_path: *k, value_hash: vhash(*x) })),
                                Query::N(k) => guarded(|| v.confirm_nonexistence(k)),
                            };
                            rf.push((format!("q{}", i), bool_class(r)));
                        }
                    }
                }
                let reply = self.model.ask(&c.to_line());
                let mut mf: Fields = Vec::new();
                let (cls, rest) = reply.split_once('|').expect("pp reply");
                mf.push(("verify".into(), cls.trim().to_string()));
                for (i, r) in rest.split(' ').filter(|x| !x.is_empty()).enumerate() {
                    mf.push((format!("q{}", i), r.to_string()));
                }
                CallOut { rust: rf, model: Some(mf) }
            }
            Call::Vu { prev, paths } => {
                let mut rf: Fields = Vec::new();
                let mut ups: Vec<PathUpdate> = Vec::new();
                let mut failed = None;
                for (i, (p, key, root, ops)) in paths.iter().enumerate() {
                    let proof = self.rust_pp(p);
                    let kb = key.bitvec();
                    let rootb = self.node(root);
                    match guarded(|| proof.verify::<H>(&kb, rootb)) {
                        Err(_) => {
                            failed = Some(format!("pathfail:{}:panic", i));
                            break;
                        }
                        Ok(Err(e)) => {
                            failed = Some(format!("pathfail:{}:err:{:?}", i, e));
                            break;
                        }
                        Ok(Ok(v)) => ups.push(PathUpdate { inner: v, ops: ops.iter().map(|(k, o)| (*k, o.map(vhash))).collect() }),
                    }
                }
                match failed {
                    Some(f) => rf.push(("result".into(), f)),
                    None => {
                        let prevb = self.node(prev);
                        let r = guarded(|| proof::verify_update::<H>(prevb, &ups));
                        rf.push((
                            "result".into(),
                            match r {
                                Err(_) => "panic".into(),
                                Ok(Err(e)) => format!("err:{:?}", e),
                                Ok(Ok(n)) => format!("ok:{}", hex(&n)),
                            },
                        ));
                    }
                }
                let reply = self.model.ask(&c.to_line());
                let mf = vec![("result".to_string(), self.node_result(&reply))];
                CallOut { rust: rf, model: Some(mf) }
            }
            Call::Bt { skip, ops } => {
                let r = guarded(|| nomt_core::update::build_trie::<H>(*skip, ops.iter().map(|(k, v)| (*k, vhash(*v))), |_| {}));
                let rf = vec![("result".to_string(), match r { Err(_) => "panic".into(), Ok(n) => format!("ok:{}", hex(&n)) })];
                let reply = self.model.ask(&c.to_line());
                let mf = vec![("result".to_string(), self.node_result(&reply))];
                CallOut { rust: rf, model: Some(mf) }
            }
            Call::Fpp { proofs } => {
                let rp: Vec<PathProof> = proofs.iter().map(|p| self.rust_pp(p)).collect();
                let flat: Vec<Node> = rp.iter().flat_map(|p| p.siblings.iter().copied()).collect();
                let r = guarded(|| MultiProof::from_path_proofs(rp.clone()));
                let mut rf: Fields = Vec::new();
                match r {
                    Err(_) => rf.push(("result".into(), "panic".into())),
                    Ok(m) => {
                        rf.push(("result".into(), "ok".into()));
                        rf.push((
                            "paths".into(),
                            m.paths
                                .iter()
                                .map(|p| {
                                    format!(
                                        "{}@{}",
                                        match &p.terminal {
                                            PathProofTerminal::Leaf(l) => format!("L:{}:{}", hex(&l.key_path), hex(&l.value_hash)),
                                            PathProofTerminal::Terminator(t) => format!("P:{}", bits_text(t.path().iter().by_vals(), t.path().len())),
                                        },
                                        p.depth
                                    )
                                })
                                .collect::<Vec<_>>()
                                .join(" "),
                        ));
                        rf.push(("sibs".into(), m.siblings.iter().map(|s| hex(s)).collect::<Vec<_>>().join(" ")));
                    }
                }
                let line = format!("fpp {}", proofs.iter().map(|p| format!("{} {}", p.term.to_text(), p.sibs.len())).collect::<Vec<_>>().join(" "));
                let reply = self.model.ask(&line);
                let mut mf: Fields = Vec::new();
                if let Some(rest) = reply.strip_prefix("ok") {
                    let (ps, ss) = rest.split_once(';').expect("fpp reply");
                    mf.push(("result".into(), "ok".into()));
                    mf.push((
                        "paths".into(),
                        ps.split(' ')
                            .filter(|x| !x.is_empty())
                            .map(|x| {
                                let i = x.rfind('@').unwrap();
                                let t = match TermE::parse(&x[..i]) {
                                    TermE::Leaf(k, v) => format!("L:{}:{}", hex(&k), hex(&vhash(v))),
                                    TermE::Term(p) => format!("P:{}", p.to_text()),
                                };
                                format!("{}@{}", t, &x[i + 1..])
                            })
                            .collect::<Vec<_>>()
                            .join(" "),
                    ));
                    mf.push((
                        "sibs".into(),
                        ss.split(' ').filter(|x| !x.is_empty()).map(|x| hex(&flat[x.parse::<usize>().unwrap()])).collect::<Vec<_>>().join(" "),
                    ));
                } else {
                    mf.push(("result".into(), reply.trim().to_string()));
                }
                CallOut { rust: rf, model: Some(mf) }
            }
            Call::Multi { root, paths, sibs, queries, updates } => {
                let too_big = paths.iter().any(|(_, d)| *d > MODEL_NUM_CAP)
                    || queries.iter().any(|q| matches!(q, MQuery::VI(_, _, i) | MQuery::NI(_, i) if *i > MODEL_NUM_CAP));
                // the model first: with "self" it tells the root to verify against
                let mut mf: Option<Fields> = None;
                let mut rootb = root.as_ref().map(|r| self.node(r)).unwrap_or(TERMINATOR);
                if !too_big {
                    let reply = self.model.ask(&c.to_line());
                    let secs: Vec<&str> = reply.split(" | ").collect();
                    let mut f: Fields = Vec::new();
                    let r0 = secs[0].trim();
                    if root.is_none() {
                        rootb = self.rpn(r0.strip_prefix("root").expect("multi reply"));
                    }
                    f.push(("verify".into(), secs[1].trim().to_string()));
                    let mut ui = 0;
                    for s in &secs[2..] {
                        let s = s.trim();
                        if let Some(x) = s.strip_prefix("inner") {
                            f.push(("inner".into(), x.trim().to_string()));
                        } else if let Some(x) = s.strip_prefix("bis") {
                            f.push(("bis".into(), x.trim().to_string()));
                        } else if let Some(x) = s.strip_prefix("q") {
                            for (i, r) in x.split(' ').filter(|y| !y.is_empty()).enumerate() {
                                f.push((format!("q{}", i), r.to_string()));
                            }
                        } else if let Some(x) = s.strip_prefix("u ") {
                            f.push((format!("u{}", ui), self.node_result(x)));
                            ui += 1;
                        }
                    }
                    mf = Some(f);
                }
                let mp = MultiProof {
                    paths: paths.iter().map(|(t, d)| MultiPathProof { terminal: t.rust(), depth: *d }).collect(),
                    siblings: sibs.iter().map(|n| self.node(n)).collect(),
                };
                let mut rf: Fields = Vec::new();
                match guarded(|| proof::verify_multi_proof::<H>(&mp, rootb)) {
                    Err(_) => rf.push(("verify".into(), "panic".into())),
                    Ok(Err(e)) => rf.push(("verify".into(), format!("err:{:?}", e))),
                    Ok(Ok(v)) => {
                        rf.push(("verify".into(), "ok".into()));
                        let (inner, bis) = debug_structure(&v);
                        rf.push(("inner".into(), inner));
                        rf.push(("bis".into(), bis));
                        for (i, q) in queries.iter().enumerate() {
                            let r = match q {
                                MQuery::I(k) => match guarded(|| v.find_index_for(k)) {
                                    Err(_) => "panic".to_string(),
                                    Ok(Err(_)) => "oos".to_string(),
                                    Ok(Ok(i)) => format!("ok:{}", i),
                                },
                                MQuery::V(k, x) => bool_class(guarded(|| v.confirm_value(&LeafData { key_path: *k, value_hash: vhash(*x) }))),
                                MQuery::N(k) => bool_class(guarded(|| v.confirm_nonexistence(k))),
                                MQuery::VI(k, x, i) => bool_class(guarded(|| v.confirm_value_with_index(&LeafData { key_path: *k, value_hash: vhash(*x) }, *i))),
                                MQuery::NI(k, i) => bool_class(guarded(|| v.confirm_nonexistence_with_index(k, *i))),
                            };
                            rf.push((format!("q{}", i), r));
                        }
                        for (i, u) in updates.iter().enumerate() {
                            let ops: Vec<(Key, Option<[u8; 32]>)> = u.iter().map(|(k, o)| (*k, o.map(vhash))).collect();
                            let r = guarded(|| proof::verify_multi_proof_update::<H>(&v, ops));
                            rf.push((
                                format!("u{}", i),
                                match r {
                                    Err(_) => "panic".into(),
                                    Ok(Err(e)) => format!("err:{:?}", e),
                                    Ok(Ok(n)) => format!("ok:{}", hex(&n)),
                                },
                            ));
                        }
                    }
                }
                CallOut { rust: rf, model: mf }
            }
        }
    }

    // --------------------------------------------------------------------------------------------
    // violations

    fn replay_body(&self, item_line: &str, extra: &str) -> String {
        let mut s = String::new();
        s += &format!("# family: {}\n", self.family);
        s += &format!("{}\n", self.setkv[0]);
        if !self.kv[1].is_empty() {
            s += &format!("{}\n", self.setkv[1]);
        }
        s += item_line;
        s.push('\n');
        s += extra;
        s
    }

    fn violate(&mut self, sig: &str, detail: String, item_line: &str, extra: &str) {
        let body = self.replay_body(item_line, extra);
        self.viol.push(Viol { sig: sig.to_string(), detail, replay: body });
    }

    fn pfx(&self) -> String {
        self.prop.to_lowercase()
    }

    /// run a call, record statistics, apply the generic oracles (model agreement; verifier panics
    /// for C18; false accepts against root(S) for C08 / C18)
    pub fn check_call(&mut self, c: &Call) -> CallOut {
        let out = self.run_call(c);
        let line = format!("call {}", c.to_line());
        let f = c.fname();
        let n_eval = out.rust.len().max(1) as u64;
        self.evals += n_eval;
        for (k, v) in &out.rust {
            let kk = k.trim_end_matches(|ch: char| ch.is_ascii_digit());
            self.stats.inc(format!("{}.{}.rust.{}", f, kk, if kk == "inner" || kk == "bis" || kk == "paths" || kk == "sibs" { "-" } else { class_of(v) }));
        }
        if let Some(m) = &out.model {
            for (k, v) in m {
                let kk = k.trim_end_matches(|ch: char| ch.is_ascii_digit());
                self.stats.inc(format!("{}.{}.model.{}", f, kk, if kk == "inner" || kk == "bis" || kk == "paths" || kk == "sibs" { "-" } else { class_of(v) }));
            }
        } else {
            self.stats.inc(format!("{}.model-skipped(number too large)", f));
        }
        let first = out.rust.first().map(|x| x.1.clone()).unwrap_or_default();
        let nontrivial = first.starts_with("ok") || first.contains("RootMismatch");
        self.lines.push((line.clone(), nontrivial));
        let dump = |o: &CallOut| {
            format!(
                "# rust : {}\n# model: {}\n",
                o.rust.iter().map(|(k, v)| format!("{}={}", k, v)).collect::<Vec<_>>().join(" "),
                o.model.as_ref().map(|m| m.iter().map(|(k, v)| format!("{}={}", k, v)).collect::<Vec<_>>().join(" ")).unwrap_or_else(|| "(not run: number too large for the model)".into())
            )
        };
        // 1. agreement
        if let Some(m) = &out.model {
            if *m != out.rust {
                let diff = out
                    .rust
                    .iter()
                    .zip(m.iter())
                    .find(|(a, b)| a != b)
                    .map(|(a, b)| format!("{}: rust {} / model {}", a.0, short(&a.1), short(&b.1)))
                    .unwrap_or_else(|| format!("rust reports {} observables, the model {}", out.rust.len(), m.len()));
                let sig = generic_sig(&self.prop);
                self.violate(&sig, format!("{}: implementation and Coq mirror disagree on {}", f, diff), &line, &dump(&out));
            }
        }
        // 2. verifiers never panic (C18)
        if self.prop == "C18" {
            let n_inner = field(&out.rust, "inner").map(|s| s.split(' ').filter(|x| !x.is_empty()).count()).unwrap_or(0);
            for (k, v) in &out.rust {
                if v != "panic" && !v.ends_with(":panic") {
                    continue;
                }
                let func = match (c, k.as_str()) {
                    (Call::Pp { .. }, "verify") => Some("pp-verify"),
                    (Call::Pp { .. }, _) => Some("pp-confirm"),
                    (Call::Vu { .. }, _) => Some(if v.starts_with("pathfail") { "pp-verify" } else { "verify-update" }),
                    (Call::Multi { .. }, "verify") => Some("multi-verify"),
                    (Call::Multi { queries, .. }, q) if q.starts_with('q') => {
                        let i: usize = q[1..].parse().unwrap();
                        match &queries[i] {
                            MQuery::VI(_, _, ix) | MQuery::NI(_, ix) if *ix >= n_inner => None, // documented precondition
                            _ => Some("multi-confirm"),
                        }
                    }
                    (Call::Multi { .. }, u) if u.starts_with('u') => Some("multi-verify-update"),
                    _ => None, // build_trie, from_path_proofs: prover side
                };
                if let Some(func) = func {
                    let sig = format!("c18-panic-{}", func);
                    self.violate(&sig, format!("{} panicked on an untrusted input ({}={})", func, k, v), &line, &dump(&out));
                }
            }
        }
        // 3. false accepts (C08, C18): verification against root(S) succeeded
        if self.prop == "C08" || self.prop == "C18" {
            self.false_accept(c, &out, &line);
        }
        out
    }

    fn false_accept(&mut self, c: &Call, out: &CallOut, line: &str) {
        let root_s = self.root(0);
        let sig = format!("{}-false-accept", self.pfx());
        let mut claims: Vec<(String, Key, Option<u32>, String)> = Vec::new(); // (field, key, claimed value / None = absent, answer)
        let mut upd: Vec<(String, Vec<OpE>, String)> = Vec::new();
        match c {
            Call::Pp { root, queries, .. } if self.node(root) == root_s && field(&out.rust, "verify").map(|v| v.starts_with("ok")).unwrap_or(false) => {
                for (i, q) in queries.iter().enumerate() {
                    let a = field(&out.rust, &format!("q{}", i)).unwrap_or("").to_string();
                    match q {
                        Query::V(k, v) => claims.push((format!("q{}", i), *k, Some(*v), a)),
                        Query::N(k) => claims.push((format!("q{}", i), *k, None, a)),
                    }
                }
            }
            Call::Multi { root, queries, updates, .. }
                if root.as_ref().map(|r| self.node(r) == root_s).unwrap_or(false) && field(&out.rust, "verify") == Some("ok") =>
            {
                for (i, q) in queries.iter().enumerate() {
                    let a = field(&out.rust, &format!("q{}", i)).unwrap_or("").to_string();
                    match q {
                        MQuery::V(k, v) | MQuery::VI(k, v, _) => claims.push((format!("q{}", i), *k, Some(*v), a)),
                        MQuery::N(k) | MQuery::NI(k, _) => claims.push((format!("q{}", i), *k, None, a)),
                        MQuery::I(_) => {}
                    }
                }
                for (i, u) in updates.iter().enumerate() {
                    upd.push((format!("u{}", i), u.clone(), field(&out.rust, &format!("u{}", i)).unwrap_or("").to_string()));
                }
            }
            Call::Vu { prev, paths } if self.node(prev) == root_s => {
                let all: Vec<OpE> = paths.iter().flat_map(|p| p.3.iter().cloned()).collect();
                upd.push(("result".into(), all, field(&out.rust, "result").unwrap_or("").to_string()));
            }
            _ => {}
        }
        for (f, k, claim, ans) in claims {
            if ans != "t" && ans != "f" {
                continue;
            }
            let truth = self.model_get(&k);
            let holds = match claim {
                Some(v) => truth.map(|t| vhash(t) == vhash(v)).unwrap_or(false), // "k has value v"
                None => truth.is_none(),                                           // "k is absent"
            };
            self.stats.inc("oracle.false-accept.claims-checked");
            if holds != (ans == "t") {
                let d = format!(
                    "a proof that verifies against root(S) answers {} to `{} {}` ({}) but S has {:?} there",
                    ans,
                    if claim.is_some() { "confirm_value" } else { "confirm_nonexistence" },
                    hex(&k),
                    f,
                    truth
                );
                let extra = format!("# rust : {}\n", out.rust.iter().map(|(k, v)| format!("{}={}", k, short(v))).collect::<Vec<_>>().join(" "));
                self.violate(&sig, d, line, &extra);
            }
        }
        for (f, ops, ans) in upd {
            if let Some(h) = ans.strip_prefix("ok:") {
                let exp = self.apply_root(&ops);
                self.stats.inc("oracle.false-accept.updates-checked");
                if h != hex(&exp) {
                    let d = format!("an update verified through a proof accepted against root(S) returns {} ({}) but root(apply S W) is {}", h, f, hex(&exp));
                    self.violate(&sig, d, line, "");
                }
            }
        }
    }
}

fn short(s: &str) -> String {
    if s.len() > 160 { format!("{}...", &s[..160]) } else { s.to_string() }
}

fn bool_class<E>(r: Result<Result<bool, E>, String>) -> String {
    match r {
        Err(_) => "panic".into(),
        Ok(Err(_)) => "oos".into(),
        Ok(Ok(true)) => "t".into(),
        Ok(Ok(false)) => "f".into(),
    }
}

/// the private structure of a VerifiedMultiProof as its Debug output shows it:
/// ("depth:start:end ...", "start_depth:start:end ...")
fn debug_structure(v: &VerifiedMultiProof) -> (String, String) {
    let dbg = format!("{:?}", v);
    let bi = dbg.find("bisections: [").expect("debug format");
    let bis_end = dbg[bi..].find("], siblings: [").map(|e| bi + e).unwrap_or(dbg.len());
    fn nums(s: &str, pat1: &str, pat2: &str) -> String {
        let mut out = Vec::new();
        let mut rest = s;
        while let Some(i) = rest.find(pat1) {
            rest = &rest[i + pat1.len()..];
            let a_end = rest.find(',').unwrap();
            let a = rest[..a_end].trim().to_string();
            let j = rest.find(pat2).unwrap();
            rest = &rest[j + pat2.len()..];
            let dots = rest.find("..").unwrap();
            let b = rest[..dots].trim().to_string();
            rest = &rest[dots + 2..];
            let end = rest.find(|c: char| !c.is_ascii_digit()).unwrap_or(rest.len());
            let c = rest[..end].to_string();
            out.push(format!("{}:{}:{}", a, b, c));
        }
        out.join(" ")
    }
    (nums(&dbg[..bi], "depth:", "unique_siblings:"), nums(&dbg[bi..bis_end], "start_depth:", "common_siblings:"))
}

// ------------------------------------------------------------------------------------------------
// honest pipelines

fn generic_sig(prop: &str) -> String {
    match prop {
        "C02" => "c02-build-trie".into(),
        "C06" => "c06-verify-update".into(),
        p => format!("{}-model-disagrees", p.to_lowercase()),
    }
}

/// chain root of a path proof as a node expression (mirror of hash_path over references)
fn chain_root(term: &TermE, key: &KeyBits, sibs: &[NodeE]) -> NodeE {
    let mut node = match term {
        TermE::Leaf(k, v) => NodeE::Leaf(*k, *v),
        TermE::Term(_) => NodeE::T,
    };
    if key.0.len() < sibs.len() {
        return NodeE::T;
    }
    for (bit, sib) in key.0[..sibs.len()].iter().rev().zip(sibs.iter().rev()) {
        node = if *bit { NodeE::Int(Box::new(sib.clone()), Box::new(node)) } else { NodeE::Int(Box::new(node), Box::new(sib.clone())) };
    }
    node
}

fn is_prefix(p: &[bool], k: &Key) -> bool {
    p.len() <= 256 && p.iter().enumerate().all(|(i, b)| get_bit(k, i) == *b)
}

impl Ctx {
    fn sigp(&self, what: &str) -> String {
        match self.prop.as_str() {
            "C02" => "c02-build-trie".into(),
            "C06" => "c06-verify-update".into(),
            p => format!("{}-{}", p.to_lowercase(), what),
        }
    }

    pub fn check_item(&mut self, it: &Item) {
        if std::env::var("VERIF_CORE_SELFTEST").is_ok() {
            let l = it.to_line();
            assert!(Item::parse(&l).to_line() == l, "text round trip of {}", short(&l));
        }
        match it {
            Item::Call(c) => {
                self.check_call(c);
            }
            Item::C07 { lookups, queries, updates } => self.check_c07(it, lookups, queries, updates),
            Item::C06 { ops } => self.check_c06(it, ops),
            Item::C02 { skip, ops } => self.check_c02(it, *skip, ops),
        }
    }

    /// honest proofs of the lookups, ordered by terminal path, one per terminal
    fn honest_sorted(&mut self, lookups: &[Key]) -> Vec<(Key, PPE)> {
        let mut v: Vec<(Vec<bool>, Key, PPE)> = Vec::new();
        for k in lookups {
            let p = self.honest_proof(k);
            v.push((p.term.path().0, *k, p));
        }
        v.sort_by(|a, b| a.0.cmp(&b.0));
        v.dedup_by(|a, b| a.0 == b.0);
        v.into_iter().map(|(_, k, p)| (k, p)).collect()
    }

    fn check_c07(&mut self, it: &Item, lookups: &[Key], queries: &[(Key, u32)], updates: &[Vec<OpE>]) {
        let line = it.to_line();
        let root = NodeE::A(self.root_id[0]);
        let proofs = self.honest_sorted(lookups);
        // 1. from_path_proofs on both sides
        let fcall = Call::Fpp { proofs: proofs.iter().map(|p| p.1.clone()).collect() };
        let fo = self.check_call(&fcall);
        if field(&fo.rust, "result") != Some("ok") {
            self.violate("c07-from-path-proofs", "from_path_proofs panicked on honest, ordered path proofs".into(), &line, &format!("{}\n", fcall.to_line()));
            return;
        }
        // the multi-proof as references: re-derive it from the model's index list
        let (mpaths, msibs) = {
            let l = format!("fpp {}", proofs.iter().map(|p| format!("{} {}", p.1.term.to_text(), p.1.sibs.len())).collect::<Vec<_>>().join(" "));
            let reply = self.model.ask(&l);
            let rest = reply.strip_prefix("ok").expect("fpp");
            let (ps, ss) = rest.split_once(';').unwrap();
            let flat: Vec<NodeE> = proofs.iter().flat_map(|p| p.1.sibs.iter().cloned()).collect();
            let paths: Vec<(TermE, usize)> = ps
                .split(' ')
                .filter(|x| !x.is_empty())
                .map(|x| {
                    let i = x.rfind('@').unwrap();
                    (TermE::parse(&x[..i]), x[i + 1..].parse().unwrap())
                })
                .collect();
            let sibs: Vec<NodeE> = ss.split(' ').filter(|x| !x.is_empty()).map(|x| flat[x.parse::<usize>().unwrap()].clone()).collect();
            (paths, sibs)
        };
        self.stats.add("c07.siblings-saved", proofs.iter().map(|p| p.1.sibs.len()).sum::<usize>() as u64 - msibs.len() as u64);
        // 2. verify + queries + updates through the multi-proof
        let scope_of = |k: &Key| -> Option<usize> { proofs.iter().position(|(_, p)| is_prefix(&p.term.path().0[..p.sibs.len()], k)) };
        let mut mq = Vec::new();
        for (k, v) in queries {
            mq.push(MQuery::I(*k));
            mq.push(MQuery::V(*k, *v));
            mq.push(MQuery::N(*k));
            let j = scope_of(k).unwrap_or(0);
            mq.push(MQuery::VI(*k, *v, j));
            mq.push(MQuery::NI(*k, j));
        }
        let (mpaths2, msibs2) = (mpaths.clone(), msibs.clone());
        let mcall = Call::Multi { root: Some(root.clone()), paths: mpaths, sibs: msibs, queries: mq, updates: updates.to_vec() };
        let mo = self.check_call(&mcall);
        let extra = format!("{}\n", mcall.to_line());
        if field(&mo.rust, "verify") != Some("ok") {
            self.violate("c07-honest-rejected", format!("the honest multi-proof does not verify: {}", field(&mo.rust, "verify").unwrap_or("?")), &line, &extra);
            return;
        }
        // 3. every answer equals the individual path proof's answer and is true of S
        let mut per_path: BTreeMap<usize, Vec<usize>> = BTreeMap::new(); // proof index -> query indices in its scope
        for (qi, (k, _)) in queries.iter().enumerate() {
            if let Some(j) = scope_of(k) {
                per_path.entry(j).or_default().push(qi);
            }
        }
        for (qi, (k, v)) in queries.iter().enumerate() {
            let g = |i: usize| field(&mo.rust, &format!("q{}", 5 * qi + i)).unwrap_or("").to_string();
            let (fi, fv, fn_, fvi, fni) = (g(0), g(1), g(2), g(3), g(4));
            let truth = self.kv[0].get(k).copied();
            match scope_of(k) {
                None => {
                    if fi != "oos" || fv != "oos" || fn_ != "oos" {
                        self.violate("c07-confirm-differs", format!("key {} is in no path's scope but the multi-proof answers {} {} {}", hex(k), fi, fv, fn_), &line, &extra);
                    }
                }
                Some(j) => {
                    let ev = if truth.map(|t| vhash(t) == vhash(*v)).unwrap_or(false) { "t" } else { "f" };
                    let en = if truth.is_none() { "t" } else { "f" };
                    if fi != format!("ok:{}", j) || fv != ev || fn_ != en || fvi != ev || fni != en {
                        self.violate(
                            "c07-confirm-differs",
                            format!("key {} (path {}): multi-proof answers index {} value {} nonexistence {} with-index {} {}; S says value {} nonexistence {}", hex(k), j, fi, fv, fn_, fvi, fni, ev, en),
                            &line,
                            &extra,
                        );
                    }
                }
            }
        }
        for (j, qis) in &per_path {
            let (lk, p) = &proofs[*j];
            let qs: Vec<Query> = qis.iter().flat_map(|qi| vec![Query::V(queries[*qi].0, queries[*qi].1), Query::N(queries[*qi].0)]).collect();
            let pcall = Call::Pp { p: p.clone(), key: KeyBits::of_key(lk), root: root.clone(), queries: qs };
            let po = self.check_call(&pcall);
            if !field(&po.rust, "verify").map(|v| v.starts_with("ok")).unwrap_or(false) {
                self.violate("c07-honest-rejected", "an honest path proof does not verify".into(), &line, &format!("{}\n", pcall.to_line()));
                continue;
            }
            for (n, qi) in qis.iter().enumerate() {
                let pv = field(&po.rust, &format!("q{}", 2 * n)).unwrap_or("");
                let pn = field(&po.rust, &format!("q{}", 2 * n + 1)).unwrap_or("");
                let mv = field(&mo.rust, &format!("q{}", 5 * qi + 1)).unwrap_or("");
                let mn = field(&mo.rust, &format!("q{}", 5 * qi + 2)).unwrap_or("");
                if pv != mv || pn != mn {
                    self.violate(
                        "c07-confirm-differs",
                        format!("key {}: path proof answers {} {}, multi-proof answers {} {}", hex(&queries[*qi].0), pv, pn, mv, mn),
                        &line,
                        &format!("{}{}\n", extra, pcall.to_line()),
                    );
                }
            }
        }
        // 4. updates: multi = per-path = model root of apply S W
        for (ui, w) in updates.iter().enumerate() {
            let exp = self.apply_root(w);
            let got = field(&mo.rust, &format!("u{}", ui)).unwrap_or("").to_string();
            if got != format!("ok:{}", hex(&exp)) {
                self.violate("c07-update-differs", format!("multi-proof verify_update #{} gives {} but root(apply S W) is {}", ui, short(&got), hex(&exp)), &line, &extra);
            }
            let mut groups: BTreeMap<usize, Vec<OpE>> = BTreeMap::new();
            let mut all_in = true;
            for o in w {
                match scope_of(&o.0) {
                    Some(j) => groups.entry(j).or_default().push(*o),
                    None => all_in = false,
                }
            }
            if !all_in {
                continue;
            }
            let vcall = Call::Vu {
                prev: root.clone(),
                paths: groups.iter().map(|(j, ops)| (proofs[*j].1.clone(), KeyBits::of_key(&proofs[*j].0), root.clone(), ops.clone())).collect(),
            };
            let vo = self.check_call(&vcall);
            let pgot = field(&vo.rust, "result").unwrap_or("").to_string();
            if pgot != format!("ok:{}", hex(&exp)) {
                self.violate(
                    "c07-update-differs",
                    format!("per-path verify_update of write set #{} gives {} but root(apply S W) is {} (multi-proof: {})", ui, short(&pgot), hex(&exp), short(&got)),
                    &line,
                    &format!("{}{}\n", extra, vcall.to_line()),
                );
            }
        }
        // 5. the same write sets with the operations under ONE terminal out of order (three or more of
        //    them, the last two swapped): the verifier must refuse, or answer the root of the SET
        for w in updates.iter() {
            let mut by_scope: BTreeMap<usize, Vec<usize>> = BTreeMap::new();
            for (oi, o) in w.iter().enumerate() {
                if let Some(j) = scope_of(&o.0) {
                    by_scope.entry(j).or_default().push(oi);
                }
            }
            let Some(idx) = by_scope.values().find(|v| v.len() >= 3) else { continue };
            let (x, y) = (idx[idx.len() - 2], idx[idx.len() - 1]);
            let mut w2 = w.clone();
            w2.swap(x, y);
            let exp = self.apply_root(w);
            let ucall = Call::Multi { root: Some(root.clone()), paths: mpaths2.clone(), sibs: msibs2.clone(), queries: vec![], updates: vec![w2] };
            let uo = self.check_call(&ucall);
            let got = field(&uo.rust, "u0").unwrap_or("").to_string();
            self.stats.add("c07.unsorted-update-sets", 1);
            if got.starts_with("ok:") && got != format!("ok:{}", hex(&exp)) {
                self.violate(
                    "c08-unsorted-update-false-root",
                    format!("multi-proof verify_update accepts operations that are out of order under one terminal and answers {} - the root of the updated set is {}", short(&got), hex(&exp)),
                    &line,
                    &format!("{}\n", ucall.to_line()),
                );
            }
        }
    }

    fn check_c06(&mut self, it: &Item, ops: &[OpE]) {
        let line = it.to_line();
        let root = NodeE::A(self.root_id[0]);
        let sig = self.sigp("verify-update");
        let reply = self.model.ask(&format!("group {}", ops_text(ops)));
        let mut paths = Vec::new();
        let mut at = 0;
        for g in reply.strip_prefix("ok").expect("group").split(' ').filter(|x| !x.is_empty()) {
            let t: Vec<&str> = g.split(':').collect();
            let k = key_from_hex(t[0]);
            let n: usize = t[2].parse().unwrap();
            let p = self.honest_proof(&k);
            if p.sibs.len() != t[1].parse::<usize>().unwrap() {
                self.violate(&sig, "Witness.group and the canonical proof disagree on the path length".into(), &line, "");
            }
            paths.push((p, KeyBits::of_key(&k), root.clone(), ops[at..at + n].to_vec()));
            at += n;
        }
        self.stats.add("c06.groups", paths.len() as u64);
        let vcall = Call::Vu { prev: root.clone(), paths };
        let vo = self.check_call(&vcall);
        let exp = self.apply_root(ops);
        let got = field(&vo.rust, "result").unwrap_or("").to_string();
        let extra = format!("{}\n", vcall.to_line());
        if got != format!("ok:{}", hex(&exp)) {
            self.violate(&sig, format!("verify_update over the canonical grouping gives {} but root(apply S W) is {}", short(&got), hex(&exp)), &line, &extra);
        }
        let r = self.model.ask(&format!("vugroup {}", ops_text(ops)));
        let mg = self.node_result(&r);
        self.evals += 1;
        if mg != got {
            self.violate(&sig, format!("Coq verify_update over Witness.group gives {} but the implementation {}", short(&mg), short(&got)), &line, &extra);
        }
    }

    fn check_c02(&mut self, it: &Item, skip: usize, ops: &[(Key, u32)]) {
        let line = it.to_line();
        let sig = self.sigp("build-trie");
        let bcall = Call::Bt { skip, ops: ops.to_vec() };
        let bo = self.check_call(&bcall);
        let got = field(&bo.rust, "result").unwrap_or("").to_string();
        // the canonical root of the set, from the specification trie
        let set: BTreeMap<Key, u32> = ops.iter().cloned().collect();
        self.set_view(1, &set);
        let spec_root = self.root(1);
        let Some(h) = got.strip_prefix("ok:") else {
            self.violate(&sig, format!("build_trie(skip = {}) on a sorted set sharing the prefix: {}", skip, got), &line, "");
            return;
        };
        let mut node = key_from_hex(h);
        if ops.len() >= 2 {
            for d in (0..skip).rev() {
                node = if get_bit(&ops[0].0, d) {
                    H::hash_internal(&InternalData { left: TERMINATOR, right: node })
                } else {
                    H::hash_internal(&InternalData { left: node, right: TERMINATOR })
                };
            }
        }
        self.evals += 1;
        if node != spec_root {
            self.violate(&sig, format!("build_trie(skip = {}) hashed up to the root gives {} but the specification root of the set is {}", skip, hex(&node), hex(&spec_root)), &line, "");
        }
    }
}

// ------------------------------------------------------------------------------------------------
// generators

struct TabEntry {
    leaf: Option<(Key, u32)>,
    kids: Option<(u32, u32)>,
}

struct Gen<'a> {
    rng: &'a mut Rng,
    kg: KeyGen,
    thorough: bool,
    next_opaque: u32,
}

fn gen_set(rng: &mut Rng, kg: &mut KeyGen, n: usize) -> BTreeMap<Key, u32> {
    let mut m = BTreeMap::new();
    let mut guard = 0;
    while m.len() < n && guard < 4 * n + 16 {
        guard += 1;
        let k = match rng.below(12) {
            0 if !m.is_empty() => {
                // deepest possible neighbour: differs in one of the last bits only
                let mut k = *m.keys().nth(rng.below(m.len() as u64) as usize).unwrap();
                flip_bit(&mut k, 255 - rng.below(2) as usize);
                k
            }
            1 if !m.is_empty() => {
                let b = *m.keys().nth(rng.below(m.len() as u64) as usize).unwrap();
                let d = KeyGen::prefix_len(rng);
                diverge_at(rng, &b, d)
            }
            _ => kg.key(rng),
        };
        let v = if rng.chance(1, 4) { rng.range(1, 5) as u32 } else { rng.range(1, 100000) as u32 };
        m.insert(k, v);
    }
    m
}

fn set_size(rng: &mut Rng) -> usize {
    match rng.below(20) {
        0 => 1,
        1 => 2,
        2..=7 => rng.range(3, 12) as usize,
        8..=14 => rng.range(12, 60) as usize,
        15..=18 => rng.range(60, 200) as usize,
        _ => rng.range(200, 400) as usize,
    }
}

impl<'a> Gen<'a> {
    fn fresh_opaque(&mut self) -> NodeE {
        self.next_opaque += 1;
        NodeE::Op(self.rng.chance(1, 2), self.next_opaque)
    }

    fn some_key_of(&mut self, ctx: &Ctx) -> Option<Key> {
        let m = &ctx.kv[0];
        if m.is_empty() { None } else { m.keys().nth(self.rng.below(m.len() as u64) as usize).copied() }
    }

    /// a lookup key: present / diverging from a present key / clustered / random
    fn lookup_key(&mut self, ctx: &Ctx) -> Key {
        match (self.rng.below(10), self.some_key_of(ctx)) {
            (0..=4, Some(k)) => k,
            (5..=7, Some(k)) => {
                let d = if self.rng.chance(1, 2) { self.rng.below(24) as usize } else { KeyGen::prefix_len(self.rng) };
                diverge_at(self.rng, &k, d)
            }
            (8, _) => self.kg.key(self.rng),
            _ => self.rng.key(),
        }
    }

    /// ops in the scope of one honest terminal
    fn ops_under(&mut self, lookup: &Key, p: &PPE, out: &mut BTreeMap<Key, Option<u32>>) {
        let depth = p.sibs.len();
        let n = match self.rng.below(6) { 0 => 0, 1..=3 => 1, 4 => 2, _ => 4 };
        for _ in 0..n {
            let base = match &p.term { TermE::Leaf(k, _) if self.rng.chance(2, 3) => *k, _ => *lookup };
            let k = match (&p.term, self.rng.below(4)) {
                (TermE::Leaf(k, _), 0..=1) => *k, // rewrite / delete the leaf itself
                _ => {
                    let d = if depth >= 255 { 255 } else if self.rng.chance(1, 3) { self.rng.range(depth as u64, 255) as usize } else { (depth + self.rng.below(6) as usize).min(255) };
                    let k = diverge_at(self.rng, &base, d);
                    if !is_prefix(&p.term.path().0[..depth.min(p.term.path().0.len())], &k) { continue } else { k }
                }
            };
            let o = if self.rng.chance(2, 5) { None } else { Some(self.rng.range(1, 100000) as u32) };
            out.insert(k, o);
        }
    }

    fn write_set(&mut self, proofs: &[(Key, PPE)]) -> Vec<OpE> {
        let mut m = BTreeMap::new();
        let shape = self.rng.below(8);
        if shape == 0 {
            return vec![];
        }
        for (lk, p) in proofs {
            if shape == 1 || self.rng.chance(3, 5) {
                self.ops_under(lk, p, &mut m);
            }
            if shape == 2 && !m.is_empty() {
                break; // a single terminal
            }
        }
        m.into_iter().collect()
    }

    fn queries_for(&mut self, ctx: &Ctx, proofs: &[(Key, PPE)], n: usize) -> Vec<(Key, u32)> {
        let mut q = Vec::new();
        for _ in 0..n {
            let (k, v) = match self.rng.below(6) {
                0..=1 if !proofs.is_empty() => {
                    let (lk, p) = self.rng.pick(proofs).clone();
                    match p.term {
                        TermE::Leaf(k, v) => (k, v),
                        _ => (lk, 7),
                    }
                }
                2 if !proofs.is_empty() => {
                    // another key under a proven terminal
                    let (lk, p) = self.rng.pick(proofs).clone();
                    let d = p.sibs.len().min(255);
                    { let dd = (d + self.rng.below(4) as usize).min(255); (diverge_at(self.rng, &lk, dd), 3) }
                }
                3 => match self.some_key_of(ctx) {
                    Some(k) => (k, ctx.kv[0][&k]),
                    None => (self.rng.key(), 1),
                },
                4 => (self.lookup_key(ctx), 5),
                _ => (self.rng.key(), 9),
            };
            let v = match ctx.kv[0].get(&k) {
                Some(t) if self.rng.chance(3, 4) => *t,
                Some(t) => t + 1,
                None => v,
            };
            q.push((k, v));
        }
        q
    }
}

fn parse_tab(lines: &[String]) -> HashMap<u32, TabEntry> {
    let mut m = HashMap::new();
    for l in lines {
        let t: Vec<&str> = l.split(' ').collect();
        match t[0] {
            "L" => {
                m.insert(t[1].parse().unwrap(), TabEntry { leaf: Some((key_from_hex(t[2]), t[3].parse().unwrap())), kids: None });
            }
            "I" => {
                m.insert(t[1].parse().unwrap(), TabEntry { leaf: None, kids: Some((t[2].parse().unwrap(), t[3].parse().unwrap())) });
            }
            _ => {}
        }
    }
    m
}

/// number of siblings verify_range consumes for ordered, prefix-free terminals with these depths
fn needed_siblings(paths: &[(Vec<bool>, usize)], start: usize) -> Option<usize> {
    match paths.len() {
        0 => Some(0),
        1 => {
            if paths[0].1 < start || paths[0].1 > paths[0].0.len() { None } else { Some(paths[0].1 - start) }
        }
        n => {
            let (a, b) = (&paths[0].0, &paths[n - 1].0);
            if a.len() < start || b.len() < start {
                return None;
            }
            let common = a[start..].iter().zip(b[start..].iter()).take_while(|(x, y)| x == y).count();
            let cl = start + common;
            if paths.iter().any(|p| p.0.len() <= cl) {
                return None;
            }
            let mid = paths.iter().position(|p| p.0[cl]).unwrap_or(n);
            if mid == 0 || mid == n {
                return None;
            }
            Some(common + needed_siblings(&paths[..mid], cl + 1)? + needed_siblings(&paths[mid..], cl + 1)?)
        }
    }
}

// ------------------------------------------------------------------------------------------------
// mutation engine (C08, C18)

impl<'a> Gen<'a> {
    fn pool_node(&mut self, ctx: &Ctx, others: &[(Key, PPE)]) -> NodeE {
        match self.rng.below(9) {
            0 => self.fresh_opaque(),
            1 => NodeE::T,
            2 | 3 if ctx.root_id[0] > 0 => NodeE::A(self.rng.range(1, ctx.root_id[0] as u64) as u32),
            4 if !others.is_empty() => {
                let p = &self.rng.pick(others).1;
                if p.sibs.is_empty() { NodeE::T } else { self.rng.pick(&p.sibs).clone() }
            }
            5 => match self.some_key_of(ctx) {
                Some(k) if self.rng.chance(1, 2) => NodeE::Leaf(k, ctx.kv[0][&k] + self.rng.below(2) as u32),
                _ => NodeE::Leaf(self.rng.key(), 1),
            },
            6 if ctx.root_id[1] > 0 => NodeE::B(self.rng.range(1, ctx.root_id[1] as u64) as u32),
            7 => NodeE::Int(Box::new(self.fresh_opaque()), Box::new(NodeE::T)),
            _ => self.fresh_opaque(),
        }
    }

    /// the same node written differently (still the same bytes): exercises reference resolution and
    /// keeps the proof valid
    fn equivalent(&mut self, ctx: &Ctx, n: &NodeE) -> NodeE {
        if let NodeE::A(i) = n {
            if let Some(e) = ctx.tabinfo.get(i) {
                if let Some((k, v)) = e.leaf {
                    return NodeE::Leaf(k, v);
                }
                if let Some((l, r)) = e.kids {
                    let f = |x: u32| if x == 0 { NodeE::T } else { NodeE::A(x) };
                    return NodeE::Int(Box::new(f(l)), Box::new(f(r)));
                }
            }
        }
        n.clone()
    }

    fn mutate_term(&mut self, t: &TermE, lookup: &Key, depth: usize) -> TermE {
        match (t, self.rng.below(6)) {
            (TermE::Leaf(k, v), 0) => {
                let mut k2 = *k;
                flip_bit(&mut k2, self.rng.below(256) as usize);
                TermE::Leaf(k2, *v)
            }
            (TermE::Leaf(k, v), 1) => TermE::Leaf(*k, v + 1 + self.rng.below(3) as u32),
            (TermE::Leaf(k, _), 2) => TermE::Term(KeyBits::prefix(k, depth)),
            (TermE::Leaf(k, v), 3) => {
                let mut k2 = *k;
                flip_bit(&mut k2, if depth > 0 { self.rng.below(depth as u64) as usize } else { 0 });
                TermE::Leaf(k2, *v)
            }
            (TermE::Leaf(_, v), _) => TermE::Leaf(*lookup, *v),
            (TermE::Term(_), 0) => TermE::Leaf(*lookup, 1 + self.rng.below(9) as u32),
            (TermE::Term(p), 1) if !p.0.is_empty() => {
                let mut q = p.clone();
                let i = self.rng.below(q.0.len() as u64) as usize;
                q.0[i] = !q.0[i];
                TermE::Term(q)
            }
            (TermE::Term(p), 2) if !p.0.is_empty() => TermE::Term(KeyBits(p.0[..p.0.len() - 1].to_vec())),
            (TermE::Term(p), 3) if p.0.len() < 256 => {
                let mut q = p.clone();
                q.0.push(self.rng.chance(1, 2));
                TermE::Term(q)
            }
            (TermE::Term(_), 4) => TermE::Term(KeyBits::prefix(lookup, *self.rng.pick(&[0usize, 1, 255, 256]))),
            (TermE::Term(p), _) => match self.rng.below(2) {
                0 => TermE::Term(KeyBits(vec![])),
                _ => TermE::Term(KeyBits::prefix(&p.key(), p.0.len().saturating_sub(2))),
            },
        }
    }

    fn mutate_sibs(&mut self, ctx: &Ctx, sibs: &mut Vec<NodeE>, others: &[(Key, PPE)]) -> &'static str {
        let n = sibs.len();
        match self.rng.below(9) {
            0 | 1 if n > 0 => {
                let i = self.rng.below(n as u64) as usize;
                sibs[i] = self.pool_node(ctx, others);
                "sibling-replaced"
            }
            2 if n > 0 => {
                let i = self.rng.below(n as u64) as usize;
                sibs[i] = self.equivalent(ctx, &sibs[i].clone());
                "sibling-rewritten-equivalently"
            }
            3 if n > 0 => {
                if self.rng.chance(1, 2) { sibs.pop(); } else { sibs.remove(self.rng.below(n as u64) as usize); }
                "truncated"
            }
            4 => {
                let x = self.pool_node(ctx, others);
                if self.rng.chance(1, 2) { sibs.push(x) } else { sibs.insert(self.rng.below(n as u64 + 1) as usize, x) }
                "extended"
            }
            5 if n > 0 => {
                let i = self.rng.below(n as u64) as usize;
                let x = sibs[i].clone();
                sibs.insert(i, x);
                "sibling-duplicated"
            }
            6 if n > 1 => {
                let i = self.rng.below(n as u64) as usize;
                let j = self.rng.below(n as u64) as usize;
                sibs.swap(i, j);
                "siblings-reordered"
            }
            7 if n > 0 => {
                let i = self.rng.below(n as u64) as usize;
                sibs[i] = NodeE::T;
                "sibling-terminator"
            }
            _ => {
                let x = self.fresh_opaque();
                sibs.push(x);
                "extended"
            }
        }
    }

    /// one mutant of an honest path proof: (family, proof, verification key, root)
    fn mutate_pp(&mut self, ctx: &Ctx, base: &(Key, PPE), others: &[(Key, PPE)], foreign: &[(Key, PPE)]) -> (String, PPE, KeyBits, NodeE) {
        let (lookup, honest) = base;
        let mut p = honest.clone();
        let mut key = KeyBits::of_key(lookup);
        let mut root = NodeE::A(ctx.root_id[0]);
        let depth = p.sibs.len();
        let fam: String = match self.rng.below(12) {
            0..=3 => self.mutate_sibs(ctx, &mut p.sibs, others).into(),
            4 | 5 => {
                p.term = self.mutate_term(&p.term, lookup, depth);
                "terminal-changed".into()
            }
            6 => {
                match self.rng.below(5) {
                    0 => key = KeyBits::of_key(&self.lookup_key(ctx)),
                    1 => {
                        let mut k = *lookup;
                        flip_bit(&mut k, self.rng.below(256) as usize);
                        key = KeyBits::of_key(&k)
                    }
                    2 => key = KeyBits(key.0[..*self.rng.pick(&[0usize, 1, depth.saturating_sub(1), depth, 255])].to_vec()),
                    3 => {
                        key.0.push(true); // 257 bits
                    }
                    _ => {
                        let mut k = *lookup;
                        if depth < 256 { flip_bit(&mut k, depth + self.rng.below((256 - depth) as u64) as usize); }
                        key = KeyBits::of_key(&k) // another key under the same terminal: still valid
                    }
                }
                "verification-key-changed".into()
            }
            7 => {
                root = match self.rng.below(4) {
                    0 => NodeE::T,
                    1 if ctx.root_id[1] > 0 => NodeE::B(ctx.root_id[1]),
                    2 => self.equivalent(ctx, &root.clone()),
                    _ => self.pool_node(ctx, others),
                };
                "root-changed".into()
            }
            8 if !foreign.is_empty() => {
                // cross-splice: a proof for another key set
                let (fk, fp) = self.rng.pick(foreign).clone();
                match self.rng.below(3) {
                    0 => {
                        p = fp;
                        key = KeyBits::of_key(&fk);
                    }
                    1 => p.term = fp.term,
                    _ => {
                        let cut = self.rng.below(p.sibs.len() as u64 + 1) as usize;
                        p.sibs.truncate(cut);
                        p.sibs.extend(fp.sibs.iter().skip(cut).cloned());
                    }
                }
                if self.rng.chance(1, 3) && ctx.root_id[1] > 0 {
                    root = NodeE::B(ctx.root_id[1]);
                }
                "cross-spliced".into()
            }
            9 => {
                // random object
                let n = *self.rng.pick(&[0usize, 1, 2, 5, 17, 255, 256, 257]);
                p.sibs = (0..n).map(|_| if self.rng.chance(1, 3) { NodeE::T } else { self.fresh_opaque() }).collect();
                p.term = if self.rng.chance(1, 2) { TermE::Leaf(self.rng.key(), 3) } else { TermE::Term(KeyBits::prefix(lookup, n.min(256))) };
                "random-object".into()
            }
            _ => {
                let a = self.mutate_sibs(ctx, &mut p.sibs, others);
                p.term = self.mutate_term(&p.term, lookup, depth);
                format!("{}+terminal-changed", a)
            }
        };
        let fam = if self.rng.chance(1, 3) {
            root = chain_root(&p.term, &key, &p.sibs);
            format!("{}+self-rooted", fam)
        } else {
            fam
        };
        (fam, p, key, root)
    }

    fn pp_queries(&mut self, ctx: &Ctx, lookup: &Key, p: &PPE) -> Vec<Query> {
        let mut q = vec![Query::N(*lookup)];
        q.push(Query::V(*lookup, ctx.kv[0].get(lookup).copied().unwrap_or(1)));
        if let TermE::Leaf(k, v) = &p.term {
            q.push(Query::V(*k, *v));
            q.push(Query::N(*k));
        }
        let d = p.sibs.len().min(255);
        let dd = (d + self.rng.below(3) as usize).min(255);
        let k = diverge_at(self.rng, lookup, dd);
        q.push(Query::N(k));
        if let Some(k) = self.some_key_of(ctx) {
            q.push(Query::V(k, ctx.kv[0][&k]));
        }
        q
    }

    /// malformed variations of a write set
    fn spoil_ops(&mut self, ctx: &Ctx, ops: &mut Vec<OpE>) -> &'static str {
        match self.rng.below(6) {
            0 if ops.len() > 1 => {
                ops.reverse();
                "ops-unsorted"
            }
            1 if !ops.is_empty() => {
                let x = ops[self.rng.below(ops.len() as u64) as usize];
                ops.push(x);
                ops.sort();
                "ops-duplicate"
            }
            2 => {
                ops.push((self.rng.key(), Some(5)));
                ops.sort();
                "ops-out-of-scope"
            }
            3 => {
                ops.clear();
                "ops-empty"
            }
            4 => {
                let k = self.lookup_key(ctx);
                ops.push((k, None));
                "ops-appended-unsorted"
            }
            _ => "ops-kept",
        }
    }

    fn mutate_multi(
        &mut self,
        ctx: &Ctx,
        paths: &mut Vec<(TermE, usize)>,
        sibs: &mut Vec<NodeE>,
        lookups: &[(Key, PPE)],
        foreign: &[(Key, PPE)],
    ) -> String {
        let np = paths.len();
        match self.rng.below(16) {
            14 | 15 if np > 0 => {
                // the terminal's position and its depth edited TOGETHER, siblings untouched: bits of an
                // existing key (or random bits) put in front of / cut from the front of the position, or
                // appended to / cut from its end, and the depth moved by the same amount
                let i = self.rng.below(np as u64) as usize;
                let k = self.rng.range(1, 6) as usize;
                let donor = self.some_key_of(ctx).unwrap_or_else(|| self.rng.key());
                let mut bits = paths[i].0.path().0.clone();
                let d = paths[i].1;
                let how = self.rng.below(4);
                match how {
                    0 => {
                        let mut q: Vec<bool> = (0..k).map(|j| get_bit(&donor, j)).collect();
                        q.extend(bits.iter().copied());
                        q.truncate(256);
                        bits = q;
                        paths[i].1 = d + k;
                    }
                    1 => {
                        let cut = k.min(bits.len());
                        bits = bits[cut..].to_vec();
                        paths[i].1 = d.saturating_sub(cut);
                    }
                    2 => {
                        for j in 0..k {
                            if bits.len() < 256 {
                                bits.push(get_bit(&donor, bits.len().min(255)) ^ (j == 0));
                            }
                        }
                        paths[i].1 = d + k;
                    }
                    _ => {
                        let cut = k.min(bits.len());
                        bits.truncate(bits.len() - cut);
                        paths[i].1 = d.saturating_sub(cut);
                    }
                }
                if let TermE::Term(_) = paths[i].0 {
                    paths[i].0 = TermE::Term(KeyBits(bits));
                } else if how == 0 || how == 2 {
                    // a leaf terminal keeps its key; only the claimed depth moves with it
                }
                paths.sort_by(|a, b| a.0.path().0.cmp(&b.0.path().0));
                "terminal-position-and-depth-moved-together".into()
            }
            0..=3 => self.mutate_sibs(ctx, sibs, lookups).into(),
            4 | 5 if np > 0 => {
                let i = self.rng.below(np as u64) as usize;
                let d = paths[i].1;
                paths[i].1 = match self.rng.below(5) {
                    0 => d + 1,
                    1 => d.saturating_sub(1),
                    2 => *self.rng.pick(&[0usize, 1, 255, 256, 257]),
                    3 => d + 2,
                    _ => paths[i].0.path().0.len(),
                };
                "depth-changed".into()
            }
            6 if np > 0 => {
                // depth and the sibling vector changed together
                let i = self.rng.below(np as u64) as usize;
                if self.rng.chance(1, 2) {
                    paths[i].1 += 1;
                    let x = self.pool_node(ctx, lookups);
                    sibs.insert(self.rng.below(sibs.len() as u64 + 1) as usize, x);
                } else if !sibs.is_empty() {
                    paths[i].1 = paths[i].1.saturating_sub(1);
                    sibs.remove(self.rng.below(sibs.len() as u64) as usize);
                }
                "depth-and-siblings-changed".into()
            }
            7 | 8 if np > 0 => {
                let i = self.rng.below(np as u64) as usize;
                let lk = lookups.get(i).map(|x| x.0).unwrap_or_else(|| paths[i].0.path().key());
                paths[i].0 = self.mutate_term(&paths[i].0.clone(), &lk, paths[i].1.min(256));
                "terminal-changed".into()
            }
            9 if np > 0 => {
                let i = self.rng.below(np as u64) as usize;
                match self.rng.below(3) {
                    0 => {
                        paths.remove(i);
                        "path-removed".into()
                    }
                    1 => {
                        let x = paths[i].clone();
                        paths.insert(i, x);
                        "path-duplicated".into()
                    }
                    _ => {
                        let j = self.rng.below(np as u64) as usize;
                        paths.swap(i, j);
                        "paths-reordered".into()
                    }
                }
            }
            10 if !foreign.is_empty() => {
                let (_, fp) = self.rng.pick(foreign).clone();
                if np > 0 && self.rng.chance(1, 2) {
                    let i = self.rng.below(np as u64) as usize;
                    paths[i].0 = fp.term;
                } else {
                    paths.push((fp.term.clone(), fp.sibs.len()));
                    paths.sort_by(|a, b| a.0.path().0.cmp(&b.0.path().0));
                    sibs.extend(fp.sibs.iter().cloned());
                }
                "cross-spliced".into()
            }
            11 => {
                // a prefix-related terminal added
                if np > 0 {
                    let i = self.rng.below(np as u64) as usize;
                    let p = paths[i].0.path();
                    let cut = self.rng.below(p.0.len() as u64 + 1) as usize;
                    paths.push((TermE::Term(KeyBits(p.0[..cut.min(256)].to_vec())), cut.min(paths[i].1)));
                    paths.sort_by(|a, b| a.0.path().0.cmp(&b.0.path().0));
                }
                "prefix-terminal-added".into()
            }
            _ => {
                let a = self.mutate_sibs(ctx, sibs, lookups);
                if np > 0 {
                    let i = self.rng.below(np as u64) as usize;
                    paths[i].1 += 1;
                }
                format!("{}+depth-changed", a)
            }
        }
    }

    /// a structurally plausible random multi-proof: ordered prefix-free terminals, depths just below
    /// the divergence points (+ extra), exactly as many siblings as verification consumes
    fn random_multi(&mut self, ctx: &Ctx) -> (Vec<(TermE, usize)>, Vec<NodeE>) {
        let n = *self.rng.pick(&[1usize, 2, 2, 3, 4, 6, 9]);
        let mut ts: Vec<TermE> = Vec::new();
        let base = self.rng.key();
        for _ in 0..n {
            let k = if self.rng.chance(2, 3) { let d = self.rng.below(20) as usize; diverge_at(self.rng, &base, d) } else { self.lookup_key(ctx) };
            ts.push(if self.rng.chance(1, 2) { TermE::Leaf(k, 1 + self.rng.below(5) as u32) } else { TermE::Term(KeyBits::prefix(&k, 1 + self.rng.below(40) as usize)) });
        }
        ts.sort_by(|a, b| a.path().0.cmp(&b.path().0));
        // drop prefix-related neighbours
        let mut out: Vec<TermE> = Vec::new();
        for t in ts {
            if let Some(l) = out.last() {
                let (a, b) = (l.path().0, t.path().0);
                if b.len() >= a.len() && b[..a.len()] == a[..] {
                    continue;
                }
            }
            out.push(t);
        }
        let mut paths: Vec<(TermE, usize)> = Vec::new();
        for (i, t) in out.iter().enumerate() {
            let p = t.path().0;
            let mut m = 0;
            for j in [i.wrapping_sub(1), i + 1] {
                if let Some(o) = out.get(j) {
                    let q = o.path().0;
                    let c = p.iter().zip(q.iter()).take_while(|(x, y)| x == y).count();
                    m = m.max(c + 1);
                }
            }
            let extra = if self.rng.chance(1, 3) { self.rng.below(4) as usize } else { 0 };
            paths.push((t.clone(), (m + extra).min(p.len())));
        }
        let plain: Vec<(Vec<bool>, usize)> = paths.iter().map(|(t, d)| (t.path().0, *d)).collect();
        let need = needed_siblings(&plain, 0).unwrap_or(self.rng.below(4) as usize);
        let sibs = (0..need).map(|_| match self.rng.below(5) { 0 => NodeE::T, 1 => NodeE::Leaf(self.rng.key(), 2), _ => self.fresh_opaque() }).collect();
        (paths, sibs)
    }
}

// ------------------------------------------------------------------------------------------------
// cases

fn multi_from_honest(ctx: &mut Ctx, proofs: &[(Key, PPE)]) -> Option<(Vec<(TermE, usize)>, Vec<NodeE>)> {
    let l = format!("fpp {}", proofs.iter().map(|p| format!("{} {}", p.1.term.to_text(), p.1.sibs.len())).collect::<Vec<_>>().join(" "));
    let reply = ctx.model.ask(&l);
    let rest = reply.strip_prefix("ok")?;
    let (ps, ss) = rest.split_once(';')?;
    let flat: Vec<NodeE> = proofs.iter().flat_map(|p| p.1.sibs.iter().cloned()).collect();
    let paths = ps
        .split(' ')
        .filter(|x| !x.is_empty())
        .map(|x| {
            let i = x.rfind('@').unwrap();
            (TermE::parse(&x[..i]), x[i + 1..].parse().unwrap())
        })
        .collect();
    let sibs = ss.split(' ').filter(|x| !x.is_empty()).map(|x| flat[x.parse::<usize>().unwrap()].clone()).collect();
    Some((paths, sibs))
}

fn multi_queries(g: &mut Gen, ctx: &Ctx, proofs: &[(Key, PPE)], n_paths: usize) -> Vec<MQuery> {
    let mut q = Vec::new();
    for (k, v) in g.queries_for(ctx, proofs, 3) {
        q.push(MQuery::I(k));
        q.push(MQuery::V(k, v));
        q.push(MQuery::N(k));
        let i = match g.rng.below(4) { 0 => n_paths, 1 => n_paths + 3, _ => g.rng.below(n_paths.max(1) as u64) as usize };
        q.push(MQuery::VI(k, v, i));
        q.push(MQuery::NI(k, i));
    }
    q
}

fn case_c07(ctx: &mut Ctx, g: &mut Gen) {
    let n = set_size(g.rng);
    let s = gen_set(g.rng, &mut g.kg, n);
    ctx.set_view(0, &s);
    let items = if g.thorough { 6 } else { 4 };
    for _ in 0..items {
        let keys: Vec<Key> = s.keys().copied().collect();
        let (fam, lookups): (&str, Vec<Key>) = match g.rng.below(7) {
            0 => ("single-terminal", vec![g.lookup_key(ctx)]),
            1 => ("all-leaves", keys.iter().take(150).copied().collect()),
            2 => ("alternating-leaves", keys.iter().step_by(2).take(150).copied().collect()),
            3 if !keys.is_empty() => {
                // a deep cluster: neighbours of one key in key order plus keys diverging late
                let i = g.rng.below(keys.len() as u64) as usize;
                let mut l: Vec<Key> = keys[i.saturating_sub(2)..(i + 3).min(keys.len())].to_vec();
                for _ in 0..3 {
                    let d = 200 + g.rng.below(56) as usize;
                    l.push(diverge_at(g.rng, &keys[i], d));
                }
                ("deep-cluster", l)
            }
            4 if !keys.is_empty() => {
                // terminators only
                let mut l = Vec::new();
                for _ in 0..6 {
                    let k = *g.rng.pick(&keys);
                    let d = g.rng.below(30) as usize;
                    l.push(diverge_at(g.rng, &k, d));
                }
                ("diverging-keys", l)
            }
            _ => {
                let m = g.rng.range(2, 14) as usize;
                ("random-subset", (0..m).map(|_| g.lookup_key(ctx)).collect())
            }
        };
        ctx.family = fam.into();
        ctx.stats.inc(format!("family.{}", fam));
        let proofs = ctx.honest_sorted(&lookups);
        let queries = g.queries_for(ctx, &proofs, 6);
        let nu = 3;
        let updates: Vec<Vec<OpE>> = (0..nu).map(|_| g.write_set(&proofs)).collect();
        for u in &updates {
            ctx.stats.inc(format!("c07.write-set.{}", match u.len() { 0 => "empty", 1 => "1", 2..=5 => "2-5", _ => "6+" }));
            ctx.stats.add("c07.write-set.deletes", u.iter().filter(|o| o.1.is_none()).count() as u64);
        }
        ctx.check_item(&Item::C07 { lookups, queries, updates });
    }
}

fn case_c06(ctx: &mut Ctx, g: &mut Gen) {
    let n = set_size(g.rng);
    let s = gen_set(g.rng, &mut g.kg, n);
    ctx.set_view(0, &s);
    for _ in 0..(if g.thorough { 8 } else { 5 }) {
        let m = match g.rng.below(6) { 0 => 0, 1 => 1, 2..=3 => g.rng.range(2, 8), _ => g.rng.range(8, 40) } as usize;
        let mut w: BTreeMap<Key, Option<u32>> = BTreeMap::new();
        for _ in 0..m {
            let k = g.lookup_key(ctx);
            let o = if g.rng.chance(2, 5) { None } else { Some(g.rng.range(1, 100000) as u32) };
            w.insert(k, o);
        }
        ctx.family = "canonical-grouping".into();
        ctx.stats.inc("family.canonical-grouping");
        ctx.check_item(&Item::C06 { ops: w.into_iter().collect() });
    }
}

fn case_c02(ctx: &mut Ctx, g: &mut Gen) {
    ctx.set_view(0, &BTreeMap::new());
    for _ in 0..(if g.thorough { 10 } else { 6 }) {
        let skip = match g.rng.below(6) { 0 => 0, 1 => 255, 2 => g.rng.range(248, 255) as usize, _ => g.rng.below(256) as usize };
        let n = match g.rng.below(8) { 0 => 0, 1 => 1, 2 => 2, 3..=5 => g.rng.range(3, 12), _ => g.rng.range(12, 80) } as usize;
        let n = n.min(1usize << (256 - skip).min(10));
        let base = g.rng.key();
        let mut m: BTreeMap<Key, u32> = BTreeMap::new();
        let mut guard = 0;
        while m.len() < n && guard < 10 * n + 10 {
            guard += 1;
            let mut k = if !m.is_empty() && g.rng.chance(1, 2) {
                let b = *m.keys().nth(g.rng.below(m.len() as u64) as usize).unwrap();
                let d = g.rng.range(skip as u64, 255) as usize;
                diverge_at(g.rng, &b, d)
            } else {
                g.rng.key()
            };
            for i in 0..skip {
                set_bit(&mut k, i, get_bit(&base, i));
            }
            m.insert(k, g.rng.range(1, 100000) as u32);
        }
        ctx.family = format!("skip-{}", match skip { 0 => "0", 1..=247 => "1-247", _ => "248-255" });
        ctx.stats.inc(format!("family.{}", ctx.family));
        ctx.check_item(&Item::C02 { skip, ops: m.into_iter().collect() });
    }
}

fn call_item(ctx: &mut Ctx, fam: &str, c: Call) -> CallOut {
    if std::env::var("VERIF_CORE_SELFTEST").is_ok() {
        let l = c.to_line();
        assert!(Call::parse(&l) == c, "text round trip of {}", short(&l));
    }
    ctx.family = fam.into();
    ctx.stats.inc(format!("family.{}.{}", c.fname(), fam));
    ctx.check_call(&c)
}

fn case_c08(ctx: &mut Ctx, g: &mut Gen) {
    // a second, foreign key set for cross-splicing: its canonical proofs are taken while it is the
    // current view; its node ids are the same when it is installed in slot 1
    let n2 = set_size(g.rng).min(40);
    let s2 = gen_set(g.rng, &mut g.kg, n2);
    ctx.set_view(0, &s2);
    let mut foreign: Vec<(Key, PPE)> = Vec::new();
    for _ in 0..4 {
        let k = g.lookup_key(ctx);
        let p = ctx.honest_proof(&k);
        let sibs = p.sibs.iter().map(|n| match n { NodeE::A(i) => NodeE::B(*i), x => x.clone() }).collect();
        foreign.push((k, PPE { term: p.term, sibs }));
    }
    ctx.set_view(1, &s2);
    let n = set_size(g.rng);
    let mut s = gen_set(g.rng, &mut g.kg, n);
    // share some keys with the foreign set (same key, same or different value)
    for (k, v) in s2.iter().take(3) {
        if g.rng.chance(1, 2) {
            s.insert(*k, if g.rng.chance(1, 2) { *v } else { v + 1 });
        }
    }
    ctx.set_view(0, &s);
    let root = NodeE::A(ctx.root_id[0]);

    // ---- path proofs
    let nb = if g.thorough { 6 } else { 4 };
    let bases: Vec<(Key, PPE)> = (0..nb)
        .map(|_| {
            let k = g.lookup_key(ctx);
            (k, ctx.honest_proof(&k))
        })
        .collect();
    for b in &bases {
        let q = g.pp_queries(ctx, &b.0, &b.1);
        call_item(ctx, "honest", Call::Pp { p: b.1.clone(), key: KeyBits::of_key(&b.0), root: root.clone(), queries: q });
        for _ in 0..(if g.thorough { 8 } else { 5 }) {
            let (fam, p, key, r) = g.mutate_pp(ctx, b, &bases, &foreign);
            let q = g.pp_queries(ctx, &b.0, &p);
            let out = call_item(ctx, &fam, Call::Pp { p: p.clone(), key: key.clone(), root: r.clone(), queries: q });
            // updates through whatever verified (and sometimes through what did not)
            let verified = field(&out.rust, "verify").map(|v| v.starts_with("ok")).unwrap_or(false);
            if verified || g.rng.chance(1, 6) {
                let mut m = BTreeMap::new();
                g.ops_under(&b.0, &p, &mut m);
                let mut ops: Vec<OpE> = m.into_iter().collect();
                if ops.is_empty() {
                    ops.push((b.0, Some(77)));
                }
                let f2 = if g.rng.chance(1, 3) { format!("{}+{}", fam, g.spoil_ops(ctx, &mut ops)) } else { fam.clone() };
                call_item(ctx, &f2, Call::Vu { prev: r.clone(), paths: vec![(p, key, r, ops)] });
            }
        }
    }
    // ---- several paths in one update: honest groups spoiled
    {
        let proofs = ctx.honest_sorted(&bases.iter().map(|b| b.0).collect::<Vec<_>>());
        let mut paths: Vec<(PPE, KeyBits, NodeE, Vec<OpE>)> = Vec::new();
        for (lk, p) in &proofs {
            let mut m = BTreeMap::new();
            g.ops_under(lk, p, &mut m);
            if m.is_empty() {
                m.insert(*lk, Some(9));
            }
            paths.push((p.clone(), KeyBits::of_key(lk), root.clone(), m.into_iter().collect()));
        }
        call_item(ctx, "honest", Call::Vu { prev: root.clone(), paths: paths.clone() });
        for _ in 0..4 {
            let mut ps = paths.clone();
            let mut prev = root.clone();
            let n = ps.len();
            let fam: String = match g.rng.below(7) {
                0 if n > 1 => { ps.swap(0, n - 1); "paths-reordered".into() }
                1 if n > 0 => { let x = ps[g.rng.below(n as u64) as usize].clone(); ps.push(x); "path-duplicated".into() }
                2 if n > 0 => { let i = g.rng.below(n as u64) as usize; let f = g.spoil_ops(ctx, &mut ps[i].3); f.into() }
                3 if n > 0 => {
                    // one path verified against another root
                    let i = g.rng.below(n as u64) as usize;
                    let (p, k, r) = (ps[i].0.clone(), ps[i].1.clone(), chain_root(&ps[i].0.term, &ps[i].1, &[]));
                    ps[i] = (PPE { term: p.term, sibs: vec![] }, k, r, ps[i].3.clone());
                    "path-with-another-root".into()
                }
                4 => { prev = g.pool_node(ctx, &bases); "prev-root-changed".into() }
                5 if n > 0 => { let i = g.rng.below(n as u64) as usize; let j = g.rng.below(n as u64) as usize; let o = ps[j].3.clone(); ps[i].3 = o; "ops-of-another-path".into() }
                _ => { ps.clear(); "no-paths".into() }
            };
            call_item(ctx, &fam, Call::Vu { prev, paths: ps });
        }
    }
    // ---- multi-proofs
    for _ in 0..(if g.thorough { 3 } else { 2 }) {
        let m = g.rng.range(1, 8) as usize;
        let lookups: Vec<Key> = (0..m).map(|_| g.lookup_key(ctx)).collect();
        let proofs = ctx.honest_sorted(&lookups);
        let Some((hp, hs)) = multi_from_honest(ctx, &proofs) else { continue };
        let q = multi_queries(g, ctx, &proofs, hp.len());
        let ups: Vec<Vec<OpE>> = (0..2).map(|_| g.write_set(&proofs)).collect();
        call_item(ctx, "honest", Call::Multi { root: Some(root.clone()), paths: hp.clone(), sibs: hs.clone(), queries: q, updates: ups });
        for _ in 0..(if g.thorough { 12 } else { 8 }) {
            let (mut p, mut s) = (hp.clone(), hs.clone());
            let mut fam = g.mutate_multi(ctx, &mut p, &mut s, &proofs, &foreign);
            if g.rng.chance(1, 4) {
                fam = format!("{}+{}", fam, g.mutate_multi(ctx, &mut p, &mut s, &proofs, &foreign));
            }
            let r = match g.rng.below(6) {
                0 | 1 => { fam += "+self-rooted"; None }
                2 if ctx.root_id[1] > 0 && fam.contains("cross") => Some(NodeE::B(ctx.root_id[1])),
                _ => Some(root.clone()),
            };
            let mut q = multi_queries(g, ctx, &proofs, p.len());
            // a mutated proof is also asked about keys that ARE in S (their absence must never be
            // confirmed) and about wrong values of them
            for _ in 0..10 {
                if let Some(k) = g.some_key_of(ctx) {
                    let v = ctx.kv[0][&k];
                    q.push(MQuery::N(k));
                    q.push(MQuery::V(k, v + 1));
                }
            }
            let mut ups: Vec<Vec<OpE>> = (0..2).map(|_| g.write_set(&proofs)).collect();
            if g.rng.chance(1, 3) {
                let f = g.spoil_ops(ctx, &mut ups[0]);
                fam = format!("{}+{}", fam, f);
            }
            call_item(ctx, &fam, Call::Multi { root: r, paths: p, sibs: s, queries: q, updates: ups });
        }
    }
    // ---- random but structurally plausible multi-proofs, verified against their own root
    for _ in 0..(if g.thorough { 6 } else { 3 }) {
        let (p, s) = g.random_multi(ctx);
        let fake: Vec<(Key, PPE)> = p.iter().map(|(t, d)| (t.path().key(), PPE { term: t.clone(), sibs: vec![NodeE::T; (*d).min(256)] })).collect();
        let q = multi_queries(g, ctx, &fake, p.len());
        let mut ups: Vec<Vec<OpE>> = (0..2).map(|_| g.write_set(&fake)).collect();
        let mut fam = "random-object+self-rooted".to_string();
        if g.rng.chance(1, 3) {
            fam = format!("{}+{}", fam, g.spoil_ops(ctx, &mut ups[1]));
        }
        call_item(ctx, &fam, Call::Multi { root: None, paths: p, sibs: s, queries: q, updates: ups });
    }
}

/// the fixed part of the malformed stream (smallest cases first)
fn malformed_fixed(ctx: &mut Ctx, g: &mut Gen) {
    let k0 = [0u8; 32];
    let mut k1 = [0u8; 32];
    k1[0] = 0x80;
    let mut s = BTreeMap::new();
    s.insert(k0, 1);
    s.insert(k1, 2);
    ctx.set_view(0, &s);
    ctx.set_view(1, &BTreeMap::new());
    let root = NodeE::A(ctx.root_id[0]);
    let leaf0 = TermE::Leaf(k0, 1);
    let q = vec![MQuery::I(k0), MQuery::V(k0, 1), MQuery::N(k0), MQuery::VI(k0, 1, 0), MQuery::NI(k0, 1)];
    // one path, depth d, n siblings
    for d in [1usize, 0, 2, 255, 256, 257, 65536, 1 << 40] {
        for ns in [0usize, d.saturating_sub(1), d, d + 1] {
            if ns > 300 {
                continue;
            }
            for t in [leaf0.clone(), TermE::Term(KeyBits::prefix(&k0, 1)), TermE::Term(KeyBits(vec![]))] {
                for r in [Some(root.clone()), None] {
                    if r.is_none() && d > MODEL_NUM_CAP {
                        continue;
                    }
                    let sibs: Vec<NodeE> = (0..ns).map(|i| if i == 0 { NodeE::Leaf(k1, 2) } else { NodeE::T }).collect();
                    call_item(ctx, "one-path-depth-and-sibling-count", Call::Multi { root: r, paths: vec![(t.clone(), d)], sibs, queries: q.clone(), updates: vec![vec![(k0, Some(3))]] });
                }
            }
        }
    }
    // no paths at all
    for ns in [0usize, 1, 3] {
        for r in [Some(NodeE::T), Some(root.clone()), None] {
            call_item(ctx, "empty-multi-proof", Call::Multi { root: r, paths: vec![], sibs: vec![NodeE::T; ns], queries: q.clone(), updates: vec![vec![], vec![(k0, Some(3)), (k1, None)], vec![(k1, None), (k0, Some(3))]] });
        }
    }
    // prefix-related / equal / unordered terminals, terminator positions shorter than the depth
    let p = |bits: &[u8]| TermE::Term(KeyBits(bits.iter().map(|b| *b == 1).collect()));
    let pairs: Vec<(TermE, TermE)> = vec![
        (p(&[0]), p(&[0, 1])),
        (p(&[]), p(&[1])),
        (p(&[0]), leaf0.clone()),
        (leaf0.clone(), leaf0.clone()),
        (p(&[1]), p(&[0])),
        (p(&[0, 0]), p(&[0, 1])),
        (leaf0.clone(), TermE::Leaf(k1, 2)),
    ];
    for (a, b) in pairs {
        for (da, db) in [(1usize, 1usize), (1, 2), (2, 2), (0, 0), (3, 1), (256, 256), (257, 1)] {
            for ns in [0usize, 1, 2] {
                for r in [Some(root.clone()), None] {
                    call_item(ctx, "two-related-terminals", Call::Multi { root: r, paths: vec![(a.clone(), da), (b.clone(), db)], sibs: vec![NodeE::T; ns], queries: q.clone(), updates: vec![vec![(k0, Some(3))]] });
                }
            }
        }
    }
    // path proofs: key lengths and sibling counts at the limits
    for kl in [0usize, 1, 255, 256, 257, 264] {
        for ns in [0usize, 1, 255, 256, 257] {
            for t in [leaf0.clone(), p(&[])] {
                let key = KeyBits((0..kl).map(|i| i % 3 == 0).collect());
                let sibs = vec![NodeE::T; ns];
                let r = if ns % 2 == 0 { root.clone() } else { chain_root(&t, &key, &sibs) };
                let pp = PPE { term: t.clone(), sibs };
                call_item(ctx, "path-proof-limits", Call::Pp { p: pp.clone(), key: key.clone(), root: r.clone(), queries: vec![Query::N(k0), Query::V(k0, 1), Query::N(k1)] });
                call_item(ctx, "path-proof-limits", Call::Vu { prev: r.clone(), paths: vec![(pp, key, r, vec![(k0, Some(5))])] });
            }
        }
    }
    // a verified path whose leaf does not lie under the proven path (only possible against a root
    // that is not the root of a well-formed trie): smallest case
    {
        let pp = PPE { term: TermE::Leaf(k1, 2), sibs: vec![NodeE::T] };
        let key = KeyBits::of_key(&k0);
        let r = chain_root(&pp.term, &key, &pp.sibs);
        call_item(ctx, "misplaced-leaf+self-rooted", Call::Pp { p: pp.clone(), key: key.clone(), root: r.clone(), queries: vec![Query::N(k0), Query::V(k1, 2), Query::N(k1)] });
        call_item(ctx, "misplaced-leaf+self-rooted", Call::Vu { prev: r.clone(), paths: vec![(pp, key, r, vec![(k0, Some(5))])] });
    }
    // updates: nothing / nothing to do / disorder
    let h0 = ctx.honest_proof(&k0);
    let h1 = ctx.honest_proof(&k1);
    let pu = |p: &PPE, k: &Key, ops: Vec<OpE>| (p.clone(), KeyBits::of_key(k), root.clone(), ops);
    let sets: Vec<Vec<(PPE, KeyBits, NodeE, Vec<OpE>)>> = vec![
        vec![],
        vec![pu(&h0, &k0, vec![])],
        vec![pu(&h0, &k0, vec![(k0, None)]), pu(&h1, &k1, vec![(k1, None)])],
        vec![pu(&h1, &k1, vec![(k1, None)]), pu(&h0, &k0, vec![(k0, None)])],
        vec![pu(&h0, &k0, vec![(k0, None)]), pu(&h0, &k0, vec![(k0, None)])],
        vec![pu(&h0, &k0, vec![(k0, None), (k0, Some(4))])],
        vec![pu(&h0, &k0, vec![(k1, Some(4))])],
        vec![pu(&h0, &k0, vec![(k0, Some(4)), (k1, Some(4))])],
    ];
    for ps in sets {
        call_item(ctx, "update-shapes", Call::Vu { prev: root.clone(), paths: ps.clone() });
        call_item(ctx, "update-shapes", Call::Vu { prev: NodeE::T, paths: ps });
    }
    let _ = g;
}

fn case_c18(ctx: &mut Ctx, g: &mut Gen, idx: usize) {
    if idx == 0 {
        malformed_fixed(ctx, g);
    }
    case_c08(ctx, g);
    // random malformed multi-proofs around the honest shapes of the current key set
    let root = NodeE::A(ctx.root_id[0]);
    for _ in 0..(if g.thorough { 10 } else { 5 }) {
        let (mut p, mut s) = g.random_multi(ctx);
        let fam = match g.rng.below(6) {
            0 if !p.is_empty() => {
                let i = g.rng.below(p.len() as u64) as usize;
                p[i].1 = *g.rng.pick(&[0usize, 1, 255, 256, 257, 70000, 1 << 40]);
                "depth-at-the-limits"
            }
            1 => {
                if g.rng.chance(1, 2) { s.pop(); } else { s.push(NodeE::T); }
                "sibling-count-off-by-one"
            }
            2 if !p.is_empty() => {
                let i = g.rng.below(p.len() as u64) as usize;
                let q = p[i].0.path();
                let cut = g.rng.below(q.0.len() as u64 + 1) as usize;
                p[i].0 = TermE::Term(KeyBits(q.0[..cut.min(256)].to_vec()));
                "terminator-shorter-than-depth"
            }
            3 if !p.is_empty() => {
                let x = p[g.rng.below(p.len() as u64) as usize].clone();
                p.push(x);
                if g.rng.chance(1, 2) { p.sort_by(|a, b| a.0.path().0.cmp(&b.0.path().0)); }
                "duplicate-or-unordered-paths"
            }
            4 => {
                p.clear();
                "empty-paths"
            }
            _ => "plausible",
        };
        let fake: Vec<(Key, PPE)> = p.iter().map(|(t, d)| (t.path().key(), PPE { term: t.clone(), sibs: vec![NodeE::T; (*d).min(256)] })).collect();
        let q = multi_queries(g, ctx, &fake, p.len());
        let mut ups: Vec<Vec<OpE>> = (0..2).map(|_| g.write_set(&fake)).collect();
        let f2 = g.spoil_ops(ctx, &mut ups[0]);
        let huge = p.iter().any(|x| x.1 > MODEL_NUM_CAP);
        let r = if !huge && g.rng.chance(2, 3) { None } else { Some(root.clone()) };
        call_item(ctx, &format!("malformed-{}+{}", fam, f2), Call::Multi { root: r, paths: p, sibs: s, queries: q, updates: ups });
    }
}

pub fn run_case(ctx: &mut Ctx, prop: &str, case_seed: u64, idx: usize, thorough: bool) {
    let mut rng = Rng::new(case_seed);
    let kg = KeyGen::new(&mut rng);
    let mut g = Gen { rng: &mut rng, kg, thorough, next_opaque: 0 };
    match prop {
        "C07" => case_c07(ctx, &mut g),
        "C06" => case_c06(ctx, &mut g),
        "C02" => case_c02(ctx, &mut g),
        "C08" => {
            case_c08(ctx, &mut g);
            // soundness of UPDATES through honest multi-proofs (incl. operations out of order under one
            // terminal): the C07 items, every second case
            if idx % 2 == 0 {
                case_c07(ctx, &mut g);
            }
        }
        "C18" => case_c18(ctx, &mut g, idx),
        p => panic!("core engine: no case generator for property {}", p),
    }
}

// ------------------------------------------------------------------------------------------------
// engine entry points

fn replay(file: &str, kv: &HashMap<String, String>) -> i32 {
    let txt = std::fs::read_to_string(file).expect("replay file");
    let mut prop = kv.get("prop").cloned();
    for l in txt.lines() {
        if let Some(r) = l.strip_prefix("# property ") {
            if prop.is_none() {
                prop = r.split(' ').next().map(|s| s.to_string());
            }
        }
    }
    let prop = prop.unwrap_or_else(|| "C18".into());
    let mut ctx = Ctx::new(&prop);
    let mut n_items = 0;
    for l in txt.lines() {
        let l = l.trim();
        if l.is_empty() || l.starts_with('#') {
            continue;
        }
        if let Some(r) = l.strip_prefix("setkv ") {
            let mut t = r.split(' ').filter(|x| !x.is_empty());
            let slot: usize = t.next().unwrap().parse().unwrap();
            let m: BTreeMap<Key, u32> = t
                .map(|e| {
                    let (k, v) = e.split_once(':').unwrap();
                    (key_from_hex(k), v.parse().unwrap())
                })
                .collect();
            ctx.set_view(slot, &m);
            continue;
        }
        let it = Item::parse(l);
        n_items += 1;
        println!("item: {}", short(&it.to_line()));
        if let Item::Call(c) = &it {
            let o = ctx.check_call(c);
            println!("  rust : {}", o.rust.iter().map(|(k, v)| format!("{}={}", k, short(v))).collect::<Vec<_>>().join(" "));
            match &o.model {
                Some(m) => println!("  model: {}", m.iter().map(|(k, v)| format!("{}={}", k, short(v))).collect::<Vec<_>>().join(" ")),
                None => println!("  model: (not run: a number is too large for the model)"),
            }
        } else {
            ctx.check_item(&it);
        }
    }
    println!("replayed {} item(s) under property {}: {} violation(s)", n_items, prop, ctx.viol.len());
    for v in &ctx.viol {
        println!("VIOLATION sig={} {}", v.sig, v.detail);
    }
    if ctx.viol.is_empty() { 0 } else { 1 }
}

struct CaseRes {
    idx: usize,
    viol: Vec<Viol>,
    harness_panic: Option<String>,
}

pub fn cmd_core(kv: &HashMap<String, String>) -> i32 {
    if let Some(f) = kv.get("replay") {
        return replay(f, kv);
    }
    let prop = kv.get("prop").cloned().expect("--prop");
    let thorough = kv.get("tier").map(|t| t == "thorough").unwrap_or(false);
    let seed: u64 = kv.get("seed").and_then(|s| s.parse().ok()).unwrap_or(1);
    let default_n = match (prop.as_str(), thorough) {
        ("C02", false) | ("C06", false) => 160,
        ("C02", true) | ("C06", true) => 2000,
        (_, false) => 96,
        (_, true) => 1200,
    };
    let n: usize = kv.get("n").and_then(|s| s.parse().ok()).unwrap_or(default_n);
    let out = kv.get("out").cloned().expect("--out");
    let replay_dir = kv.get("replays").cloned().unwrap_or_else(|| format!("/verif/replays/{}", prop));
    let threads: usize = kv.get("threads").and_then(|s| s.parse().ok()).unwrap_or(12);
    std::fs::create_dir_all(&replay_dir).ok();
    // only this engine's old replay files are removed
    if let Ok(rd) = std::fs::read_dir(&replay_dir) {
        for e in rd.filter_map(|e| e.ok()) {
            if e.file_name().to_string_lossy().starts_with(&format!("{}-core-", prop)) {
                let _ = std::fs::remove_file(e.path());
            }
        }
    }
    let t0 = std::time::Instant::now();
    let mut rng = Rng::new(seed ^ 0xC0DE);
    let seeds: Vec<u64> = (0..n).map(|_| rng.next()).collect();
    let next = Arc::new(Mutex::new(0usize));
    let results: Arc<Mutex<Vec<CaseRes>>> = Arc::new(Mutex::new(Vec::new()));
    let totals: Arc<Mutex<(Counters, u64, Vec<(String, bool)>)>> = Arc::new(Mutex::new((Counters::default(), 0, Vec::new())));
    let seeds = Arc::new(seeds);
    let mut hs = Vec::new();
    for _ in 0..threads.min(n).max(1) {
        let (next, results, totals, seeds, prop) = (next.clone(), results.clone(), totals.clone(), seeds.clone(), prop.clone());
        hs.push(std::thread::spawn(move || {
            let mut ctx = Ctx::new(&prop);
            loop {
                let i = {
                    let mut g = next.lock().unwrap();
                    let i = *g;
                    *g += 1;
                    i
                };
                if i >= seeds.len() {
                    break;
                }
                let r = catch_unwind(AssertUnwindSafe(|| run_case(&mut ctx, &prop, seeds[i], i, thorough)));
                let hp = r.err().map(|e| e.downcast_ref::<String>().cloned().or_else(|| e.downcast_ref::<&str>().map(|s| s.to_string())).unwrap_or_else(|| "panic".into()));
                let viol = std::mem::take(&mut ctx.viol);
                results.lock().unwrap().push(CaseRes { idx: i, viol, harness_panic: hp.clone() });
                if hp.is_some() {
                    // the model process may be out of step: start afresh
                    let (st, ev, ln) = (std::mem::take(&mut ctx.stats), ctx.evals, std::mem::take(&mut ctx.lines));
                    let mut t = totals.lock().unwrap();
                    t.0.merge(&st);
                    t.1 += ev;
                    t.2.extend(ln);
                    drop(t);
                    ctx = Ctx::new(&prop);
                }
            }
            let mut t = totals.lock().unwrap();
            t.0.merge(&ctx.stats);
            t.1 += ctx.evals;
            t.2.extend(std::mem::take(&mut ctx.lines));
        }));
    }
    for h in hs {
        h.join().unwrap();
    }
    let mut results = std::mem::take(&mut *results.lock().unwrap());
    results.sort_by_key(|r| r.idx);
    let (stats, evals, lines) = std::mem::take(&mut *totals.lock().unwrap());

    let mut violations: Vec<J> = Vec::new();
    let mut per_sig: BTreeMap<String, usize> = BTreeMap::new();
    for r in &results {
        if let Some(p) = &r.harness_panic {
            let path = format!("{}/{}-core-seed{}-{}-harness.txt", replay_dir, prop, seed, r.idx);
            std::fs::write(&path, format!("# property {} sig harness\n# harness panic in case {} (case seed {}): {}\n", prop, r.idx, seeds[r.idx], p)).unwrap();
            violations.push(J::obj(vec![("replay", J::s(path)), ("sig", J::s("harness")), ("kind", J::s("harness")), ("detail", J::s(format!("harness panic: {}", p)))]));
        }
        for (vi, v) in r.viol.iter().enumerate() {
            let c = per_sig.entry(v.sig.clone()).or_default();
            *c += 1;
            if *c > 8 {
                continue; // counted, not written
            }
            let path = format!("{}/{}-core-seed{}-{}-{}.txt", replay_dir, prop, seed, r.idx, vi);
            std::fs::write(&path, format!("# property {} sig {}\n# {}\n# re-run: nv core --replay {}\n{}", prop, v.sig, v.detail.replace('\n', " "), path, v.replay)).unwrap();
            violations.push(J::obj(vec![("replay", J::s(path)), ("sig", J::s(v.sig.clone())), ("kind", J::s(v.sig.clone())), ("detail", J::s(v.detail.clone()))]));
        }
    }
    let distinct: HashSet<&String> = lines.iter().filter(|l| l.1).map(|l| &l.0).collect();
    let samples: Vec<J> = lines.iter().filter(|l| l.1).take(2).map(|l| J::s(short(&l.0))).collect();
    // statistics: families, outcome classes per function and side
    let mut fam: Vec<(String, J)> = Vec::new();
    let mut cls: Vec<(String, J)> = Vec::new();
    let mut other: Vec<(String, J)> = Vec::new();
    for (k, v) in &stats.0 {
        if let Some(f) = k.strip_prefix("family.") {
            fam.push((f.to_string(), J::Int(*v as i64)));
        } else if k.contains(".rust.") || k.contains(".model.") || k.contains("model-skipped") {
            cls.push((k.clone(), J::Int(*v as i64)));
        } else {
            other.push((k.clone(), J::Int(*v as i64)));
        }
    }
    let g = |k: &str| stats.0.get(k).copied().unwrap_or(0);
    let health = J::obj(vec![
        ("path_proof_verifications", J::Int((g("pp.verify.rust.ok") + g("pp.verify.rust.err:RootMismatch") + g("pp.verify.rust.err:TooManySiblings") + g("pp.verify.rust.panic")) as i64)),
        ("path_proof_verifications_accepted", J::Int(g("pp.verify.rust.ok") as i64)),
        ("multi_proof_verifications", J::Int(stats.0.iter().filter(|(k, _)| k.starts_with("multi.verify.rust.")).map(|(_, v)| *v).sum::<u64>() as i64)),
        ("multi_proof_verifications_accepted", J::Int(g("multi.verify.rust.ok") as i64)),
        ("multi_proof_updates_run", J::Int(stats.0.iter().filter(|(k, _)| k.starts_with("multi.u.rust.")).map(|(_, v)| *v).sum::<u64>() as i64)),
        ("multi_proof_updates_ok", J::Int(g("multi.u.rust.ok") as i64)),
        ("path_updates_run", J::Int(stats.0.iter().filter(|(k, _)| k.starts_with("vu.result.rust.")).map(|(_, v)| *v).sum::<u64>() as i64)),
        ("path_updates_ok", J::Int(g("vu.result.rust.ok") as i64)),
    ]);
    let j = J::obj(vec![
        ("engine", J::s("core")),
        ("property", J::s(prop.clone())),
        ("evaluations", J::Int(evals as i64)),
        ("distinct_nontrivial", J::Int(distinct.len() as i64)),
        ("rule", J::s("one evaluation = one observable of one function call (verification verdict, each confirm_* / find_index_for answer, each verify_update / build_trie / from_path_proofs result) computed by nomt-core under catch_unwind and by the extracted Coq mirror on the same object and compared (class and value; roots as 32 bytes after evaluating the model's term with Blake3); distinct = distinct call text; non-trivial = the verification walked the whole object (accepted, or rejected only by the final root comparison)")),
        ("cases", J::Int(n as i64)),
        ("calls", J::Int(lines.len() as i64)),
        ("stats", J::obj(vec![("families", J::Obj(fam)), ("outcome_classes", J::Obj(cls)), ("other", J::Obj(other)), ("generator_health", health), ("violations_per_sig", J::Obj(per_sig.iter().map(|(k, v)| (k.clone(), J::Int(*v as i64))).collect()))])),
        ("samples", J::Arr(samples)),
        ("violations", J::Arr(violations.clone())),
        ("wall_s", J::Num(t0.elapsed().as_secs_f64())),
    ]);
    std::fs::write(&out, j.to_string()).unwrap();
    if violations.is_empty() { 0 } else { 1 }
}
