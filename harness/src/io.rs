//! E-io: crash-point and fault-point enumeration over the real I/O events of an operation.
//!
//! The target operation runs in a child process with the observer (tools/shim.c) preloaded. The
//! child dies at event k (or event k fails); the parent reopens the directory and compares what
//! it finds with the two states the Coq Store specification allows: exactly the state before the
//! operation or exactly the state after it.

use crate::gen::*;
use crate::json::J;
use crate::model::{eval_table, Model};
use crate::sys::{Acc, Cfg, Mask, Op, Runner};
use crate::util::{hex, key_from_hex, value_bytes, Key, Rng};
use nomt::hasher::Blake3Hasher;
use nomt::{KeyReadWrite, Nomt, Options, Overlay, FinishedSession, Session, SessionParams};
use std::collections::{BTreeMap, HashMap};
use std::path::{Path, PathBuf};
use std::process::Command;

type H = Blake3Hasher;

// ------------------------------------------------------------------------------------------
// child side: execute ops without a model, print one result line per op
// ------------------------------------------------------------------------------------------

fn ctl(cmd: i32) -> i32 {
    type Ctl = unsafe extern "C" fn(i32) -> i32;
    unsafe {
        let sym = libc::dlsym(libc::RTLD_DEFAULT, b"nomt_verif_ctl\0".as_ptr() as *const libc::c_char);
        if sym.is_null() {
            return -1;
        }
        let f: Ctl = std::mem::transmute(sym);
        f(cmd)
    }
}

pub fn child_main(dir: &str, script: &str) -> i32 {
    let ops = crate::sys::script_from_text(&std::fs::read_to_string(script).expect("script"));
    let dir = PathBuf::from(dir);
    let mut db: Option<Nomt<H>> = None;
    let mut sessions: HashMap<u32, Session<H>> = HashMap::new();
    let mut finished: HashMap<u32, FinishedSession> = HashMap::new();
    let mut overlays: HashMap<u32, Overlay> = HashMap::new();
    for (i, op) in ops.iter().enumerate() {
        let res: String = match op {
            Op::Arm => {
                ctl(1);
                "ok".into()
            }
            Op::Disarm => {
                ctl(0);
                "ok".into()
            }
            Op::Open(cfg) => match {
                // a previous handle's background threads may still be releasing the lock (C20's business)
                let mut r = std::panic::catch_unwind(|| Nomt::<H>::open(cfg.options(&dir)));
                let mut tries = 0;
                while let Ok(Err(e)) = &r {
                    if tries > 200 || !(format!("{:#}", e).contains("lock") || crate::util::dir_lock_busy(dir.as_path())) {
                        break;
                    }
                    tries += 1;
                    std::thread::sleep(std::time::Duration::from_millis(10));
                    r = std::panic::catch_unwind(|| Nomt::<H>::open(cfg.options(&dir)));
                }
                r
            } {
                Ok(Ok(d)) => {
                    db = Some(d);
                    "ok".into()
                }
                Ok(Err(e)) => format!("err {}", format!("{:#}", e).replace('\n', " ")),
                Err(_) => "panic".into(),
            },
            Op::Close => {
                sessions.clear();
                finished.clear();
                overlays.clear();
                db.take();
                "ok".into()
            }
            Op::Begin { s, chain, .. } => {
                let refs: Vec<&Overlay> = chain.iter().filter_map(|c| overlays.get(c)).collect();
                match SessionParams::default().overlay(refs) {
                    Ok(p) => {
                        sessions.insert(*s, db.as_ref().unwrap().begin_session(p));
                        "ok".into()
                    }
                    Err(e) => format!("err {:?}", e),
                }
            }
            Op::Finish { s, c, batch } => {
                let sess = sessions.remove(s).unwrap();
                let mut actuals = Vec::new();
                for (k, a) in batch {
                    match a {
                        Acc::Read => actuals.push((*k, KeyReadWrite::Read(sess.read(*k).unwrap()))),
                        Acc::Write(d) => actuals.push((*k, KeyReadWrite::Write(d.map(|d| value_bytes(d.0, d.1))))),
                        Acc::ReadWrite(d) => {
                            let prior = sess.read(*k).unwrap();
                            actuals.push((*k, KeyReadWrite::ReadThenWrite(prior, d.map(|d| value_bytes(d.0, d.1)))))
                        }
                    }
                }
                match std::panic::catch_unwind(std::panic::AssertUnwindSafe(|| sess.finish(actuals))) {
                    Ok(Ok(f)) => {
                        finished.insert(*c, f);
                        "ok".into()
                    }
                    Ok(Err(e)) => format!("err {:#}", e),
                    Err(_) => "panic".into(),
                }
            }
            Op::Overlay { c } => {
                let f = finished.remove(c).unwrap();
                overlays.insert(*c, f.into_overlay());
                "ok".into()
            }
            Op::Commit { c, nb } => {
                let d = db.as_ref().unwrap();
                let r = std::panic::catch_unwind(std::panic::AssertUnwindSafe(|| {
                    if let Some(f) = finished.remove(c) {
                        if *nb {
                            f.try_commit_nonblocking(d).map(|x| x.is_none())
                        } else {
                            f.commit(d).map(|_| true)
                        }
                    } else if let Some(o) = overlays.remove(c) {
                        if *nb {
                            o.try_commit_nonblocking(d).map(|x| x.is_none())
                        } else {
                            o.commit(d).map(|_| true)
                        }
                    } else {
                        Err(anyhow::anyhow!("unknown changeset"))
                    }
                }));
                match r {
                    Ok(Ok(true)) => format!("ok poisoned={}", d.is_poisoned() as u8),
                    Ok(Ok(false)) => "deferred".into(),
                    Ok(Err(e)) => format!("err poisoned={} {}", d.is_poisoned() as u8, format!("{:#}", e).replace('\n', " ")),
                    Err(_) => format!("panic poisoned={}", d.is_poisoned() as u8),
                }
            }
            Op::Rollback(n) => {
                let d = db.as_ref().unwrap();
                match std::panic::catch_unwind(std::panic::AssertUnwindSafe(|| d.rollback(*n))) {
                    Ok(Ok(())) => format!("ok poisoned={}", d.is_poisoned() as u8),
                    Ok(Err(e)) => format!("err poisoned={} {}", d.is_poisoned() as u8, format!("{:#}", e).replace('\n', " ")),
                    Err(_) => format!("panic poisoned={}", d.is_poisoned() as u8),
                }
            }
            Op::DropS { s } => {
                sessions.remove(s);
                "ok".into()
            }
            Op::DropC { c } => {
                finished.remove(c);
                overlays.remove(c);
                "ok".into()
            }
            _ => "skip".into(),
        };
        println!("OP {} {}", i, res);
        use std::io::Write;
        std::io::stdout().flush().ok();
    }
    drop(sessions);
    drop(finished);
    drop(overlays);
    drop(db);
    println!("DONE");
    0
}

// ------------------------------------------------------------------------------------------
// parent side
// ------------------------------------------------------------------------------------------

pub fn copy_dir(from: &Path, to: &Path) {
    let _ = std::fs::remove_dir_all(to);
    std::fs::create_dir_all(to).unwrap();
    for e in std::fs::read_dir(from).unwrap() {
        let e = e.unwrap();
        let p = e.path();
        if p.is_file() {
            // sparse-aware copy keeps the 16 MiB hash table file cheap
            let status = Command::new("cp").arg("--sparse=always").arg(&p).arg(to.join(e.file_name())).status().unwrap();
            assert!(status.success());
        }
    }
}

#[derive(Clone, Debug)]
pub struct Event {
    pub seq: u64,
    pub armed: Option<u64>,
    pub tid: u64,
    pub kind: String,
    pub path: String,
    pub off: u64,
    pub len: u64,
    pub ret: Option<i64>,
    pub fault: Option<String>,
}

pub fn parse_log(path: &Path) -> Vec<Event> {
    let txt = std::fs::read_to_string(path).unwrap_or_default();
    let mut evs: Vec<Event> = Vec::new();
    let mut idx: HashMap<u64, usize> = HashMap::new();
    for l in txt.lines() {
        let t: Vec<&str> = l.split(' ').collect();
        match t[0] {
            "E" if t.len() >= 8 => {
                let seq: u64 = t[1].parse().unwrap();
                idx.insert(seq, evs.len());
                evs.push(Event {
                    seq,
                    armed: t[2].parse().ok(),
                    tid: t[3].parse().unwrap(),
                    kind: t[4].to_string(),
                    path: t[5].to_string(),
                    off: t[6].parse::<i64>().unwrap_or(0).max(0) as u64,
                    len: t[7].parse::<i64>().unwrap_or(0).max(0) as u64,
                    ret: None,
                    fault: None,
                });
            }
            "R" => {
                if let Some(i) = idx.get(&t[1].parse().unwrap()) {
                    evs[*i].ret = t[2].parse().ok();
                }
            }
            "X" => {
                if let Some(i) = idx.get(&t[1].parse().unwrap()) {
                    evs[*i].fault = Some(t[2].to_string());
                }
            }
            _ => {}
        }
    }
    evs
}

pub struct ChildRun {
    pub code: Option<i32>,
    pub stdout: String,
    pub events: Vec<Event>,
}

pub fn run_child(dir: &Path, script: &Path, mode: &str, at: i64, when: &str, log: &Path, timeout_s: u64) -> ChildRun {
    let _ = std::fs::remove_file(log);
    let exe = std::env::current_exe().unwrap();
    let mut cmd = Command::new("timeout");
    cmd.arg(format!("{}", timeout_s))
        .arg(exe)
        .arg("iochild")
        .arg(dir)
        .arg(script)
        .env("LD_PRELOAD", "/verif/.cache/shim.so")
        .env("NOMT_VERIF_DIR", dir)
        .env("NOMT_VERIF_LOG", log)
        .env("NOMT_VERIF_MODE", mode)
        .env("NOMT_VERIF_AT", at.to_string())
        .env("NOMT_VERIF_WHEN", when)
        .env("RUST_BACKTRACE", "0")
        .stderr(std::process::Stdio::null());
    let out = cmd.output().expect("child");
    ChildRun { code: out.status.code(), stdout: String::from_utf8_lossy(&out.stdout).to_string(), events: parse_log(log) }
}

/// expected abstract state: values of the touched keys, root, seqn
#[derive(Clone, Debug)]
pub struct Expect {
    pub kv: BTreeMap<Key, u32>,
    pub root: [u8; 32],
    pub seqn: u32,
    /// (h, root): the rollback log of this state holds h commits; rolling all of them back gives
    /// this root (None: rollback disabled or nothing logged)
    pub deep: Option<(usize, [u8; 32])>,
}

/// the deepest rollback the model state allows and the root it leads to (model state unchanged)
pub fn deep_of(model: &mut Model, vhash: &dyn Fn(u32) -> [u8; 32]) -> Option<(usize, [u8; 32])> {
    let h: usize = model.ask("histlen").parse().unwrap_or(0);
    if h == 0 {
        return None;
    }
    model.expect_ok("save deep__");
    let r = model.ask(&format!("rollback {}", h));
    let res = if r == "ok" {
        model.expect_ok("viewcur");
        let t = eval_table::<H>(&model.ask_multi("table"), vhash);
        Some((h, t.root))
    } else {
        None
    };
    model.expect_ok("load deep__");
    model.expect_ok("viewcur");
    res
}

pub struct Ctx {
    pub runner: Runner<H>,
    pub vhash: HashMap<u32, [u8; 32]>,
    pub vbytes: HashMap<u32, Vec<u8>>,
}

#[allow(dead_code)]
fn model_expect(model: &mut Model, vhash: &dyn Fn(u32) -> [u8; 32]) -> Expect {
    model.expect_ok("viewcur");
    let dump = model.ask_multi("dump");
    let mut kv = BTreeMap::new();
    for l in dump {
        let (k, v) = l.split_once(' ').unwrap();
        kv.insert(key_from_hex(k), v.parse().unwrap());
    }
    let t = eval_table::<H>(&model.ask_multi("table"), vhash);
    let seqn: u32 = model.ask("seqn").parse().unwrap();
    let deep = deep_of(model, vhash);
    Expect { kv, root: t.root, seqn, deep }
}

/// Open the directory in this process and compare with the expected states; returns which one
/// matched (0 = old, 1 = new) or a description of the failure.
pub fn verify_dir(dir: &Path, cfg: &Cfg, cands: &[&Expect], keys: &[Key], vid_of: &dyn Fn(&[u8]) -> Option<u32>) -> Result<usize, String> {
    verify_dir_ex(dir, cfg, cands, keys, vid_of, false)
}

/// `deep`: finally roll back as many commits as the matched state's rollback log must hold (this
/// changes the directory, so only where it is not used afterwards)
pub fn verify_dir_ex(dir: &Path, cfg: &Cfg, cands: &[&Expect], keys: &[Key], vid_of: &dyn Fn(&[u8]) -> Option<u32>, deep: bool) -> Result<usize, String> {
    let mut r = std::panic::catch_unwind(|| Nomt::<H>::open(cfg.options(&dir.to_path_buf())));
    let mut tries = 0;
    while let Ok(Err(e)) = &r {
        if tries > 100 || !(format!("{:#}", e).contains("lock") || crate::util::dir_lock_busy(dir)) {
            break;
        }
        tries += 1;
        std::thread::sleep(std::time::Duration::from_millis(10));
        r = std::panic::catch_unwind(|| Nomt::<H>::open(cfg.options(&dir.to_path_buf())));
    }
    let db = match r {
        Ok(Ok(db)) => db,
        Ok(Err(e)) => return Err(format!("the directory cannot be opened: {:#}", e)),
        Err(_) => return Err("opening the directory panics".into()),
    };
    let root = db.root().into_inner();
    let seqn = db.sync_seqn();
    let which = match cands.iter().position(|c| c.root == root) {
        Some(w) => w,
        None => {
            return Err(format!(
                "root {} is neither the root before the operation ({}) nor the one after it ({})",
                hex(&root),
                hex(&cands[0].root),
                cands.get(1).map(|c| hex(&c.root)).unwrap_or_default()
            ))
        }
    };
    // if old and new roots coincide (no-op batch) prefer the one whose seqn matches
    let which = if cands.len() > 1 && cands[0].root == cands[1].root && cands[1].seqn == seqn { 1 } else { which };
    let exp = cands[which];
    if seqn != exp.seqn {
        return Err(format!("root is the {} state's but the sync sequence number is {} (expected {})", if which == 0 { "old" } else { "new" }, seqn, exp.seqn));
    }
    let sess = db.begin_session(SessionParams::default());
    for k in keys {
        let got = match std::panic::catch_unwind(std::panic::AssertUnwindSafe(|| db.read(*k))) {
            Ok(Ok(v)) => v,
            Ok(Err(e)) => return Err(format!("read of {} fails: {:#}", hex(k), e)),
            Err(_) => return Err(format!("read of {} panics", hex(k))),
        };
        let got_id = got.as_ref().map(|b| vid_of(b).unwrap_or(u32::MAX));
        let want = exp.kv.get(k).copied();
        if got_id != want {
            return Err(format!("root and seqn are the {} state's but key {} reads value id {:?} instead of {:?}", if which == 0 { "old" } else { "new" }, hex(k), got_id, want));
        }
    }
    // proofs for a sample of keys verify against the root
    // proofs read the merkle pages themselves (root and values alone do not): check them all for
    // moderate key counts, a sample beyond
    for k in keys.iter().step_by(if keys.len() <= 400 { 1 } else { keys.len() / 200 }) {
        use bitvec::prelude::*;
        match std::panic::catch_unwind(std::panic::AssertUnwindSafe(|| sess.prove(*k))) {
            Ok(Ok(p)) => {
                if p.verify::<H>(k.view_bits::<Msb0>(), root).is_err() {
                    return Err(format!("proof for {} does not verify after recovery", hex(k)));
                }
            }
            Ok(Err(e)) => return Err(format!("prove {} fails: {:#}", hex(k), e)),
            Err(_) => return Err(format!("prove {} panics after recovery", hex(k))),
        }
    }
    drop(sess);
    if let (true, Some((h, want))) = (deep, exp.deep) {
        match std::panic::catch_unwind(std::panic::AssertUnwindSafe(|| db.rollback(h))) {
            Ok(Ok(())) => {
                let got = db.root().into_inner();
                if got != want {
                    return Err(format!("rolling back the {} logged commits of the recovered ({}) state gives root {} instead of {}", h, if which == 0 { "old" } else { "new" }, hex(&got), hex(&want)));
                }
            }
            Ok(Err(e)) => return Err(format!("the recovered ({}) state must be able to roll back {} commits: {:#}", if which == 0 { "old" } else { "new" }, h, e)),
            Err(_) => return Err(format!("rollback({}) on the recovered state panics", h)),
        }
    }
    drop(db);
    Ok(which)
}

pub struct IoScenario {
    pub cfg: Cfg,
    pub prefix: Vec<Op>,
    pub prep: Vec<Op>,   // runs in the child before arming (begin/finish/overlay)
    pub target: Vec<Op>, // the armed operation(s)
    pub cont: Vec<Op>,   // a further commit after recovery
    pub label: String,
}

pub fn gen_io_scenario(rng: &mut Rng, thorough: bool, idx: usize) -> IoScenario {
    let mut kg = KeyGen::new(rng);
    let mut live = Live::default();
    let mut cfg = gen_cfg(rng);
    // the target kind cycles with the scenario index so that every kind is covered in every run
    let kind = (idx % 4) as u64;
    cfg.rollback = kind == 3 || rng.chance(2, 3);
    cfg.max_len = *rng.pick(&[2u32, 3, 100]);
    cfg.ht = *rng.pick(&[1024u32, 4096]);
    cfg.cc = *rng.pick(&[1usize, 2, 4]);
    cfg.prepop = false;
    let mut prefix = vec![Op::Open(cfg.clone())];
    let (mut s, mut c) = (0u32, 0u32);
    let n_pre = rng.range(1, if thorough { 6 } else { 3 });
    for _ in 0..n_pre {
        let sz = rng.range(1, 60) as usize;
        let b = gen_batch(rng, &mut kg, &live, &BatchSpec { size: sz, mix: ValueMix::Mixed, p_delete: 25, p_read: 5, p_rw: 30, p_existing: 50 });
        live.apply(&b);
        s += 1;
        c += 1;
        prefix.extend(commit_ops(s, c, b, false));
    }
    // every third scenario: a sub-trie under one depth-2 page that the TARGET commit lifts across
    // the page-elision threshold (an elided page becomes a stored one inside the interrupted commit)
    let dense: Vec<Key> = if idx % 3 == 1 { kg.dense(rng, 12, 26) } else { vec![] };
    if !dense.is_empty() {
        let n0 = rng.range(15, 19) as usize;
        let mut b: Vec<(Key, Acc)> = dense[..n0].iter().map(|k| (*k, Acc::Write(Some(gen_value(rng, ValueMix::Small))))).collect();
        b.sort_by(|a, b| a.0.cmp(&b.0));
        live.apply(&b);
        s += 1;
        c += 1;
        prefix.extend(commit_ops(s, c, b, false));
    }
    prefix.push(Op::Close);
    let sz = rng.range(1, 40) as usize;
    let mut b = gen_batch(rng, &mut kg, &live, &BatchSpec { size: sz, mix: ValueMix::Mixed, p_delete: 30, p_read: 5, p_rw: 30, p_existing: 60 });
    if !dense.is_empty() && kind != 3 {
        for k in &dense[19..rng.range(21, 26) as usize] {
            b.push((*k, Acc::Write(Some(gen_value(rng, ValueMix::Small)))));
        }
        b.sort_by(|a, b| a.0.cmp(&b.0));
        b.dedup_by(|a, b| a.0 == b.0);
    }
    // every fifth scenario: values far beyond the 15 overflow pages a leaf cell can name (their
    // page writes outnumber what any single bookkeeping counter of the cell describes)
    if idx % 5 == 2 && kind != 3 {
        for _ in 0..rng.range(1, 3) {
            let pages = *rng.pick(&[16u64, 17, 20, 33, 64]);
            let len = (pages * 4092 - rng.below(4000)) as usize;
            b.push((rng.key(), Acc::Write(Some((len, rng.next() % 1_000_000)))));
        }
        b.sort_by(|a, b| a.0.cmp(&b.0));
        b.dedup_by(|a, b| a.0 == b.0);
    }
    s += 1;
    c += 1;
    let (prep, target, label) = match kind {
        0 | 1 => (
            vec![Op::Begin { s, chain: vec![], witness: false }, Op::Finish { s, c, batch: b }],
            vec![Op::Commit { c, nb: kind == 1 }],
            "commit",
        ),
        2 => (
            vec![Op::Begin { s, chain: vec![], witness: false }, Op::Finish { s, c, batch: b }, Op::Overlay { c }],
            vec![Op::Commit { c, nb: false }],
            "overlay-commit",
        ),
        _ => {
            // mostly one step back; sometimes as far as the log reaches (every segment file of the
            // rollback log is removed or truncated by that single operation)
            let depth = if rng.chance(1, 3) { (c as usize - 1).min(cfg.max_len as usize).max(1) } else { 1 };
            (vec![], vec![Op::Rollback(depth)], "rollback")
        }
    };
    let sz = rng.range(1, 20) as usize;
    let b2 = gen_batch(rng, &mut kg, &live, &BatchSpec { size: sz, mix: ValueMix::Small, p_delete: 30, p_read: 0, p_rw: 30, p_existing: 60 });
    let cont = commit_ops(s + 1, c + 1, b2, false);
    IoScenario { cfg, prefix, prep, target, cont, label: label.to_string() }
}

/// a rollback as far as the log reaches, with one rollback segment file per record (hook H2): the
/// single operation removes every segment file of the log
pub fn gen_rollback_all_scenario(rng: &mut Rng) -> IoScenario {
    let mut kg = KeyGen::new(rng);
    let mut live = Live::default();
    let mut cfg = gen_cfg(rng);
    cfg.rollback = true;
    cfg.max_len = *rng.pick(&[4u32, 5, 100]);
    cfg.segsz = 4096;
    cfg.ht = 4096;
    cfg.prepop = false;
    let mut prefix = vec![Op::Open(cfg.clone())];
    let n = rng.range(3, 5) as u32;
    for i in 1..=n {
        let sz = rng.range(2, 12) as usize;
        let b = gen_batch(rng, &mut kg, &live, &BatchSpec { size: sz, mix: ValueMix::Small, p_delete: 20, p_read: 0, p_rw: 30, p_existing: 50 });
        live.apply(&b);
        prefix.extend(commit_ops(i, i, b, false));
    }
    prefix.push(Op::Close);
    let depth = (n as usize).min(cfg.max_len as usize);
    let b2 = gen_batch(rng, &mut kg, &live, &BatchSpec { size: 5, mix: ValueMix::Small, p_delete: 30, p_read: 0, p_rw: 30, p_existing: 60 });
    let cont = commit_ops(n + 1, n + 1, b2, false);
    IoScenario { cfg, prefix, prep: vec![], target: vec![Op::Rollback(depth)], cont, label: "rollback-all".to_string() }
}

pub struct IoOutcome {
    pub trials: usize,
    pub events: usize,
    pub old: usize,
    pub new: usize,
    pub nested: usize,
    pub violations: Vec<(String, String, String)>, // (sig, detail, replay text)
    pub trace_sample: Vec<String>,
    pub fail_err: usize,
    pub fail_noeffect: usize,
}

fn first_idx(evs: &[Event], pred: impl Fn(&Event) -> bool) -> Option<u64> {
    evs.iter().filter(|e| e.armed.is_some()).find(|e| pred(e)).and_then(|e| e.armed)
}

/// Run one scenario. `what`: "crash" (C03) or "fail" (C14).
pub fn run_io_scenario(sc: &IoScenario, what: &str, rng: &mut Rng, max_points: usize, tag: &str) -> IoOutcome {
    let mut out = IoOutcome { trials: 0, events: 0, old: 0, new: 0, nested: 0, violations: vec![], trace_sample: vec![], fail_err: 0, fail_noeffect: 0 };
    // 1. prefix in-process with the model
    let mut runner = Runner::<H>::new(&format!("io-{}", tag), Mask::default());
    runner.keep_dir = false;
    if let Err(m) = runner.run(&sc.prefix) {
        out.violations.push(("harness-prefix".into(), format!("prefix failed: {:?}", m), String::new()));
        return out;
    }
    let base = runner.dir.clone();
    let work = crate::util::fresh_dir(&format!("iow-{}", tag));
    std::fs::create_dir_all(&work).unwrap();
    // model: old state, then apply prep+target to get new state; continuation on both
    // (the model is driven by a second, model-only pass over the ops)
    let vh = runner.vhashes_snapshot();
    let vhf = |v: u32| vh[&v];
    runner.model.expect_ok("save old");
    let old = model_expect(&mut runner.model, &vhf);
    // drive the model through prep + target
    let mut m_ops: Vec<Op> = sc.prep.clone();
    m_ops.extend(sc.target.iter().cloned());
    let new;
    let (cont_old, cont_new);
    {
        let r = &mut runner;
        r.model_only(&m_ops);
        let vh2 = r.vhashes_snapshot();
        let vhf2 = |v: u32| vh2[&v];
        new = model_expect(&mut r.model, &vhf2);
        r.model.expect_ok("save new");
        r.model_only(&sc.cont);
        let vh3 = r.vhashes_snapshot();
        let vhf3 = |v: u32| vh3[&v];
        cont_new = model_expect(&mut r.model, &vhf3);
        r.model.expect_ok("load old");
        r.model_only(&sc.cont);
        cont_old = model_expect(&mut r.model, &vhf3);
    }
    let mut keys: Vec<Key> = runner.touched.iter().copied().collect();
    for k in new.kv.keys().chain(cont_new.kv.keys()).chain(cont_old.kv.keys()) {
        if !keys.contains(k) {
            keys.push(*k);
        }
    }
    let vids = runner.vals_snapshot();
    let vid_of = |b: &[u8]| vids.get(&crate::model::digest(b)).copied();

    // scripts
    let mut child_ops = vec![Op::Open(sc.cfg.clone())];
    child_ops.extend(sc.prep.iter().cloned());
    child_ops.push(Op::Arm);
    child_ops.extend(sc.target.iter().cloned());
    child_ops.push(Op::Disarm);
    child_ops.push(Op::Close);
    let script = work.join("target.script");
    std::fs::write(&script, crate::sys::script_to_text(&child_ops)).unwrap();
    let mut cont_ops = vec![Op::Open(sc.cfg.clone())];
    cont_ops.extend(sc.cont.iter().cloned());
    cont_ops.push(Op::Close);
    let cont_script = work.join("cont.script");
    std::fs::write(&cont_script, crate::sys::script_to_text(&cont_ops)).unwrap();
    let reopen_script = work.join("reopen.script");
    std::fs::write(&reopen_script, crate::sys::script_to_text(&[Op::Arm, Op::Open(sc.cfg.clone()), Op::Disarm, Op::Close])).unwrap();

    // 2. recording run
    let d0 = work.join("rec");
    copy_dir(&base, &d0);
    let rec = run_child(&d0, &script, "record", -1, "before", &work.join("rec.log"), 120);
    let n_events = rec.events.iter().filter(|e| e.armed.is_some()).count();
    out.events = n_events;
    out.trace_sample = rec.events.iter().filter(|e| e.armed.is_some()).take(60).map(|e| format!("{} {} {} {}", e.kind, e.path, e.off, e.len)).collect();
    let replay_head = |extra: &str| -> String {
        let mut t = String::new();
        t += &format!("# E-io scenario ({}), target operation: {}\n# {}\n", what, sc.label, extra);
        t += "# --- prefix (run first, in order)\n";
        t += &crate::sys::script_to_text(&sc.prefix);
        t += "# --- child script (armed part is the target operation)\n";
        t += &crate::sys::script_to_text(&child_ops);
        t += "# --- continuation\n";
        t += &crate::sys::script_to_text(&sc.cont);
        t
    };
    if rec.code != Some(0) || !rec.stdout.contains("DONE") {
        out.violations.push(("record-run".into(), format!("the uninterrupted run of the target operation failed: exit {:?} {}", rec.code, rec.stdout.replace('\n', " | ")), replay_head("uninterrupted run fails")));
        return out;
    }
    match verify_dir(&d0, &sc.cfg, &[&new], &keys, &vid_of) {
        Ok(_) => {}
        Err(e) => {
            out.violations.push(("record-state".into(), format!("after the uninterrupted operation: {}", e), replay_head("uninterrupted run leaves a wrong state")));
            return out;
        }
    }
    // where the switch-over happens in the armed trace
    let meta_w = first_idx(&rec.events, |e| e.kind == "W" && e.path == "meta");
    let meta_s = first_idx(&rec.events, |e| e.kind == "S" && e.path == "meta");

    // 3. points
    let mut points: Vec<(u64, &str)> = Vec::new();
    for k in 0..n_events as u64 {
        points.push((k, "before"));
    }
    points.push((n_events.saturating_sub(1) as u64, "after"));
    // replay of one recorded point: VERIF_IO_ONLY=<k>:<before|after>[:<fail|failp>]
    let only: Option<(u64, String, Option<String>)> = std::env::var("VERIF_IO_ONLY").ok().and_then(|v| {
        let t: Vec<&str> = v.split(':').collect();
        Some((t.first()?.parse().ok()?, t.get(1)?.to_string(), t.get(2).map(|x| x.to_string())))
    });
    if let Some((k, when, _)) = &only {
        points = vec![(*k, if when == "after" { "after" } else { "before" })];
    }
    if points.len() > max_points {
        // always keep the neighbourhood of the switch-over, sample the rest
        let mut keep: Vec<(u64, &str)> = Vec::new();
        if let Some(m) = meta_w {
            for d in 0..6u64 {
                if m + d < n_events as u64 { keep.push((m + d, "before")); }
                if m >= d { keep.push((m - d, "before")); }
            }
        }
        if what != "crash" {
            // fault runs: half of the budget goes to the asynchronous page writes (their completions
            // are collected by counting, the place where a failure is most easily lost), latest first
            let mut uw: Vec<u64> = rec.events.iter().filter(|e| e.kind == "UW").filter_map(|e| e.armed).collect();
            uw.reverse();
            for (j, k) in uw.iter().enumerate() {
                if keep.len() >= max_points / 2 {
                    break;
                }
                if (j < 6 || rng.chance(1, 2)) && !keep.contains(&(*k, "before")) {
                    keep.push((*k, "before"));
                }
            }
        }
        while keep.len() < max_points {
            let p = points[rng.below(points.len() as u64) as usize];
            if !keep.contains(&p) {
                keep.push(p);
            }
        }
        points = keep;
    }

    for (k, when) in points {
        let dk = work.join(format!("k{}", k));
        copy_dir(&base, &dk);
        out.trials += 1;
        if what == "crash" {
            let run = run_child(&dk, &script, "crash", k as i64, when, &work.join("k.log"), 120);
            let returned_ok = run.stdout.lines().any(|l| l.starts_with("OP") && sc.target.len() == 1 && l.contains(&format!("OP {} ok", child_ops.iter().position(|o| *o == sc.target[0]).unwrap())));
            if run.code != Some(99) && run.code != Some(0) {
                out.violations.push(("crash-child".into(), format!("child exit {:?} at crash point {} {}: {}", run.code, k, when, run.stdout.replace('\n', " | ")), replay_head(&format!("crash point: event {} ({})", k, when))));
                continue;
            }
            // which outcomes are allowed
            let must_new = returned_ok || meta_s.map_or(false, |m| k > m || (k == m && when == "after"));
            let must_old = meta_w.map_or(true, |m| k < m || (k == m && when == "before"));
            // nested: sometimes crash the recovering open as well
            if rng.chance(1, 3) {
                let rrec = run_child(&dk, &reopen_script, "record", -1, "before", &work.join("r.log"), 60);
                let rn = rrec.events.iter().filter(|e| e.armed.is_some()).count();
                if rn > 0 {
                    // the recording run already recovered dk; take a fresh crashed copy
                    copy_dir(&base, &dk);
                    let _ = run_child(&dk, &script, "crash", k as i64, when, &work.join("k.log"), 120);
                    let j = rng.below(rn as u64);
                    let _ = run_child(&dk, &reopen_script, "crash", j as i64, "before", &work.join("r.log"), 60);
                    out.nested += 1;
                }
            }
            match verify_dir(&dk, &sc.cfg, &[&old, &new], &keys, &vid_of) {
                Ok(w) => {
                    if w == 0 { out.old += 1 } else { out.new += 1 }
                    if (w == 0 && must_new) || (w == 1 && must_old && old.root != new.root) {
                        out.violations.push((
                            "crash-wrong-side".into(),
                            format!("crash at event {} ({}): recovered the {} state but the {}", k, when, if w == 0 { "old" } else { "new" }, if must_new { "switch-over was already durable / the call had returned success" } else { "switch-over record had not been written" }),
                            replay_head(&format!("crash point: event {} ({})", k, when)),
                        ));
                        continue;
                    }
                    // the reopened store accepts further commits that behave as in the model
                    let c = run_child(&dk, &cont_script, "record", -1, "before", &work.join("c.log"), 120);
                    if c.code != Some(0) || !c.stdout.contains("DONE") || c.stdout.contains(" err") || c.stdout.contains("panic") {
                        out.violations.push(("crash-continue".into(), format!("crash at event {} ({}): a further commit on the recovered store fails: {}", k, when, c.stdout.replace('\n', " | ")), replay_head(&format!("crash point: event {} ({})", k, when))));
                        continue;
                    }
                    let exp = if w == 0 { &cont_old } else { &cont_new };
                    if let Err(e) = verify_dir_ex(&dk, &sc.cfg, &[exp], &keys, &vid_of, true) {
                        out.violations.push(("crash-continue".into(), format!("crash at event {} ({}): after a further commit on the recovered store: {}", k, when, e), replay_head(&format!("crash point: event {} ({})", k, when))));
                    }
                }
                Err(e) => {
                    out.violations.push(("crash-state".into(), format!("crash at event {} ({}) [{}]: {}", k, when, rec.events.iter().find(|e| e.armed == Some(k)).map(|e| format!("{} {} {}", e.kind, e.path, e.off)).unwrap_or_default(), e), replay_head(&format!("crash point: event {} ({})", k, when))));
                }
            }
        } else {
            // fail-at-k, once or persistently
            let mode = if when == "after" || rng.chance(1, 2) { "failp" } else { "fail" };
            let mode = match &only {
                Some((_, _, Some(m))) if m == "fail" => "fail",
                Some((_, _, Some(m))) if m == "failp" => "failp",
                _ => mode,
            };
            let ev = rec.events.iter().find(|e| e.armed == Some(k)).cloned();
            // only operations that can fail
            if let Some(e) = &ev {
                if ["UC", "UE", "K", "L", "M"].contains(&e.kind.as_str()) {
                    out.trials -= 1;
                    continue;
                }
            }
            // child: target, then a further commit attempt on the same handle
            let mut fops = vec![Op::Open(sc.cfg.clone())];
            fops.extend(sc.prep.iter().cloned());
            fops.push(Op::Arm);
            fops.extend(sc.target.iter().cloned());
            fops.push(Op::Disarm);
            let ti = fops.len() - 2;
            // second commit on the same handle
            for o in &sc.cont {
                fops.push(o.clone());
            }
            fops.push(Op::Close);
            let fscript = work.join("fail.script");
            std::fs::write(&fscript, crate::sys::script_to_text(&fops)).unwrap();
            let run = run_child(&dk, &fscript, mode, k as i64, "before", &work.join("f.log"), 60);
            let injected = run.events.iter().any(|e| e.fault.as_deref() == Some("fail"));
            let evs = ev.map(|e| format!("{} {} {}", e.kind, e.path, e.off)).unwrap_or_default();
            let head = replay_head(&format!("fault: event {} [{}] fails with EIO ({})", k, evs, mode));
            if !injected {
                // the run took a different path (thread timing); nothing was injected
                out.fail_noeffect += 1;
                continue;
            }
            if run.code == Some(124) {
                out.violations.push(("fail-hang".into(), format!("event {} [{}] failing ({}): the call did not return within the time limit", k, evs, mode), head));
                continue;
            }
            let tline = run.stdout.lines().find(|l| l.starts_with(&format!("OP {} ", ti))).unwrap_or("").to_string();
            let cont_commit_idx = fops.iter().enumerate().skip(ti + 2).find(|(_, o)| matches!(o, Op::Commit { .. })).map(|(i, _)| i);
            let cline = cont_commit_idx.and_then(|i| run.stdout.lines().find(|l| l.starts_with(&format!("OP {} ", i)))).unwrap_or("").to_string();
            if tline.contains(" ok") {
                out.violations.push(("fail-swallowed".into(), format!("event {} [{}] failed with EIO ({}) but the operation returned success: {}", k, evs, mode, tline), head));
                continue;
            }
            if !tline.contains("err") {
                out.violations.push(("fail-noerr".into(), format!("event {} [{}] failing ({}): the operation neither returned an error nor success: {:?} (exit {:?})", k, evs, mode, tline, run.code), head));
                continue;
            }
            out.fail_err += 1;
            if !tline.contains("poisoned=1") {
                out.violations.push(("fail-not-poisoned".into(), format!("event {} [{}] failed ({}): the operation returned an error but the handle is not poisoned: {}", k, evs, mode, tline), head));
                continue;
            }
            if !cline.contains("err") {
                out.violations.push(("fail-accepts-commit".into(), format!("event {} [{}] failed ({}): the poisoned handle accepted a further commit: {:?}", k, evs, mode, cline), head));
                continue;
            }
            match verify_dir(&dk, &sc.cfg, &[&old, &new], &keys, &vid_of) {
                Ok(w) => {
                    if w == 0 { out.old += 1 } else { out.new += 1 }
                }
                Err(e) => out.violations.push(("fail-state".into(), format!("event {} [{}] failed ({}): after reopening: {}", k, evs, mode, e), head)),
            }
        }
        let _ = std::fs::remove_dir_all(&dk);
    }
    let _ = std::fs::remove_dir_all(&work);
    out
}

/// re-run one recorded crash / fault point from a replay file written by this engine
fn replay_io(file: &str) -> i32 {
    let txt = std::fs::read_to_string(file).expect("replay file");
    let what = if txt.contains("# E-io scenario (crash)") { "crash" } else { "fail" };
    let mut only = String::new();
    for l in txt.lines() {
        if let Some(r) = l.strip_prefix("# crash point: event ") {
            // "<k> (before)"
            let k = r.split(' ').next().unwrap_or("0");
            let when = if r.contains("(after)") { "after" } else { "before" };
            only = format!("{}:{}", k, when);
        } else if let Some(r) = l.strip_prefix("# fault: event ") {
            let k = r.split(' ').next().unwrap_or("0");
            let mode = if r.contains("(failp)") { "failp" } else { "fail" };
            only = format!("{}:before:{}", k, mode);
        }
    }
    if only.is_empty() {
        println!("no crash / fault point recorded in {}", file);
        return 2;
    }
    let mut sect = 0;
    let (mut prefix, mut child, mut cont) = (Vec::new(), Vec::new(), Vec::new());
    for l in txt.lines() {
        if l.starts_with("# --- prefix") { sect = 1; continue; }
        if l.starts_with("# --- child") { sect = 2; continue; }
        if l.starts_with("# --- continuation") { sect = 3; continue; }
        if l.starts_with('#') || l.trim().is_empty() { continue; }
        match sect {
            1 => prefix.push(Op::parse(l)),
            2 => child.push(Op::parse(l)),
            3 => cont.push(Op::parse(l)),
            _ => {}
        }
    }
    let cfg = match child.first() { Some(Op::Open(c)) => c.clone(), _ => { println!("malformed replay file"); return 2; } };
    let arm = child.iter().position(|o| *o == Op::Arm).unwrap_or(1);
    let disarm = child.iter().position(|o| *o == Op::Disarm).unwrap_or(child.len());
    let sc = IoScenario { cfg, prefix, prep: child[1..arm].to_vec(), target: child[arm + 1..disarm].to_vec(), cont, label: "replay".into() };
    std::env::set_var("VERIF_IO_ONLY", &only);
    let mut rng = Rng::new(1);
    let o = run_io_scenario(&sc, what, &mut rng, 1, "replay");
    println!("replayed {} point {}: {} trial(s), {} violation(s)", what, only, o.trials, o.violations.len());
    for (sig, detail, _) in &o.violations {
        println!("violation {}: {}", sig, detail);
    }
    if o.violations.is_empty() { 0 } else { 1 }
}

pub fn cmd_io(kv: &HashMap<String, String>) -> i32 {
    if let Some(f) = kv.get("replay") {
        return replay_io(f);
    }
    let prop = kv.get("prop").cloned().expect("--prop");
    let thorough = kv.get("tier").map(|t| t == "thorough").unwrap_or(false);
    let seed: u64 = kv.get("seed").and_then(|s| s.parse().ok()).unwrap_or(1);
    let n: usize = kv.get("n").and_then(|s| s.parse().ok()).unwrap_or(4);
    let max_points: usize = kv.get("points").and_then(|s| s.parse().ok()).unwrap_or(40);
    let out = kv.get("out").cloned().expect("--out");
    let replay_dir = kv.get("replays").cloned().unwrap_or_else(|| format!("/verif/replays/{}", prop));
    let threads: usize = kv.get("threads").and_then(|s| s.parse().ok()).unwrap_or(12);
    let what = kv.get("what").cloned().unwrap_or_else(|| if prop == "C14" { "fail".into() } else { "crash".into() });
    // stale replays are removed by tools/check before the engines of a run start
    std::fs::create_dir_all(&replay_dir).ok();
    let t0 = std::time::Instant::now();
    let mut rng = Rng::new(seed);
    let scen: Vec<(IoScenario, Rng)> = (0..n).map(|i| { let mut r = rng.fork(); (gen_io_scenario(&mut r, thorough, i), r) }).collect();
    let scen = std::sync::Arc::new(std::sync::Mutex::new(scen.into_iter().enumerate().collect::<Vec<_>>()));
    let results = std::sync::Arc::new(std::sync::Mutex::new(Vec::new()));
    let mut hs = Vec::new();
    for _ in 0..threads.min(n).max(1) {
        let scen = scen.clone();
        let results = results.clone();
        let what = what.clone();
        hs.push(std::thread::spawn(move || loop {
            let item = scen.lock().unwrap().pop();
            let Some((i, (sc, mut r))) = item else { break };
            let o = std::panic::catch_unwind(std::panic::AssertUnwindSafe(|| run_io_scenario(&sc, &what, &mut r, max_points, &format!("{}", i))));
            results.lock().unwrap().push((i, sc.label.clone(), o));
        }));
    }
    for h in hs {
        h.join().unwrap();
    }
    let mut results = std::mem::take(&mut *results.lock().unwrap());
    results.sort_by_key(|r| r.0);
    let mut viol = Vec::new();
    let (mut trials, mut events, mut old, mut new, mut nested, mut ferr, mut fno) = (0, 0, 0, 0, 0, 0, 0);
    let mut samples = Vec::new();
    let mut labels: BTreeMap<String, usize> = BTreeMap::new();
    for (i, label, o) in results {
        match o {
            Ok(o) => {
                trials += o.trials;
                events += o.events;
                old += o.old;
                new += o.new;
                nested += o.nested;
                ferr += o.fail_err;
                fno += o.fail_noeffect;
                *labels.entry(label.clone()).or_default() += 1;
                if samples.len() < 2 {
                    samples.push(J::obj(vec![("target", J::s(label.clone())), ("armed_events", J::Int(o.events as i64)), ("trace", J::Arr(o.trace_sample.iter().take(40).map(|s| J::s(s.clone())).collect()))]));
                }
                for (vi, (sig, detail, replay)) in o.violations.into_iter().enumerate() {
                    let path = format!("{}/{}-{}-seed{}-{}-{}.txt", replay_dir, prop, what, seed, i, vi);
                    std::fs::write(&path, format!("# property {} sig {}\n# {}\n{}", prop, sig, detail.replace('\n', " "), replay)).unwrap();
                    viol.push(J::obj(vec![("replay", J::s(path)), ("sig", J::s(sig.clone())), ("kind", J::s(sig)), ("detail", J::s(detail))]));
                }
            }
            Err(_) => {
                let path = format!("{}/{}-{}-seed{}-{}-harness.txt", replay_dir, prop, what, seed, i);
                std::fs::write(&path, "harness panic").unwrap();
                viol.push(J::obj(vec![("replay", J::s(path)), ("sig", J::s("harness")), ("kind", J::s("harness")), ("detail", J::s("harness panic in io scenario"))]));
            }
        }
    }
    let j = J::obj(vec![
        ("engine", J::s("io")),
        ("property", J::s(prop.clone())),
        ("evaluations", J::Int(trials as i64)),
        ("distinct_nontrivial", J::Int(trials as i64)),
        ("rule", J::s(if what == "crash" {
            "one evaluation = one (history, I/O event index, before/after) crash point of the armed operation: the child process is killed there, the directory is reopened and compared with the old and new states of the Coq Store specification (root, seqn, every touched key, sample proofs), then a further commit is applied and compared; distinct by construction (distinct event indices per history)"
        } else {
            "one evaluation = one (history, I/O event index, once/persistent) injected EIO: result must be Err, handle poisoned, next commit Err, reopened directory in the old or new state of the Coq Store specification"
        })),
        ("scenarios", J::Int(n as i64)),
        ("armed_events_total", J::Int(events as i64)),
        ("recovered_old", J::Int(old as i64)),
        ("recovered_new", J::Int(new as i64)),
        ("nested_recovery_crashes", J::Int(nested as i64)),
        ("faults_reported_as_err", J::Int(ferr as i64)),
        ("faults_not_reached", J::Int(fno as i64)),
        ("targets", J::Obj(labels.into_iter().map(|(k, v)| (k, J::Int(v as i64))).collect())),
        ("samples", J::Arr(samples)),
        ("violations", J::Arr(viol.clone())),
        ("wall_s", J::Num(t0.elapsed().as_secs_f64())),
    ]);
    std::fs::write(&out, j.to_string()).unwrap();
    if viol.is_empty() { 0 } else { 1 }
}

#[allow(dead_code)]
fn _unused(_: Options) {}
