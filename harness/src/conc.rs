//! E-conc (C15): sessions see one committed state; readers and the writer exclude each other.
//!
//! Random multi-threaded programs over one handle. Every commit also writes a version key with a
//! unique stamp, so each session's reads and proofs can be checked against the exact committed
//! state the Coq Store specification has for that stamp. Time stamps of session lifetimes and of
//! successful commits / rollbacks give the exclusion check; a watchdog gives the deadlock check.

use crate::json::J;
use crate::model::{eval_table, Model};
use crate::sys::Cfg;
use crate::util::{fresh_dir, hex, Key, Rng};
use bitvec::prelude::*;
use nomt::hasher::Blake3Hasher;
use nomt::trie::LeafData;
use nomt::{KeyReadWrite, Nomt, SessionParams};
use nomt_core::hasher::ValueHasher;
use std::collections::{BTreeMap, HashMap};
use std::sync::atomic::{AtomicBool, AtomicU64, Ordering};
use std::sync::{Arc, Mutex};
use std::time::{Duration, Instant};

type H = Blake3Hasher;

const VERSION_KEY: Key = [0xEE; 32];

fn stamp_bytes(id: u64) -> Vec<u8> {
    let mut v = b"stamp-".to_vec();
    v.extend_from_slice(&id.to_le_bytes());
    v
}

fn val_bytes(x: u64) -> Vec<u8> {
    let mut v = x.to_le_bytes().to_vec();
    v.extend(std::iter::repeat((x % 251) as u8).take((x % 90) as usize));
    v
}

#[derive(Clone, Debug)]
struct CommitRec {
    id: u64,
    prev_root: [u8; 32],
    new_root: [u8; 32],
    changes: Vec<(Key, Option<u64>)>, // value descriptor (val_bytes arg); the stamp is implicit
    t_start: u128,
    t_end: u128,
    flavour: &'static str,
}

#[derive(Clone, Debug)]
struct SessionRec {
    t_begin: u128,
    t_end: u128,
    stamp: Option<u64>,
    root: [u8; 32],
    reads: Vec<(Key, Option<Vec<u8>>)>,
    proofs_ok: usize,
    proof_fail: Option<String>,
    thread: usize,
}

#[derive(Clone, Debug)]
struct RollbackRec {
    t_start: u128,
    t_end: u128,
    root_after: [u8; 32],
}

struct Shared {
    t0: Instant,
    commits: Mutex<Vec<CommitRec>>,
    sessions: Mutex<Vec<SessionRec>>,
    rollbacks: Mutex<Vec<RollbackRec>>,
    stale: AtomicU64,
    deferred: AtomicU64,
    next_id: AtomicU64,
    stop: AtomicBool,
    errors: Mutex<Vec<String>>,
}

impl Shared {
    fn now(&self) -> u128 {
        self.t0.elapsed().as_nanos()
    }
}

fn parse_stamp(v: &Option<Vec<u8>>) -> Option<u64> {
    let v = v.as_ref()?;
    if v.len() == 14 && &v[..6] == b"stamp-" {
        Some(u64::from_le_bytes(v[6..14].try_into().unwrap()))
    } else {
        None
    }
}

pub struct ConcOut {
    pub violations: Vec<(String, String)>,
    pub commits: usize,
    pub sessions: usize,
    pub reads: usize,
    pub proofs: usize,
    pub stale: u64,
    pub deferred: u64,
    pub rollbacks: usize,
    pub threads: usize,
    pub overlapping_reader_pairs: usize,
}

pub fn run_conc_case(rng: &mut Rng, idx: usize, thorough: bool) -> ConcOut {
    let mut out = ConcOut { violations: vec![], commits: 0, sessions: 0, reads: 0, proofs: 0, stale: 0, deferred: 0, rollbacks: 0, threads: 0, overlapping_reader_pairs: 0 };
    let mut cfg = crate::gen::gen_cfg(rng);
    cfg.ht = 4096;
    cfg.rollback = rng.chance(1, 3);
    cfg.max_len = 100;
    cfg.cc = *rng.pick(&[1usize, 2, 4]);
    let dir = fresh_dir(&format!("conc-{}", idx));
    let db = match Nomt::<H>::open(cfg.options(&dir)) {
        Ok(d) => Arc::new(d),
        Err(e) => {
            out.violations.push(("harness".into(), format!("open failed: {:#}", e)));
            return out;
        }
    };
    let keys: Arc<Vec<Key>> = Arc::new((0..rng.range(8, 40)).map(|_| rng.key()).collect());
    let sh = Arc::new(Shared {
        t0: Instant::now(),
        commits: Mutex::new(vec![]),
        sessions: Mutex::new(vec![]),
        rollbacks: Mutex::new(vec![]),
        stale: AtomicU64::new(0),
        deferred: AtomicU64::new(0),
        next_id: AtomicU64::new(1),
        stop: AtomicBool::new(false),
        errors: Mutex::new(vec![]),
    });
    let initial_root = db.root().into_inner();
    let n_readers = rng.range(1, 4) as usize;
    let n_writers = rng.range(1, 3) as usize;
    let with_rollback = cfg.rollback && rng.chance(1, 2);
    out.threads = n_readers + n_writers + with_rollback as usize;
    let run_ms = if thorough { 600 } else { 250 };
    let mut hs = Vec::new();
    for t in 0..n_readers {
        let (db, sh, keys) = (db.clone(), sh.clone(), keys.clone());
        let mut r = rng.fork();
        let share = rng.chance(1, 2);
        hs.push(std::thread::spawn(move || {
            while !sh.stop.load(Ordering::Relaxed) {
                let t_begin = sh.now();
                let sess = db.begin_session(SessionParams::default());
                let t_got = sh.now();
                let root = sess.prev_root().into_inner();
                let mut rec = SessionRec { t_begin: t_got, t_end: 0, stamp: None, root, reads: vec![], proofs_ok: 0, proof_fail: None, thread: t };
                let _ = t_begin;
                let sv = sess.read(VERSION_KEY).unwrap();
                rec.stamp = parse_stamp(&sv);
                rec.reads.push((VERSION_KEY, sv));
                let n = r.range(2, 10);
                let sess = Arc::new(sess);
                if share {
                    // several threads read through the same session
                    let mut inner = Vec::new();
                    for _ in 0..2 {
                        let (s2, keys, mut r2) = (sess.clone(), keys.clone(), r.fork());
                        inner.push(std::thread::spawn(move || {
                            let mut v = Vec::new();
                            for _ in 0..n {
                                let k = *r2.pick(&keys);
                                v.push((k, s2.read(k).unwrap()));
                                if r2.chance(1, 3) { std::thread::yield_now(); }
                            }
                            v
                        }));
                    }
                    for h in inner {
                        rec.reads.extend(h.join().unwrap());
                    }
                }
                for _ in 0..n {
                    let k = *r.pick(&keys);
                    let v = sess.read(k).unwrap();
                    if r.chance(1, 3) {
                        match sess.prove(k) {
                            Ok(p) => match p.verify::<H>(k.view_bits::<Msb0>(), root) {
                                Ok(vp) => {
                                    let ok = match &v {
                                        None => vp.confirm_nonexistence(&k).ok() == Some(true),
                                        Some(b) => vp.confirm_value(&LeafData { key_path: k, value_hash: H::hash_value(b) }).ok() == Some(true),
                                    };
                                    if ok { rec.proofs_ok += 1 } else { rec.proof_fail = Some(format!("proof for {} does not confirm the value the same session read", hex(&k))) }
                                }
                                Err(e) => rec.proof_fail = Some(format!("proof for {} does not verify against the session's root: {:?}", hex(&k), e)),
                            },
                            Err(e) => rec.proof_fail = Some(format!("prove failed: {:#}", e)),
                        }
                    }
                    rec.reads.push((k, v));
                    if r.chance(1, 4) {
                        std::thread::sleep(Duration::from_micros(r.below(800)));
                    }
                }
                // re-read the version at the end: must be unchanged
                let sv2 = sess.read(VERSION_KEY).unwrap();
                rec.reads.push((VERSION_KEY, sv2));
                rec.t_end = sh.now();
                drop(sess);
                sh.sessions.lock().unwrap().push(rec);
                if r.chance(1, 2) {
                    std::thread::sleep(Duration::from_micros(r.below(1500)));
                }
            }
        }));
    }
    for _ in 0..n_writers {
        let (db, sh, keys) = (db.clone(), sh.clone(), keys.clone());
        let mut r = rng.fork();
        hs.push(std::thread::spawn(move || {
            while !sh.stop.load(Ordering::Relaxed) {
                let id = sh.next_id.fetch_add(1, Ordering::Relaxed);
                let sess = db.begin_session(SessionParams::default());
                let prev_root = sess.prev_root().into_inner();
                let mut m: BTreeMap<Key, Option<u64>> = BTreeMap::new();
                for _ in 0..r.range(1, 8) {
                    let k = *r.pick(&keys);
                    m.insert(k, if r.chance(1, 4) { None } else { Some(r.next() % 100000) });
                }
                let mut actuals: Vec<(Key, KeyReadWrite)> = m.iter().map(|(k, v)| (*k, KeyReadWrite::Write(v.map(val_bytes)))).collect();
                actuals.push((VERSION_KEY, KeyReadWrite::Write(Some(stamp_bytes(id)))));
                actuals.sort_by(|a, b| a.0.cmp(&b.0));
                let fin = match sess.finish(actuals) {
                    Ok(f) => f,
                    Err(e) => {
                        sh.errors.lock().unwrap().push(format!("finish failed: {:#}", e));
                        break;
                    }
                };
                let new_root = fin.root().into_inner();
                // let other sessions interleave between finish and commit
                if r.chance(1, 2) {
                    std::thread::sleep(Duration::from_micros(r.below(1500)));
                }
                let nb = r.chance(1, 2);
                // half of the writers' commits go through an overlay (Overlay::commit /
                // Overlay::try_commit_nonblocking take the access lock on their own code path)
                let via_overlay = r.chance(1, 2);
                let t_start = sh.now();
                let res: Result<bool, String> = if via_overlay {
                    let ov = fin.into_overlay();
                    if nb {
                        let mut f = Some(ov);
                        let mut ok = Ok(false);
                        let mut tries = 0;
                        while let Some(cur) = f.take() {
                            match cur.try_commit_nonblocking(&*db) {
                                Ok(None) => { ok = Ok(true); }
                                Ok(Some(back)) => {
                                    sh.deferred.fetch_add(1, Ordering::Relaxed);
                                    tries += 1;
                                    if tries < 40 && !sh.stop.load(Ordering::Relaxed) {
                                        std::thread::sleep(Duration::from_micros(200));
                                        f = Some(back);
                                    } else {
                                        ok = Ok(false);
                                    }
                                }
                                Err(e) => ok = Err(format!("{:#}", e)),
                            }
                        }
                        ok
                    } else {
                        ov.commit(&*db).map(|_| true).map_err(|e| format!("{:#}", e))
                    }
                } else if nb {
                    let mut f = Some(fin);
                    let mut ok = Ok(false);
                    let mut tries = 0;
                    while let Some(cur) = f.take() {
                        match cur.try_commit_nonblocking(&*db) {
                            Ok(None) => { ok = Ok(true); }
                            Ok(Some(back)) => {
                                sh.deferred.fetch_add(1, Ordering::Relaxed);
                                tries += 1;
                                if tries < 40 && !sh.stop.load(Ordering::Relaxed) {
                                    std::thread::sleep(Duration::from_micros(200));
                                    f = Some(back);
                                } else {
                                    ok = Ok(false);
                                }
                            }
                            Err(e) => ok = Err(format!("{:#}", e)),
                        }
                    }
                    ok
                } else {
                    fin.commit(&*db).map(|_| true).map_err(|e| format!("{:#}", e))
                };
                let t_end = sh.now();
                match res {
                    Ok(true) => sh.commits.lock().unwrap().push(CommitRec { id, prev_root, new_root, changes: m.into_iter().collect(), t_start, t_end, flavour: match (via_overlay, nb) { (false, true) => "nb", (false, false) => "blocking", (true, true) => "overlay-nb", (true, false) => "overlay-blocking" } }),
                    Ok(false) => {}
                    Err(e) => {
                        // a refused commit leaves the handle usable (a failed one poisons it); whether the
                        // refusal was justified is judged afterwards from the chain of successful commits
                        // (a commit whose base was current at that time and that is missing shows up as
                        // a gap), not from the wording of the error
                        if !db.is_poisoned() {
                            sh.stale.fetch_add(1, Ordering::Relaxed);
                        } else {
                            sh.errors.lock().unwrap().push(format!("commit failed: {}", e));
                            break;
                        }
                    }
                }
            }
        }));
    }
    if with_rollback {
        let (db, sh) = (db.clone(), sh.clone());
        let mut r = rng.fork();
        hs.push(std::thread::spawn(move || {
            while !sh.stop.load(Ordering::Relaxed) {
                std::thread::sleep(Duration::from_millis(r.range(20, 60)));
                let t_start = sh.now();
                if db.rollback(1).is_ok() {
                    let t_end = sh.now();
                    sh.rollbacks.lock().unwrap().push(RollbackRec { t_start, t_end, root_after: db.root().into_inner() });
                }
            }
        }));
    }
    // watchdog
    let deadline = Instant::now() + Duration::from_millis(run_ms);
    while Instant::now() < deadline {
        std::thread::sleep(Duration::from_millis(10));
    }
    sh.stop.store(true, Ordering::Relaxed);
    let join_deadline = Instant::now() + Duration::from_secs(20);
    let mut hung = false;
    for h in hs {
        while !h.is_finished() {
            if Instant::now() > join_deadline {
                hung = true;
                break;
            }
            std::thread::sleep(Duration::from_millis(5));
        }
        if hung {
            break;
        }
        let _ = h.join();
    }
    let desc = format!("cfg [{}] readers={} writers={} rollback_thread={} keys={}", cfg.to_line(), n_readers, n_writers, with_rollback, keys.len());
    if hung {
        out.violations.push(("c15-deadlock".into(), format!("threads did not finish within 20 s after being told to stop ({})", desc)));
        // cannot clean up safely
        std::mem::forget(db);
        return out;
    }
    for e in sh.errors.lock().unwrap().iter() {
        out.violations.push(("c15-error".into(), format!("{} ({})", e, desc)));
    }
    let commits = sh.commits.lock().unwrap().clone();
    let sessions = sh.sessions.lock().unwrap().clone();
    let rollbacks = sh.rollbacks.lock().unwrap().clone();
    out.commits = commits.len();
    out.sessions = sessions.len();
    out.stale = sh.stale.load(Ordering::Relaxed);
    out.deferred = sh.deferred.load(Ordering::Relaxed);
    out.rollbacks = rollbacks.len();

    // ---- serialisation: order the state-changing operations by completion time and replay them in the model
    #[derive(Clone)]
    enum Ev { C(usize), R(usize) }
    let mut evs: Vec<(u128, Ev)> = commits.iter().enumerate().map(|(i, c)| (c.t_end, Ev::C(i))).collect();
    evs.extend(rollbacks.iter().enumerate().map(|(i, r)| (r.t_end, Ev::R(i))));
    evs.sort_by_key(|e| e.0);
    let mut model = Model::spawn();
    model.expect_ok(&format!("init {}", if cfg.rollback { 100 } else { -1 }));
    // value interning: id per distinct byte string
    let mut vids: HashMap<Vec<u8>, u32> = HashMap::new();
    let mut vhash: HashMap<u32, [u8; 32]> = HashMap::new();
    let mut intern = |b: Vec<u8>, vids: &mut HashMap<Vec<u8>, u32>, vhash: &mut HashMap<u32, [u8; 32]>| -> u32 {
        let n = vids.len() as u32 + 1;
        let id = *vids.entry(b.clone()).or_insert(n);
        vhash.entry(id).or_insert_with(|| H::hash_value(&b));
        id
    };
    // state after each stamp, as a map key -> bytes (from the model's dump)
    let mut state_of_stamp: HashMap<Option<u64>, HashMap<Key, Vec<u8>>> = HashMap::new();
    state_of_stamp.insert(None, HashMap::new());
    let mut cur_root = initial_root;
    let mut bytes_of: HashMap<u32, Vec<u8>> = HashMap::new();
    let mut cid = 0u32;
    // Completion time stamps are taken after the call returns, so two operations whose calls
    // overlap in time may be recorded out of order; among the operations that could have happened
    // before the earliest unfinished completion, pick one that is consistent with the current root.
    let mut unused: Vec<(u128, u128, Ev)> = evs
        .iter()
        .map(|(te, ev)| {
            let ts = match ev { Ev::C(i) => commits[*i].t_start, Ev::R(i) => rollbacks[*i].t_start };
            (ts, *te, ev.clone())
        })
        .collect();
    while !unused.is_empty() {
        let min_end = unused.iter().map(|u| u.1).min().unwrap();
        let mut cands: Vec<usize> = (0..unused.len()).filter(|i| unused[*i].0 <= min_end).collect();
        cands.sort_by_key(|i| unused[*i].1);
        let mut chosen = None;
        for ci in &cands {
            match &unused[*ci].2 {
                Ev::C(i) if commits[*i].prev_root == cur_root => { chosen = Some(*ci); break; }
                Ev::R(_) => {
                    // consistent if the model's root one snapshot back equals the observed root
                    chosen = Some(*ci);
                    break;
                }
                _ => {}
            }
        }
        let Some(ci) = chosen else {
            let c = match &unused[cands[0]].2 { Ev::C(i) => format!("commit {} ({}) with base {}", commits[*i].id, commits[*i].flavour, hex(&commits[*i].prev_root[..6])), Ev::R(_) => "rollback".into() };
            out.violations.push(("c15-wrong-winner".into(), format!("{} succeeded although its base was not the current root {} at any point consistent with the observed call intervals ({})", c, hex(&cur_root[..6]), desc)));
            return out;
        };
        let (_, _, ev) = unused.remove(ci);
        match &ev {
            Ev::C(i) => {
                let c = &commits[*i];
                cid += 1;
                let mut entries = Vec::new();
                let mut chs = c.changes.clone();
                chs.push((VERSION_KEY, Some(u64::MAX)));
                chs.sort_by(|a, b| a.0.cmp(&b.0));
                for (k, v) in &chs {
                    match v {
                        None => entries.push(format!("{}:d", hex(k))),
                        Some(x) => {
                            let b = if *k == VERSION_KEY { stamp_bytes(c.id) } else { val_bytes(*x) };
                            let id = intern(b.clone(), &mut vids, &mut vhash);
                            bytes_of.insert(id, b);
                            entries.push(format!("{}:w{}", hex(k), id));
                        }
                    }
                }
                model.expect_ok(&format!("finish {} -- {}", cid, entries.join(" ")));
                let r = model.ask(&format!("commit {} 0", cid));
                assert_eq!(r, "ok");
                model.expect_ok("viewcur");
                let t = eval_table::<H>(&model.ask_multi("table"), &|v| vhash[&v]);
                if t.root != c.new_root {
                    out.violations.push(("c15-lost-commit".into(), format!("after applying the successful commits in order the canonical root {} differs from the root {} commit {} reported ({})", hex(&t.root[..6]), hex(&c.new_root[..6]), c.id, desc)));
                    return out;
                }
                cur_root = c.new_root;
                let mut m = HashMap::new();
                for l in model.ask_multi("dump") {
                    let (k, v) = l.split_once(' ').unwrap();
                    m.insert(crate::util::key_from_hex(k), bytes_of[&v.parse::<u32>().unwrap()].clone());
                }
                state_of_stamp.insert(Some(c.id), m);
            }
            Ev::R(i) => {
                let r = model.ask("rollback 1");
                if r != "ok" {
                    out.violations.push(("c15-rollback-order".into(), format!("a rollback succeeded where the model has nothing to roll back ({})", desc)));
                    return out;
                }
                model.expect_ok("viewcur");
                let t = eval_table::<H>(&model.ask_multi("table"), &|v| vhash[&v]);
                cur_root = t.root;
                let _ = rollbacks[*i].root_after; // the root read after the call may already include a later commit
            }
        }
    }
    let final_root = db.root().into_inner();
    if final_root != cur_root {
        out.violations.push(("c15-lost-commit".into(), format!("final root {} is not the root of the last successful operation {} ({})", hex(&final_root[..6]), hex(&cur_root[..6]), desc)));
    }

    // ---- snapshot: every read of a session equals the state of the stamp it saw first
    for s in &sessions {
        out.reads += s.reads.len();
        out.proofs += s.proofs_ok;
        if let Some(e) = &s.proof_fail {
            out.violations.push(("c15-proof".into(), format!("{} ({})", e, desc)));
        }
        let Some(state) = state_of_stamp.get(&s.stamp) else {
            out.violations.push(("c15-unknown-stamp".into(), format!("a session read version stamp {:?} which no successful commit wrote ({})", s.stamp, desc)));
            continue;
        };
        for (k, v) in &s.reads {
            let want = state.get(k);
            if v.as_ref() != want {
                out.violations.push(("c15-torn-read".into(), format!("a session that began on the state with stamp {:?} read key {} = {:?} but that state has {:?} ({})", s.stamp, hex(&k[..6]), v.as_ref().map(|b| b.len()), want.map(|b| b.len()), desc)));
                break;
            }
        }
    }

    // ---- exclusion: no state-changing operation completes entirely inside a session's lifetime
    let mut ops: Vec<(u128, u128, String)> = commits.iter().map(|c| (c.t_start, c.t_end, format!("commit {} ({})", c.id, c.flavour))).collect();
    ops.extend(rollbacks.iter().map(|r| (r.t_start, r.t_end, "rollback".to_string())));
    for s in &sessions {
        for (a, b, what) in &ops {
            if s.t_begin < *a && *b < s.t_end {
                out.violations.push(("c15-writer-during-session".into(), format!("{} started and returned success while a session (thread {}) was alive throughout ({})", what, s.thread, desc)));
            }
        }
    }
    for i in 0..sessions.len() {
        for j in i + 1..sessions.len() {
            if sessions[i].thread != sessions[j].thread && sessions[i].t_begin < sessions[j].t_end && sessions[j].t_begin < sessions[i].t_end {
                out.overlapping_reader_pairs += 1;
            }
        }
    }
    drop(db);
    let _ = std::fs::remove_dir_all(&dir);
    out
}

/// A writer whose blocking commit is queued BEHIND a live session while that session finishes a
/// large batch: the session's change set (root, witness) must be computed on the state the session
/// began on - the root must be the one a sequential reference store reports for "base, then the
/// session's batch", every witnessed path proof must verify against the session's `prev_root` - and
/// the writer's commit must not complete before the session's `finish` has returned.
pub fn run_blocked_writer_case(rng: &mut Rng, idx: usize) -> ConcOut {
    let mut out = ConcOut { violations: vec![], commits: 0, sessions: 0, reads: 0, proofs: 0, stale: 0, deferred: 0, rollbacks: 0, threads: 2, overlapping_reader_pairs: 0 };
    let mut cfg = crate::gen::gen_cfg(rng);
    cfg.ht = 64000;
    cfg.rollback = false;
    cfg.cc = *rng.pick(&[1usize, 2, 4]);
    let dir = fresh_dir(&format!("concbw-{}", idx));
    let refdir = fresh_dir(&format!("concbw-ref-{}", idx));
    let db = Arc::new(Nomt::<H>::open(cfg.options(&dir)).expect("open"));
    let refdb = Nomt::<H>::open(cfg.options(&refdir)).expect("open reference");
    let n = rng.range(12_000, 20_000) as usize;
    let mut keys: Vec<Key> = (0..n).map(|_| rng.key()).collect();
    keys.sort();
    keys.dedup();
    let base: Vec<(Key, KeyReadWrite)> = keys.iter().enumerate().map(|(i, k)| (*k, KeyReadWrite::Write(Some(val_bytes(i as u64 + 1))))).collect();
    for d in [&*db, &refdb] {
        let s = d.begin_session(SessionParams::default());
        s.finish(base.clone()).unwrap().commit(d).unwrap();
    }
    out.commits += 1;
    let t0 = Instant::now();
    for round in 0..2u64 {
        // the writer's change set: one key
        let kx = keys[rng.below(keys.len() as u64) as usize];
        let ws = db.begin_session(SessionParams::default());
        let wfin = ws.finish(vec![(kx, KeyReadWrite::Write(Some(val_bytes(1_000_000 + round))))]).unwrap();
        // the reader-writer session, witness on
        let sess = db.begin_session(SessionParams::default().witness_mode(nomt::WitnessMode::read_write()));
        let prev_root = sess.prev_root().into_inner();
        let seen = sess.read(kx).unwrap();
        out.sessions += 1;
        let done_at = Arc::new(Mutex::new(None::<u128>));
        let (db2, done2) = (db.clone(), done_at.clone());
        let w = std::thread::spawn(move || {
            let r = wfin.commit(&db2);
            *done2.lock().unwrap() = Some(t0.elapsed().as_micros());
            r.is_ok()
        });
        std::thread::sleep(Duration::from_millis(150));
        if done_at.lock().unwrap().is_some() {
            out.violations.push(("c15-writer-not-blocked".into(), format!("round {}: a blocking commit completed while a session begun before it was still alive (150 ms after the call)", round)));
        }
        // a large batch over keys other than the writer's
        let mut batch: Vec<(Key, KeyReadWrite)> = Vec::new();
        for (i, k) in keys.iter().enumerate() {
            if *k != kx && rng.chance(1, 4) {
                batch.push((*k, KeyReadWrite::Write(Some(val_bytes(2_000_000 + round * 100_000 + i as u64)))));
            }
        }
        let mut fin = match sess.finish(batch.clone()) {
            Ok(f) => f,
            Err(e) => {
                out.violations.push(("harness".into(), format!("finish failed: {:#}", e)));
                let _ = w.join();
                break;
            }
        };
        let t_fin_end = t0.elapsed().as_micros();
        let wok = w.join().unwrap();
        let t_done = done_at.lock().unwrap().unwrap_or(0);
        if t_done < t_fin_end {
            // a statistic only (the two clocks are read by different threads)
            out.overlapping_reader_pairs += 1;
        }
        // reference: the same batch on the same base, sequentially
        let rs = refdb.begin_session(SessionParams::default());
        let rfin = rs.finish(batch.clone()).unwrap();
        let ref_root = rfin.root().into_inner();
        let got_root = fin.root().into_inner();
        if got_root != ref_root {
            out.violations.push(("c15-session-root-not-of-its-base".into(), format!("round {}: a session finished while a blocking commit was queued behind it reports root {} for its change set; its base state plus its {} writes have root {} (reference store); the value it had read for the writer's key: {:?}", round, hex(&got_root), batch.len(), hex(&ref_root), seen.as_ref().map(|v| v.len()))));
        }
        if let Some(wit) = fin.take_witness() {
            let mut bad = 0usize;
            for p in &wit.path_proofs {
                out.proofs += 1;
                if p.inner.verify::<H>(p.path.path(), prev_root).is_err() {
                    bad += 1;
                }
            }
            if bad > 0 {
                out.violations.push(("c15-witness-not-of-its-base".into(), format!("round {}: {} of {} witnessed path proofs do not verify against the root the session began on", round, bad, wit.path_proofs.len())));
            }
        }
        drop(rfin);
        if !wok {
            out.violations.push(("c15-blocked-writer-failed".into(), format!("round {}: the queued blocking commit failed", round)));
        }
        out.commits += 1;
        // keep the reference store in step with the writer's commit
        let rs = refdb.begin_session(SessionParams::default());
        rs.finish(vec![(kx, KeyReadWrite::Write(Some(val_bytes(1_000_000 + round))))]).unwrap().commit(&refdb).unwrap();
        drop(fin);
    }
    drop(db);
    drop(refdb);
    let _ = std::fs::remove_dir_all(&dir);
    let _ = std::fs::remove_dir_all(&refdir);
    out
}

pub fn cmd_conc(kv: &HashMap<String, String>) -> i32 {
    let prop = kv.get("prop").cloned().unwrap_or_else(|| "C15".into());
    let thorough = kv.get("tier").map(|t| t == "thorough").unwrap_or(false);
    let seed: u64 = kv.get("seed").and_then(|s| s.parse().ok()).unwrap_or(1);
    let n: usize = kv.get("n").and_then(|s| s.parse().ok()).unwrap_or(16);
    let out_path = kv.get("out").cloned().expect("--out");
    let replay_dir = kv.get("replays").cloned().unwrap_or_else(|| format!("/verif/replays/{}", prop));
    // stale replays are removed by tools/check before the engines of a run start
    std::fs::create_dir_all(&replay_dir).ok();
    let t0 = Instant::now();
    let mut rng = Rng::new(seed);
    let par = 3usize; // cases in parallel (each has up to ~10 threads plus the store's own)
    let cases: Vec<(usize, Rng)> = (0..n).map(|i| (i, rng.fork())).collect();
    let queue = Arc::new(Mutex::new(cases));
    let results = Arc::new(Mutex::new(Vec::new()));
    let mut hs = Vec::new();
    for _ in 0..par {
        let (q, res) = (queue.clone(), results.clone());
        hs.push(std::thread::spawn(move || loop {
            let item = q.lock().unwrap().pop();
            let Some((i, mut r)) = item else { break };
            // the first case(s) of a run: the deterministic blocked-writer programme
            let bw = i < if thorough { 4 } else { 1 };
            let o = std::panic::catch_unwind(std::panic::AssertUnwindSafe(|| if bw { run_blocked_writer_case(&mut r, i) } else { run_conc_case(&mut r, i, thorough) }));
            res.lock().unwrap().push((i, o));
        }));
    }
    for h in hs {
        h.join().unwrap();
    }
    let mut results = std::mem::take(&mut *results.lock().unwrap());
    results.sort_by_key(|r| r.0);
    let mut viol = Vec::new();
    let (mut commits, mut sessions, mut reads, mut proofs, mut stale, mut deferred, mut rollbacks, mut nontrivial, mut overlap) = (0, 0, 0, 0, 0, 0, 0, 0, 0);
    let mut samples = Vec::new();
    for (i, o) in results {
        match o {
            Ok(o) => {
                commits += o.commits;
                sessions += o.sessions;
                reads += o.reads;
                proofs += o.proofs;
                stale += o.stale;
                deferred += o.deferred;
                rollbacks += o.rollbacks;
                overlap += o.overlapping_reader_pairs;
                if o.commits >= 2 && o.sessions >= 2 {
                    nontrivial += 1;
                }
                if samples.len() < 3 {
                    samples.push(J::s(format!("case {}: {} threads, {} successful commits, {} stale, {} deferred, {} rollbacks, {} sessions, {} reads", i, o.threads, o.commits, o.stale, o.deferred, o.rollbacks, o.sessions, o.reads)));
                }
                for (vi, (sig, detail)) in o.violations.into_iter().enumerate() {
                    let path = format!("{}/{}-conc-seed{}-{}-{}.txt", replay_dir, prop, seed, i, vi);
                    std::fs::write(&path, format!("# property {} sig {}\n# {}\n# re-run: nv conc --prop {} --seed {} --n {} (case {}); schedules are not replayable exactly\n", prop, sig, detail, prop, seed, n, i)).unwrap();
                    viol.push(J::obj(vec![("replay", J::s(path)), ("sig", J::s(sig.clone())), ("kind", J::s(sig)), ("detail", J::s(detail))]));
                }
            }
            Err(_) => {
                let path = format!("{}/{}-conc-seed{}-{}-harness.txt", replay_dir, prop, seed, i);
                std::fs::write(&path, "harness panic").unwrap();
                viol.push(J::obj(vec![("replay", J::s(path)), ("sig", J::s("harness")), ("kind", J::s("harness")), ("detail", J::s("harness panic in conc case"))]));
            }
        }
    }
    let j = J::obj(vec![
        ("engine", J::s("conc")),
        ("property", J::s(prop)),
        ("evaluations", J::Int(n as i64)),
        ("distinct_nontrivial", J::Int(nontrivial)),
        ("rule", J::s("one evaluation = one multi-threaded program (1-4 reader threads, some sharing one session between 3 threads, 1-3 writer threads mixing blocking and non-blocking commits with retries, optionally a rollback thread) run for a fixed time; checks: every read/proof of a session equals the Coq Store state identified by the version stamp the session saw first; successful commits in completion order form one chain of matching bases whose canonical roots equal the reported ones (no lost or phantom commit); no successful commit/rollback lies strictly inside a session's lifetime; threads terminate (watchdog). non-trivial = at least 2 successful commits and 2 sessions")),
        ("stats", J::obj(vec![
            ("successful_commits", J::Int(commits as i64)), ("stale_rejections", J::Int(stale as i64)), ("deferred_nonblocking", J::Int(deferred as i64)),
            ("rollbacks", J::Int(rollbacks as i64)), ("sessions", J::Int(sessions as i64)), ("reads_checked", J::Int(reads as i64)), ("proofs_checked", J::Int(proofs as i64)),
            ("overlapping_reader_session_pairs", J::Int(overlap as i64)),
        ])),
        ("samples", J::Arr(samples)),
        ("violations", J::Arr(viol.clone())),
        ("wall_s", J::Num(t0.elapsed().as_secs_f64())),
    ]);
    std::fs::write(&out_path, j.to_string()).unwrap();
    if viol.is_empty() { 0 } else { 1 }
}

#[allow(dead_code)]
fn _unused(_: Cfg) {}
