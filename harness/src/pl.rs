//! E-io, power loss (C04): synthesise the directory images a power failure could leave behind.
//!
//! The target operation runs once in a child with the observer recording every mutating event
//! together with its payload. From the trace, for a cut point k, the durable content of each file
//! is everything covered by a completed fsync of that file (directory entries: by a sync of the
//! directory); every later write / resize / creation / unlink is "pending" and survives or not,
//! independently. Each synthesised image is opened with the real `Nomt::open` and compared with
//! the old and new states of the Coq Store specification.

use crate::io::*;
use crate::json::J;
use crate::sys::{Cfg, Mask, Op, Runner};
use crate::util::{fresh_dir, Key, Rng};
use nomt::hasher::Blake3Hasher;
use std::collections::{BTreeMap, HashMap};
use std::path::{Path, PathBuf};

type H = Blake3Hasher;

#[derive(Clone, Debug)]
enum POp {
    Write { off: u64, data: Vec<u8>, complete: bool, seq: u64 },
    Trunc { len: u64, seq: u64 },
}

#[derive(Clone, Debug)]
enum DOp {
    Create(String, u64),
    Unlink(String, u64),
}

/// durable + pending state of a directory, built by replaying a trace
#[derive(Clone, Default)]
struct Sim {
    durable: BTreeMap<String, Vec<POp>>, // ops that are durable, per file, in order (applied on top of the base dir)
    pending: BTreeMap<String, Vec<POp>>,
    dir_durable: Vec<DOp>,
    dir_pending: Vec<DOp>,
}

impl Sim {
    fn apply(&mut self, e: &Event, spool: &Path) {
        let f = e.path.clone();
        match e.kind.as_str() {
            "W" | "UW" => {
                let data = std::fs::read(spool.join(format!("{}.bin", e.seq))).unwrap_or_default();
                if e.kind == "W" && e.ret.map_or(true, |r| r < 0) {
                    return; // failed write
                }
                let mut data = data;
                if e.kind == "W" {
                    if let Some(r) = e.ret {
                        data.truncate(r as usize); // short write
                    }
                }
                // a multi-page write can be torn at page granularity: one pending operation per page
                if data.len() > 4096 && e.off % 4096 == 0 {
                    for (i, chunk) in data.chunks(4096).enumerate() {
                        self.pending.entry(f.clone()).or_default().push(POp::Write { off: e.off + (i as u64) * 4096, data: chunk.to_vec(), complete: e.kind == "W", seq: e.seq * 4096 + i as u64 + 1 });
                    }
                } else {
                    self.pending.entry(f).or_default().push(POp::Write { off: e.off, data, complete: e.kind == "W", seq: e.seq * 4096 });
                }
            }
            "UC" => {
                if let Some(v) = self.pending.get_mut(&f) {
                    for op in v.iter_mut() {
                        if let POp::Write { off, complete, .. } = op {
                            if *off == e.off && !*complete {
                                *complete = true;
                                break;
                            }
                        }
                    }
                }
            }
            "T" => {
                if e.ret == Some(0) {
                    self.pending.entry(f).or_default().push(POp::Trunc { len: e.off, seq: e.seq * 4096 });
                }
            }
            "S" | "D" => {
                if e.ret != Some(0) {
                    return;
                }
                if f == "." {
                    let p = std::mem::take(&mut self.dir_pending);
                    self.dir_durable.extend(p);
                } else {
                    // everything completed so far becomes durable (in order); incomplete async writes stay pending
                    let p = self.pending.remove(&f).unwrap_or_default();
                    let (done, rest): (Vec<POp>, Vec<POp>) = p.into_iter().partition(|op| match op {
                        POp::Write { complete, .. } => *complete,
                        _ => true,
                    });
                    self.durable.entry(f.clone()).or_default().extend(done);
                    if !rest.is_empty() {
                        self.pending.insert(f, rest);
                    }
                }
            }
            "C" => {
                if e.ret.map_or(false, |r| r >= 0) {
                    self.dir_pending.push(DOp::Create(f, e.seq * 4096));
                }
            }
            "U" => {
                if e.ret == Some(0) {
                    self.dir_pending.push(DOp::Unlink(f, e.seq * 4096));
                }
            }
            _ => {}
        }
    }

    fn pending_list(&self) -> Vec<(String, u64)> {
        let mut v: Vec<(String, u64)> = Vec::new();
        for (f, ops) in &self.pending {
            for op in ops {
                v.push((f.clone(), match op { POp::Write { seq, .. } | POp::Trunc { seq, .. } => *seq }));
            }
        }
        for d in &self.dir_pending {
            match d {
                DOp::Create(f, s) | DOp::Unlink(f, s) => v.push((format!("dir:{}", f), *s)),
            }
        }
        v.sort_by_key(|x| x.1);
        v
    }

    /// materialise: base dir + durable ops + the pending ops whose seq is in `keep`
    fn materialise(&self, base: &Path, to: &Path, keep: &dyn Fn(u64) -> bool) {
        copy_dir(base, to);
        use std::os::unix::fs::FileExt;
        // directory operations first decide which files exist
        let mut created_pending: Vec<String> = Vec::new();
        for d in self.dir_durable.iter().chain(self.dir_pending.iter().filter(|d| match d { DOp::Create(_, s) | DOp::Unlink(_, s) => keep(*s) })) {
            match d {
                DOp::Create(f, _) => {
                    let _ = std::fs::OpenOptions::new().create(true).write(true).open(to.join(f));
                }
                DOp::Unlink(f, _) => {
                    let _ = std::fs::remove_file(to.join(f));
                }
            }
        }
        for d in self.dir_pending.iter() {
            if let DOp::Create(f, s) = d {
                if !keep(*s) {
                    created_pending.push(f.clone());
                }
            }
        }
        let mut files: Vec<&String> = self.durable.keys().chain(self.pending.keys()).collect();
        files.sort();
        files.dedup();
        for f in files {
            if created_pending.contains(f) {
                // its directory entry did not survive
                let _ = std::fs::remove_file(to.join(f));
                continue;
            }
            let p = to.join(f);
            if !p.exists() {
                continue;
            }
            let file = std::fs::OpenOptions::new().write(true).open(&p).unwrap();
            let empty = Vec::new();
            let dur = self.durable.get(f).unwrap_or(&empty);
            let pen = self.pending.get(f).unwrap_or(&empty);
            for op in dur.iter() {
                match op {
                    POp::Write { off, data, .. } => {
                        file.write_all_at(data, *off).unwrap();
                    }
                    POp::Trunc { len, .. } => {
                        file.set_len(*len).unwrap();
                    }
                }
            }
            // pending operations that survive. Appends only survive as a prefix: a write that would
            // start beyond the current end of the file (because an earlier append was lost) is lost too.
            let mut cur_len = file.metadata().unwrap().len();
            for op in pen.iter().filter(|op| keep(match op { POp::Write { seq, .. } | POp::Trunc { seq, .. } => *seq })) {
                match op {
                    POp::Write { off, data, .. } => {
                        if *off > cur_len {
                            continue;
                        }
                        file.write_all_at(data, *off).unwrap();
                        cur_len = cur_len.max(*off + data.len() as u64);
                    }
                    POp::Trunc { len, .. } => {
                        file.set_len(*len).unwrap();
                        cur_len = *len;
                    }
                }
            }
        }
    }
}

pub struct PlOutcome {
    pub images: usize,
    pub cuts: usize,
    pub old: usize,
    pub new: usize,
    pub nested_images: usize,
    pub max_pending: usize,
    pub violations: Vec<(String, String, String)>,
    pub sample: Vec<String>,
}

fn choices(pending: &[(String, u64)], rng: &mut Rng, budget: usize) -> Vec<(String, Vec<u64>)> {
    // each choice = (label, seqs kept)
    let all: Vec<u64> = pending.iter().map(|p| p.1).collect();
    let mut out: Vec<(String, Vec<u64>)> = vec![("all-lost".into(), vec![]), ("all-kept".into(), all.clone())];
    if all.len() > 1 {
        let singles = all.len().min(6);
        for i in 0..singles {
            let j = if all.len() <= 6 { i } else { rng.below(all.len() as u64) as usize };
            out.push((format!("only-lost:{}", pending[j].0), all.iter().copied().filter(|s| *s != all[j]).collect()));
            out.push((format!("only-kept:{}", pending[j].0), vec![all[j]]));
        }
        for _ in 0..3 {
            let keep: Vec<u64> = all.iter().copied().filter(|_| rng.chance(1, 2)).collect();
            out.push(("random-subset".into(), keep));
        }
        // prefixes (appends kept up to some point)
        for _ in 0..2 {
            let n = rng.below(all.len() as u64) as usize;
            out.push(("prefix".into(), all[..n].to_vec()));
        }
    }
    out.truncate(budget.max(2));
    out
}

pub fn run_pl_scenario(sc: &IoScenario, rng: &mut Rng, max_cuts: usize, per_cut: usize, tag: &str) -> PlOutcome {
    let mut out = PlOutcome { images: 0, cuts: 0, old: 0, new: 0, nested_images: 0, max_pending: 0, violations: vec![], sample: vec![] };
    let mut runner = Runner::<H>::new(&format!("pl-{}", tag), Mask::default());
    if let Err(m) = runner.run(&sc.prefix) {
        out.violations.push(("harness-prefix".into(), format!("prefix failed: {:?}", m), String::new()));
        return out;
    }
    let base = runner.dir.clone();
    let work = fresh_dir(&format!("plw-{}", tag));
    std::fs::create_dir_all(&work).unwrap();
    let vh = runner.vhashes_snapshot();
    runner.model.expect_ok("save old");
    let old = expect_of(&mut runner, &vh);
    let mut m_ops: Vec<Op> = sc.prep.clone();
    m_ops.extend(sc.target.iter().cloned());
    runner.model_only(&m_ops);
    let vh2 = runner.vhashes_snapshot();
    let new = expect_of(&mut runner, &vh2);
    let mut keys: Vec<Key> = runner.touched.iter().copied().collect();
    for k in new.kv.keys() {
        if !keys.contains(k) {
            keys.push(*k);
        }
    }
    let vids = runner.vals_snapshot();
    let vid_of = |b: &[u8]| vids.get(&crate::model::digest(b)).copied();

    let mut child_ops = vec![Op::Open(sc.cfg.clone())];
    child_ops.extend(sc.prep.iter().cloned());
    child_ops.push(Op::Arm);
    child_ops.extend(sc.target.iter().cloned());
    child_ops.push(Op::Disarm);
    // the handle is NOT closed cleanly: power is lost while it is still open
    let script = work.join("target.script");
    std::fs::write(&script, crate::sys::script_to_text(&child_ops)).unwrap();
    let head = |extra: &str| -> String {
        format!("# E-io power-loss scenario, target operation: {}\n# {}\n# --- prefix\n{}# --- child script\n{}", sc.label, extra, crate::sys::script_to_text(&sc.prefix), crate::sys::script_to_text(&child_ops))
    };

    // recording run with payload spooling
    let d0 = work.join("rec");
    copy_dir(&base, &d0);
    let spool = work.join("spool");
    std::fs::create_dir_all(&spool).unwrap();
    std::env::set_var("VERIF_DUMMY", "1");
    let rec = run_child_spool(&d0, &script, &work.join("rec.log"), &spool);
    if rec.code != Some(0) || !rec.stdout.contains("DONE") {
        out.violations.push(("record-run".into(), format!("uninterrupted run failed: exit {:?} {}", rec.code, rec.stdout.replace('\n', " | ")), head("uninterrupted run fails")));
        return out;
    }
    let armed: Vec<usize> = rec.events.iter().enumerate().filter(|(_, e)| e.armed.is_some()).map(|(i, _)| i).collect();
    if armed.is_empty() {
        let _ = std::fs::remove_dir_all(&work);
        return out;
    }
    let meta_w = rec.events.iter().position(|e| e.armed.is_some() && e.kind == "W" && e.path == "meta");
    let meta_s = rec.events.iter().position(|e| e.armed.is_some() && e.kind == "S" && e.path == "meta");
    out.sample = rec.events.iter().filter(|e| e.armed.is_some()).take(50).map(|e| format!("{} {} {} {}", e.kind, e.path, e.off, e.len)).collect();

    // cuts: after event index i (i.e. events[..=i] issued), for armed i; plus the cut before the first armed event
    let mut cuts: Vec<usize> = armed.clone();
    if cuts.len() > max_cuts {
        let mut keep: Vec<usize> = Vec::new();
        if let Some(m) = meta_w {
            for c in cuts.iter().filter(|c| (**c as i64 - m as i64).abs() <= 4) {
                keep.push(*c);
            }
        }
        keep.push(*cuts.last().unwrap());
        while keep.len() < max_cuts {
            let c = cuts[rng.below(cuts.len() as u64) as usize];
            if !keep.contains(&c) {
                keep.push(c);
            }
        }
        keep.sort();
        cuts = keep;
    }
    let last_armed = *armed.last().unwrap();
    for cut in cuts {
        let mut sim = Sim::default();
        for e in &rec.events[..=cut] {
            sim.apply(e, &spool);
        }
        // the event at the cut itself: a synchronous op has been performed (it is in the log with its result)
        let pending = sim.pending_list();
        out.max_pending = out.max_pending.max(pending.len());
        out.cuts += 1;
        let returned = cut == last_armed;
        let must_new = returned || meta_s.map_or(false, |m| cut >= m);
        let must_old = meta_w.map_or(true, |m| cut < m);
        for (label, keep) in choices(&pending, rng, per_cut) {
            let img = work.join("img");
            sim.materialise(&base, &img, &|s| keep.contains(&s));
            out.images += 1;
            let desc = format!("power loss after event #{} [{} {} {}], surviving unsynced operations: {} ({} of {} pending)", cut, rec.events[cut].kind, rec.events[cut].path, rec.events[cut].off, label, keep.len(), pending.len());
            match crate::io::verify_dir_ex(&img, &sc.cfg, &[&old, &new], &keys, &vid_of, true) {
                Ok(w) => {
                    if w == 0 { out.old += 1 } else { out.new += 1 }
                    if (w == 0 && must_new) || (w == 1 && must_old && old.root != new.root) {
                        out.violations.push(("pl-wrong-side".into(), format!("{}: recovered the {} state although {}", desc, if w == 0 { "old" } else { "new" }, if must_new { "the switch-over had been made durable / the call had returned success" } else { "the switch-over record had not been written" }), head(&desc)));
                    }
                }
                Err(e) => {
                    let pend: Vec<String> = pending.iter().map(|p| format!("{}{}", p.0, if keep.contains(&p.1) { "+" } else { "-" })).collect();
                    out.violations.push(("pl-state".into(), format!("{}: {} [pending: {}]", desc, e, pend.join(" ")), head(&desc)));
                }
            }
            // nested: power loss during the recovery of this image (only where recovery has work to do)
            if label == "all-kept" && meta_s.map_or(false, |m| cut >= m) && rng.chance(1, 2) {
                sim.materialise(&base, &img, &|s| keep.contains(&s));
                let rspool = work.join("rspool");
                let _ = std::fs::remove_dir_all(&rspool);
                std::fs::create_dir_all(&rspool).unwrap();
                let rscript = work.join("reopen.script");
                std::fs::write(&rscript, crate::sys::script_to_text(&[Op::Arm, Op::Open(sc.cfg.clone()), Op::Disarm])).unwrap();
                let rimg_base = work.join("rbase");
                copy_dir(&img, &rimg_base);
                let rrec = run_child_spool(&img, &rscript, &work.join("r.log"), &rspool);
                let rarmed: Vec<usize> = rrec.events.iter().enumerate().filter(|(_, e)| e.armed.is_some() && ["W", "UW", "T", "S", "D", "U", "C"].contains(&e.kind.as_str())).map(|(i, _)| i).collect();
                for rc in rarmed {
                    let mut rsim = Sim::default();
                    for e in &rrec.events[..=rc] {
                        rsim.apply(e, &rspool);
                    }
                    let rp = rsim.pending_list();
                    for (rl, rk) in [("all-lost", vec![]), ("all-kept", rp.iter().map(|p| p.1).collect::<Vec<u64>>())] {
                        let rimg = work.join("rimg");
                        rsim.materialise(&rimg_base, &rimg, &|s| rk.contains(&s));
                        out.nested_images += 1;
                        let d2 = format!("{}; then power loss during recovery after its event #{} [{} {} {}], unsynced operations {}", desc, rc, rrec.events[rc].kind, rrec.events[rc].path, rrec.events[rc].off, rl);
                        match crate::io::verify_dir_ex(&rimg, &sc.cfg, &[&old, &new], &keys, &vid_of, true) {
                            Ok(w) => {
                                if w == 0 {
                                    out.violations.push(("pl-recovery-wrong-side".into(), format!("{}: recovered the old state after the switch-over was durable", d2), head(&d2)));
                                }
                            }
                            Err(e) => out.violations.push(("pl-recovery-state".into(), format!("{}: {}", d2, e), head(&d2))),
                        }
                    }
                }
            }
        }
    }
    let _ = std::fs::remove_dir_all(&work);
    out
}

/// Two consecutive commits in one process, each touching enough merkle pages for a multi-page WAL
/// blob: the second sync rewrites the WAL while the first sync's truncation is still unsynced (F8).
pub fn run_wal_overwrite_scenario(rng: &mut Rng, tag: &str) -> PlOutcome {
    use crate::gen::*;
    use crate::sys::Acc;
    let mut out = PlOutcome { images: 0, cuts: 0, old: 0, new: 0, nested_images: 0, max_pending: 0, violations: vec![], sample: vec![] };
    let mut cfg = gen_cfg(rng);
    cfg.rollback = false;
    cfg.ht = 4096;
    cfg.cc = *rng.pick(&[1usize, 2]);
    let mk = |rng: &mut Rng, n: usize| -> Vec<(Key, Acc)> {
        let mut b: Vec<(Key, Acc)> = (0..n).map(|_| (rng.key(), Acc::Write(Some(gen_value(rng, ValueMix::Small))))).collect();
        b.sort_by(|a, b| a.0.cmp(&b.0));
        b.dedup_by(|a, b| a.0 == b.0);
        b
    };
    let b0 = mk(rng, 70);
    let b1 = mk(rng, 70);
    let b2 = mk(rng, 70);
    let mut prefix = vec![Op::Open(cfg.clone())];
    prefix.extend(commit_ops(1, 1, b0, false));
    prefix.push(Op::Close);
    let mut runner = Runner::<H>::new(&format!("plf8-{}", tag), Mask::default());
    if let Err(m) = runner.run(&prefix) {
        out.violations.push(("harness-prefix".into(), format!("prefix failed: {:?}", m), String::new()));
        return out;
    }
    let base = runner.dir.clone();
    let work = fresh_dir(&format!("plf8w-{}", tag));
    std::fs::create_dir_all(&work).unwrap();
    let vh = runner.vhashes_snapshot();
    let old = expect_of(&mut runner, &vh);
    let ops1 = vec![Op::Begin { s: 2, chain: vec![], witness: false }, Op::Finish { s: 2, c: 2, batch: b1.clone() }, Op::Commit { c: 2, nb: false }];
    let ops2 = vec![Op::Begin { s: 3, chain: vec![], witness: false }, Op::Finish { s: 3, c: 3, batch: b2.clone() }, Op::Commit { c: 3, nb: false }];
    runner.model_only(&ops1);
    let vh1 = runner.vhashes_snapshot();
    let mid = expect_of(&mut runner, &vh1);
    runner.model_only(&ops2);
    let vh2 = runner.vhashes_snapshot();
    let new = expect_of(&mut runner, &vh2);
    let mut keys: Vec<Key> = runner.touched.iter().copied().collect();
    for k in new.kv.keys() {
        if !keys.contains(k) {
            keys.push(*k);
        }
    }
    let vids = runner.vals_snapshot();
    let vid_of = |b: &[u8]| vids.get(&crate::model::digest(b)).copied();
    let mut child_ops = vec![Op::Open(cfg.clone()), Op::Arm];
    child_ops.extend(ops1.iter().cloned());
    child_ops.extend(ops2.iter().cloned());
    child_ops.push(Op::Disarm);
    let script = work.join("target.script");
    std::fs::write(&script, crate::sys::script_to_text(&child_ops)).unwrap();
    let head = |extra: &str| -> String {
        format!("# E-io power-loss scenario: two consecutive commits with multi-page WAL blobs in one process\n# {}\n# --- prefix\n{}# --- child script\n{}", extra, crate::sys::script_to_text(&prefix), crate::sys::script_to_text(&child_ops))
    };
    let d0 = work.join("rec");
    copy_dir(&base, &d0);
    let spool = work.join("spool");
    std::fs::create_dir_all(&spool).unwrap();
    let rec = run_child_spool(&d0, &script, &work.join("rec.log"), &spool);
    if rec.code != Some(0) || !rec.stdout.contains("DONE") {
        out.violations.push(("record-run".into(), format!("uninterrupted run failed: exit {:?} {}", rec.code, rec.stdout.replace('\n', " | ")), head("uninterrupted run fails")));
        return out;
    }
    // the window: from the second sync's first WAL event to its WAL fsync
    let wal_syncs: Vec<usize> = rec.events.iter().enumerate().filter(|(_, e)| e.armed.is_some() && e.kind == "S" && e.path == "wal").map(|(i, _)| i).collect();
    let metas: Vec<usize> = rec.events.iter().enumerate().filter(|(_, e)| e.armed.is_some() && e.kind == "S" && e.path == "meta").map(|(i, _)| i).collect();
    if wal_syncs.len() < 2 || metas.len() < 2 {
        let _ = std::fs::remove_dir_all(&work);
        return out;
    }
    let wal_pages: Vec<u64> = rec.events.iter().filter(|e| e.armed.is_some() && e.kind == "W" && e.path == "wal").map(|e| e.len / 4096).collect();
    out.sample = vec![format!("WAL blob sizes in pages: {:?}", wal_pages)];
    let start = metas[0] + 1;
    let end = wal_syncs[1];
    for cut in start..=end {
        if rec.events[cut].armed.is_none() || rec.events[cut].path != "wal" {
            continue;
        }
        let mut sim = Sim::default();
        for e in &rec.events[..=cut] {
            sim.apply(e, &spool);
        }
        let pending = sim.pending_list();
        out.max_pending = out.max_pending.max(pending.len());
        out.cuts += 1;
        let wal_pending: Vec<u64> = pending.iter().filter(|p| p.0 == "wal").map(|p| p.1).collect();
        let others: Vec<u64> = pending.iter().filter(|p| p.0 != "wal").map(|p| p.1).collect();
        // choices over the WAL's pending operations (truncations and page writes), everything else kept
        let mut sets: Vec<(String, Vec<u64>)> = vec![("wal-all-lost".into(), vec![]), ("wal-all-kept".into(), wal_pending.clone())];
        for i in 0..wal_pending.len().min(10) {
            sets.push((format!("wal-only-kept#{}", i), vec![wal_pending[i]]));
            sets.push((format!("wal-only-lost#{}", i), wal_pending.iter().copied().filter(|s| *s != wal_pending[i]).collect()));
        }
        // the F8 shape: truncations lost, first new page lost, later new pages kept
        let writes: Vec<u64> = wal_pending.iter().copied().filter(|s| s % 4096 != 0).collect();
        if writes.len() >= 2 {
            sets.push(("wal-truncation-and-first-page-lost-rest-kept".into(), writes[1..].to_vec()));
        }
        for (label, keepw) in sets {
            let mut keep = keepw.clone();
            keep.extend(others.iter().copied());
            let img = work.join("img");
            sim.materialise(&base, &img, &|s| keep.contains(&s));
            out.images += 1;
            let desc = format!("power loss while the second of two consecutive syncs rewrites the WAL (after event #{} [{} {} {} len {}]), surviving unsynced WAL operations: {} ({} of {})", cut, rec.events[cut].kind, rec.events[cut].path, rec.events[cut].off, rec.events[cut].len, label, keepw.len(), wal_pending.len());
            match verify_dir(&img, &cfg, &[&old, &mid, &new], &keys, &vid_of) {
                Ok(1) => out.new += 1,
                Ok(w) => out.violations.push(("pl-wrong-side".into(), format!("{}: recovered the {} state, but the first commit had returned and the second had not switched over", desc, if w == 0 { "initial" } else { "final" }), head(&desc))),
                Err(e) => out.violations.push(("pl-wal-overwrite".into(), format!("{}: {}", desc, e), head(&desc))),
            }
        }
    }
    let _ = std::fs::remove_dir_all(&work);
    out
}

fn expect_of(runner: &mut Runner<H>, vh: &HashMap<u32, [u8; 32]>) -> Expect {
    let vhf = |v: u32| vh[&v];
    runner.model.expect_ok("viewcur");
    let dump = runner.model.ask_multi("dump");
    let mut kv = BTreeMap::new();
    for l in dump {
        let (k, v) = l.split_once(' ').unwrap();
        kv.insert(crate::util::key_from_hex(k), v.parse().unwrap());
    }
    let t = crate::model::eval_table::<H>(&runner.model.ask_multi("table"), &vhf);
    let seqn: u32 = runner.model.ask("seqn").parse().unwrap();
    let deep = crate::io::deep_of(&mut runner.model, &vhf);
    Expect { kv, root: t.root, seqn, deep }
}

fn run_child_spool(dir: &Path, script: &Path, log: &Path, spool: &Path) -> ChildRun {
    let _ = std::fs::remove_file(log);
    let exe = std::env::current_exe().unwrap();
    let out = std::process::Command::new("timeout")
        .arg("120")
        .arg(exe)
        .arg("iochild")
        .arg(dir)
        .arg(script)
        .env("LD_PRELOAD", "/verif/.cache/shim.so")
        .env("NOMT_VERIF_DIR", dir)
        .env("NOMT_VERIF_LOG", log)
        .env("NOMT_VERIF_SPOOL", spool)
        .env("NOMT_VERIF_MODE", "record")
        .env("RUST_BACKTRACE", "0")
        .stderr(std::process::Stdio::null())
        .output()
        .expect("child");
    ChildRun { code: out.status.code(), stdout: String::from_utf8_lossy(&out.stdout).to_string(), events: parse_log(log) }
}

pub fn cmd_pl(kv: &HashMap<String, String>) -> i32 {
    let prop = kv.get("prop").cloned().unwrap_or_else(|| "C04".into());
    let thorough = kv.get("tier").map(|t| t == "thorough").unwrap_or(false);
    let seed: u64 = kv.get("seed").and_then(|s| s.parse().ok()).unwrap_or(1);
    let n: usize = kv.get("n").and_then(|s| s.parse().ok()).unwrap_or(4);
    let max_cuts: usize = kv.get("cuts").and_then(|s| s.parse().ok()).unwrap_or(30);
    let per_cut: usize = kv.get("percut").and_then(|s| s.parse().ok()).unwrap_or(8);
    let out_path = kv.get("out").cloned().expect("--out");
    let replay_dir = kv.get("replays").cloned().unwrap_or_else(|| format!("/verif/replays/{}", prop));
    let threads: usize = kv.get("threads").and_then(|s| s.parse().ok()).unwrap_or(12);
    // stale replays are removed by tools/check before the engines of a run start
    std::fs::create_dir_all(&replay_dir).ok();
    let t0 = std::time::Instant::now();
    let mut rng = Rng::new(seed);
    let scen: Vec<(usize, IoScenario, Rng)> = (0..n).map(|i| { let mut r = rng.fork(); (i, gen_io_scenario(&mut r, thorough, i), r) }).collect();
    let queue = std::sync::Arc::new(std::sync::Mutex::new(scen));
    let results = std::sync::Arc::new(std::sync::Mutex::new(Vec::new()));
    let mut hs = Vec::new();
    for _ in 0..threads.min(n).max(1) {
        let (q, res) = (queue.clone(), results.clone());
        hs.push(std::thread::spawn(move || loop {
            let item = q.lock().unwrap().pop();
            let Some((i, sc, mut r)) = item else { break };
            let o = std::panic::catch_unwind(std::panic::AssertUnwindSafe(|| run_pl_scenario(&sc, &mut r, max_cuts, per_cut, &format!("{}", i))));
            res.lock().unwrap().push((i, sc.label.clone(), o));
        }));
    }
    for h in hs {
        h.join().unwrap();
    }
    // consecutive multi-page WAL syncs (the WAL rewrite window)
    let n_f8 = kv.get("waln").and_then(|s| s.parse().ok()).unwrap_or(if thorough { 12 } else { 3 });
    for i in 0..n_f8 {
        let mut r = rng.fork();
        let o = std::panic::catch_unwind(std::panic::AssertUnwindSafe(|| run_wal_overwrite_scenario(&mut r, &format!("{}", i))));
        results.lock().unwrap().push((1000 + i, "two-commits-wal-rewrite".to_string(), o));
    }
    // a rollback that removes every segment file of the rollback log at once
    let n_rb = kv.get("rballn").and_then(|s| s.parse().ok()).unwrap_or(if thorough { 10 } else { 3 });
    for i in 0..n_rb {
        let mut r = rng.fork();
        let sc = crate::io::gen_rollback_all_scenario(&mut r);
        let o = std::panic::catch_unwind(std::panic::AssertUnwindSafe(|| run_pl_scenario(&sc, &mut r, max_cuts, per_cut.max(12), &format!("rb{}", i))));
        results.lock().unwrap().push((2000 + i, sc.label.clone(), o));
    }
    let mut results = std::mem::take(&mut *results.lock().unwrap());
    results.sort_by_key(|r| r.0);
    let mut viol = Vec::new();
    let (mut images, mut cuts, mut old, mut new, mut nested, mut maxp) = (0, 0, 0, 0, 0, 0);
    let mut samples = Vec::new();
    let mut sigs_seen: HashMap<String, usize> = HashMap::new();
    for (i, label, o) in results {
        match o {
            Ok(o) => {
                images += o.images;
                cuts += o.cuts;
                old += o.old;
                new += o.new;
                nested += o.nested_images;
                maxp = maxp.max(o.max_pending);
                if samples.len() < 2 {
                    samples.push(J::obj(vec![("target", J::s(label)), ("cuts", J::Int(o.cuts as i64)), ("images", J::Int(o.images as i64)), ("trace", J::Arr(o.sample.iter().take(40).map(|s| J::s(s.clone())).collect()))]));
                }
                for (vi, (sig, detail, replay)) in o.violations.into_iter().enumerate() {
                    let c = sigs_seen.entry(sig.clone()).or_default();
                    *c += 1;
                    if *c > 12 {
                        continue; // keep the report readable; the count is in the evidence
                    }
                    let path = format!("{}/{}-pl-seed{}-{}-{}.txt", replay_dir, prop, seed, i, vi);
                    std::fs::write(&path, format!("# property {} sig {}\n# {}\n{}", prop, sig, detail.replace('\n', " "), replay)).unwrap();
                    viol.push(J::obj(vec![("replay", J::s(path)), ("sig", J::s(sig.clone())), ("kind", J::s(sig)), ("detail", J::s(detail))]));
                }
            }
            Err(_) => {
                let path = format!("{}/{}-pl-seed{}-{}-harness.txt", replay_dir, prop, seed, i);
                std::fs::write(&path, "harness panic").unwrap();
                viol.push(J::obj(vec![("replay", J::s(path)), ("sig", J::s("harness")), ("kind", J::s("harness")), ("detail", J::s("harness panic in power-loss scenario"))]));
            }
        }
    }
    let j = J::obj(vec![
        ("engine", J::s("pl")),
        ("property", J::s(prop)),
        ("evaluations", J::Int((images + nested) as i64)),
        ("distinct_nontrivial", J::Int((images + nested) as i64)),
        ("rule", J::s("one evaluation = one synthesised power-loss image: (history, cut after I/O event k, subset of the not-yet-fsynced writes / resizes / directory entries that survive), built from the recorded event trace with payloads, opened with the real Nomt::open and compared with the old and new states of the Coq Store specification (root, seqn, every touched key, sample proofs); for cuts after the switch-over also images of a power loss during the recovery itself")),
        ("scenarios", J::Int(n as i64)),
        ("cuts", J::Int(cuts as i64)),
        ("images", J::Int(images as i64)),
        ("nested_recovery_images", J::Int(nested as i64)),
        ("recovered_old", J::Int(old as i64)),
        ("recovered_new", J::Int(new as i64)),
        ("max_pending_ops_at_a_cut", J::Int(maxp as i64)),
        ("violations_by_sig", J::Obj(sigs_seen.iter().map(|(k, v)| (k.clone(), J::Int(*v as i64))).collect())),
        ("samples", J::Arr(samples)),
        ("violations", J::Arr(viol.clone())),
        ("wall_s", J::Num(t0.elapsed().as_secs_f64())),
    ]);
    std::fs::write(&out_path, j.to_string()).unwrap();
    if viol.is_empty() { 0 } else { 1 }
}

#[allow(dead_code)]
fn _unused(_: Cfg, _: PathBuf) {}
