//! `nv misc`: function-level differential checks of three small pure pieces of NOMT against their
//! extracted Coq models (ShardsGen.v / Shards.v, Overflow.v, BitOps.v):
//!   C13  page-cache sharding, independent of the split POLICY: the REAL regions of
//!        `shard_regions(n)` are uploaded to the driver (`regs ...`) and judged by the extracted
//!        `regions_okb` (any partition of the 64 root children into n contiguous non-empty runs
//!        passes), `shard_index_for(n, c)` must be `index_of_child` on the real regions
//!        (exhaustive over 1..=64 shards and the 64 root children), and the per-worker split of a
//!        sorted batch (`RangeUpdater::new`: `binary_search_by_key(min key)` /
//!        `partition_point(key <= max key)` on the real region keys) must be `ranges_of <real
//!        regions> ks`.  Whether the split is the one of the reference mirror
//!        (Shards.shard_regions) is a statistic, not a violation.
//!   C01  overflow page arithmetic `total_needed_pages` (every size in [1333, 300000] plus sampled
//!        sizes up to 2^29) and the separator bit operations `prefix_len`, `separate`,
//!        `separator_len` on generated key pairs.
//! Every check is one text line ("item"); the same line is what a replay file holds, so a replay
//! re-runs exactly the failing comparison.  Besides model agreement, each item is checked against
//! the statement proved about the mirror (partition / fits / a < sep <= b ...), on the Rust values.

use crate::json::J;
use crate::model::Model;
use crate::util::{get_bit, hex, key_from_hex, set_bit, Key, Rng};
use std::collections::{BTreeMap, HashMap, HashSet};
use std::panic::{catch_unwind, AssertUnwindSafe};

const BODY: usize = 4092;
const CELL_PTRS: usize = 15;

#[derive(Default)]
struct Acc {
    evals: u64,
    nontrivial: HashSet<String>,
    stats: BTreeMap<String, u64>,
    viol: Vec<(String, String, String)>, // sig, detail, replay line
    overalloc_samples: Vec<usize>,
    strict_least: bool,
    verbose: bool,
}

impl Acc {
    fn inc(&mut self, k: &str, by: u64) {
        *self.stats.entry(k.to_string()).or_default() += by;
    }
    fn violate(&mut self, sig: &str, detail: String, line: String) {
        if self.verbose {
            println!("  VIOLATION {}: {}", sig, detail);
        }
        self.viol.push((sig.to_string(), detail, line));
    }
}

fn pages_fit(v: usize, q: usize) -> bool {
    v + 4 * q.saturating_sub(CELL_PTRS) <= q * BODY
}

fn child_of(k: &Key) -> usize {
    (k[0] >> 2) as usize
}

fn key_succ(k: &Key) -> Option<Key> {
    let mut r = *k;
    for i in (0..32).rev() {
        if r[i] == 0xff {
            r[i] = 0;
        } else {
            r[i] += 1;
            return Some(r);
        }
    }
    None
}

fn key_pred(k: &Key) -> Option<Key> {
    let mut r = *k;
    for i in (0..32).rev() {
        if r[i] == 0 {
            r[i] = 0xff;
        } else {
            r[i] -= 1;
            return Some(r);
        }
    }
    None
}

// ---------------------------------------------------------------------------------------------
// items
// ---------------------------------------------------------------------------------------------

/// `regs <k> <min>:<max>:<count> ... <sub>`: the driver command that hands the REAL regions to the
/// extracted ShardsGen functions (regions_okb / index_of_child / ranges_of)
fn regs_cmd(regions: &[(Key, Key, usize)], sub: &str) -> String {
    let mut s = format!("regs {}", regions.len());
    for (a, b, c) in regions {
        s.push_str(&format!(" {}:{}:{}", hex(a), hex(b), c));
    }
    s.push(' ');
    s.push_str(sub);
    s.trim_end().to_string()
}

fn eval_shards(acc: &mut Acc, m: &mut Model, n: usize, line: &str) {
    let rust = nomt::verif_api::shard_regions(n);
    // the property: the extracted regions_okb judges the real regions (any valid split passes)
    let verdict = m.ask(&regs_cmd(&rust, "ok"));
    let okb = verdict == "1";
    // statistic only: is it the split of the reference mirror (Shards.shard_regions n)?
    let reply = m.ask(line);
    let model: Vec<(Key, Key, usize)> = reply
        .split(' ')
        .filter(|s| !s.is_empty())
        .map(|e| {
            let t: Vec<&str> = e.split(':').collect();
            (key_from_hex(t[0]), key_from_hex(t[1]), t[2].parse().unwrap())
        })
        .collect();
    if acc.verbose {
        println!("  rust : {}", rust.iter().map(|(a, b, c)| format!("{}:{}:{}", hex(a), hex(b), c)).collect::<Vec<_>>().join(" "));
        println!("  regions_okb (extracted, on the real regions): {}", verdict);
        println!("  reference split: {}", reply);
    }
    acc.evals += rust.len().max(1) as u64;
    acc.inc("shards.regions_judged", rust.len() as u64);
    acc.inc("shards.splits_judged", 1);
    if rust == model {
        acc.inc("shards.regions_equal_to_the_reference_split", 1);
    } else {
        acc.inc("shards.regions_equal_to_the_reference_split", 0);
        acc.inc("shards.regions_different_from_the_reference_split", 1);
    }
    // the statement of regions_okb_sound, on the Rust values (says WHAT is wrong)
    let mut bad: Option<String> = None;
    if rust.len() != n {
        bad = Some(format!("{} regions for {} shards", rust.len(), n));
    }
    let mut next_child = 0usize;
    for (i, (lo, hi, cnt)) in rust.iter().enumerate() {
        let (cl, ch) = (child_of(lo), child_of(hi));
        let lo_ok = lo[0] & 3 == 0 && lo[1..].iter().all(|b| *b == 0);
        let hi_ok = hi[0] & 3 == 3 && hi[1..].iter().all(|b| *b == 0xff);
        if *cnt == 0 || cl != next_child || ch + 1 != cl + cnt || !lo_ok || !hi_ok {
            bad = bad.or(Some(format!("region {} = children {}..={} count {} (expected to start at child {}, keys min/max of whole children)", i, cl, ch, cnt, next_child)));
        }
        next_child = ch + 1;
    }
    if next_child != 64 {
        bad = bad.or(Some(format!("regions end at child {} instead of 64", next_child)));
    }
    if !okb || bad.is_some() {
        acc.violate(
            "c13-shards-partition",
            format!(
                "shard_regions({}) is not an ordered partition of the 64 root children into {} non-empty contiguous runs: regions_okb = {}; {}",
                n,
                n,
                if okb { "true" } else { "false" },
                bad.unwrap_or_else(|| "(the Rust-side check of the same statement found nothing)".to_string())
            ),
            line.to_string(),
        );
        return;
    }
    acc.nontrivial.insert(line.to_string());
}

fn eval_shardidx(acc: &mut Acc, m: &mut Model, n: usize, line: &str) {
    let rust: Vec<Result<usize, ()>> = (0..64).map(|c| catch_unwind(|| nomt::verif_api::shard_index_for(n, c)).map_err(|_| ())).collect();
    let regions = nomt::verif_api::shard_regions(n);
    // index_of_child (extracted) on the REAL regions: the region that contains the child
    let reply = m.ask(&regs_cmd(&regions, "idx"));
    let model: Vec<usize> = reply.split(' ').filter(|s| !s.is_empty()).map(|s| s.parse().unwrap()).collect();
    // statistic only: the reference mirror's shard_index_for
    let ref_reply = m.ask(line);
    let reference: Vec<usize> = ref_reply.split(' ').filter(|s| !s.is_empty()).map(|s| s.parse().unwrap()).collect();
    if acc.verbose {
        println!("  rust : {:?}", rust);
        println!("  index_of_child on the real regions: {}", reply);
        println!("  reference split: {}", ref_reply);
    }
    acc.evals += 64;
    acc.inc("shards.index_answers_compared", 64);
    acc.inc("shards.index_answers_equal_to_the_reference_split", (0..64).filter(|c| rust[*c].ok() == reference.get(*c).copied()).count() as u64);
    for c in 0..64 {
        match rust[c] {
            Err(()) => {
                acc.violate("c13-shards-index-panic", format!("shard_index_for({}, {}) panicked", n, c), line.to_string());
                return;
            }
            Ok(s) => {
                let inside = regions.get(s).map(|(lo, hi, _)| child_of(lo) <= c && c <= child_of(hi)).unwrap_or(false);
                if model.get(c) != Some(&s) || !inside {
                    acc.violate(
                        "c13-shards-index-region",
                        format!(
                            "shard_index_for({}, {}) = {} but root child {} lies in {} of shard_regions({}) (index_of_child on the real regions){}",
                            n,
                            c,
                            s,
                            c,
                            match model.get(c) {
                                Some(i) if *i < regions.len() => format!("region {}", i),
                                _ => "no region".to_string(),
                            },
                            n,
                            if inside { "" } else { "; that shard's region does not contain the child" }
                        ),
                        line.to_string(),
                    );
                    return;
                }
                acc.nontrivial.insert(format!("idx {} {}", n, c));
            }
        }
    }
}

fn eval_ranges(acc: &mut Acc, m: &mut Model, n: usize, keys: &[Key], line: &str) {
    // what RangeUpdater::new computes, with the real region keys
    let batch: Vec<(Key, ())> = keys.iter().map(|k| (*k, ())).collect();
    let regions = nomt::verif_api::shard_regions(n);
    let rust: Vec<(usize, usize)> = regions
        .iter()
        .map(|(lo, hi, _)| {
            let start = batch.binary_search_by_key(lo, |x| x.0).unwrap_or_else(|i| i);
            let end = batch.partition_point(|(k, _)| *k <= *hi);
            (start, end)
        })
        .collect();
    // ranges_of <real regions> ks (extracted)
    let reply = m.ask(&regs_cmd(&regions, &format!("ranges {}", keys.iter().map(|k| hex(k)).collect::<Vec<_>>().join(" "))));
    let model: Vec<(usize, usize)> = reply
        .split(' ')
        .filter(|s| !s.is_empty())
        .map(|e| {
            let (a, b) = e.split_once(':').unwrap();
            (a.parse().unwrap(), b.parse().unwrap())
        })
        .collect();
    if acc.verbose {
        println!("  rust : {}", rust.iter().map(|(a, b)| format!("{}:{}", a, b)).collect::<Vec<_>>().join(" "));
        println!("  ranges_of on the real regions: {}", reply);
    }
    acc.evals += rust.len() as u64;
    acc.inc("ranges.worker_ranges_compared", rust.len() as u64);
    acc.inc("ranges.batches", 1);
    if rust != model {
        let i = (0..rust.len().max(model.len())).find(|i| rust.get(*i) != model.get(*i)).unwrap_or(0);
        acc.violate("c13-shards-ranges-model", format!("batch of {} keys, {} shards: worker {} gets {:?} in Rust, {:?} by ranges_of on the real regions", keys.len(), n, i, rust.get(i), model.get(i)), line.to_string());
        return;
    }
    // the statement of ranges_partition, on the Rust values
    let mut bad: Option<String> = None;
    let mut pos = 0usize;
    for (i, (s, e)) in rust.iter().enumerate() {
        if *s != pos || e < s {
            bad = bad.or(Some(format!("worker {} has [{}, {}) but the previous worker ended at {}", i, s, e, pos)));
        }
        pos = *e;
    }
    if pos != keys.len() {
        bad = bad.or(Some(format!("the last worker ends at {} of {} keys", pos, keys.len())));
    }
    for (j, k) in keys.iter().enumerate() {
        let s = nomt::verif_api::shard_index_for(n, child_of(k));
        let ok = rust.get(s).map(|(a, b)| *a <= j && j < *b).unwrap_or(false);
        if !ok {
            bad = bad.or(Some(format!("key {} (root child {}, shard {}) at index {} is outside its worker's range {:?}", hex(k), child_of(k), s, j, rust.get(s))));
        }
    }
    if let Some(b) = bad {
        acc.violate("c13-shards-ranges-partition", format!("{} shards, {} keys: {}", n, keys.len(), b), line.to_string());
    }
    let nonempty = rust.iter().filter(|(a, b)| b > a).count();
    acc.inc(&format!("ranges.nonempty_workers.{}", if nonempty >= 8 { "8+".to_string() } else { nonempty.to_string() }), 1);
    if nonempty >= 2 {
        acc.nontrivial.insert(line.to_string());
    }
}

fn check_size(acc: &mut Acc, size: usize, rust: Result<usize, ()>, model: Option<usize>) {
    acc.evals += 1;
    let line = format!("tnp {}", size);
    let p = match rust {
        Err(()) => {
            acc.violate("c01-overflow-panic", format!("total_needed_pages({}) panicked", size), line);
            return;
        }
        Ok(p) => p,
    };
    if model != Some(p) {
        acc.violate("c01-overflow-model", format!("total_needed_pages({}): Rust {} model {:?}", size, p, model), line);
        return;
    }
    if !pages_fit(size, p) {
        acc.violate("c01-overflow-fits", format!("total_needed_pages({}) = {}: {} value bytes + {} pointers of 4 bytes do not fit into {} pages of {} bytes", size, p, size, p.saturating_sub(CELL_PTRS), p, BODY), line);
        return;
    }
    if p == 0 || (p - 1) * BODY >= size + 4 * p.saturating_sub(CELL_PTRS) {
        acc.violate("c01-overflow-empty-last-page", format!("total_needed_pages({}) = {}: the last page would hold no byte (chunk() asserts a non-empty rest of the value at every page)", size, p), line);
        return;
    }
    if p >= 2 && pages_fit(size, p - 2) {
        acc.violate("c01-overflow-waste", format!("total_needed_pages({}) = {} although {} pages suffice (more than one page wasted)", size, p, p - 2), line);
        return;
    }
    if p >= 1 && pages_fit(size, p - 1) {
        // proved in Overflow_proofs.total_needed_pages_overalloc_iff: happens exactly when the
        // pointer deficit is a positive multiple of 4088 or one less; one page is wasted
        acc.inc("overflow.one_page_more_than_needed", 1);
        if acc.overalloc_samples.len() < 12 {
            acc.overalloc_samples.push(size);
        }
        if acc.strict_least {
            acc.violate("c01-overflow-not-least", format!("total_needed_pages({}) = {} although {} pages suffice", size, p, p - 1), line);
            return;
        }
    }
    let class = if p <= CELL_PTRS { "in_cell" } else if p == (size + BODY - 1) / BODY { "slack_of_last_page" } else { "extra_pages" };
    acc.inc(&format!("overflow.class.{}", class), 1);
    if p > CELL_PTRS {
        acc.nontrivial.insert(line);
    }
}

fn eval_tnp(acc: &mut Acc, m: &mut Model, sizes: &[usize], line: &str) {
    let reply = m.ask(line);
    let model: Vec<usize> = reply.split(' ').filter(|s| !s.is_empty()).map(|s| s.parse().unwrap()).collect();
    if acc.verbose {
        println!("  model: {}", if reply.len() > 400 { &reply[..400] } else { &reply });
    }
    for (i, s) in sizes.iter().enumerate() {
        let r = catch_unwind(|| nomt::verif_api::total_needed_pages(*s)).map_err(|_| ());
        if acc.verbose && sizes.len() <= 16 {
            println!("  rust : total_needed_pages({}) = {:?}", s, r);
        }
        check_size(acc, *s, r, model.get(i).copied());
    }
}

fn bits_prefix_zero_padded(b: &Key, nbits: usize) -> Key {
    let mut r = [0u8; 32];
    for i in 0..nbits.min(256) {
        set_bit(&mut r, i, get_bit(b, i));
    }
    r
}

fn eval_bitops(acc: &mut Acc, m: &mut Model, a: &Key, b: &Key, line: &str) {
    use nomt::beatree::{prefix_len, separate, separator_len};
    let plen = prefix_len(a, b);
    let sep: Result<Key, ()> = catch_unwind(AssertUnwindSafe(|| separate(a, b))).map_err(|_| ());
    let (la, lb) = (separator_len(a), separator_len(b));
    let ls = sep.as_ref().ok().map(|s| separator_len(s));
    let rust = format!(
        "plen={} sep={} la={} lb={} ls={}",
        plen,
        match &sep {
            Ok(s) => hex(s),
            Err(()) => "panic".to_string(),
        },
        la,
        lb,
        ls.map(|x| x.to_string()).unwrap_or_else(|| "-".into())
    );
    let model = m.ask(line);
    if acc.verbose {
        println!("  rust : {}", rust);
        println!("  model: {}", model);
    }
    acc.evals += 5;
    acc.inc("bitops.pairs", 1);
    if rust != model {
        acc.violate("c01-bitops-model", format!("a={} b={}: Rust [{}] model [{}]", hex(a), hex(b), rust, model), line.to_string());
        return;
    }
    if a < b {
        acc.inc(&format!("bitops.prefix_len_class.{}", match plen { 0 => "0", 1..=7 => "1-7", 8..=63 => "8-63", 64..=247 => "64-247", 248..=254 => "248-254", _ => "255" }), 1);
        match &sep {
            Err(()) => acc.violate("c01-bitops-separate-panic", format!("separate(a, b) panicked for a < b: a={} b={}", hex(a), hex(b)), line.to_string()),
            Ok(s) => {
                let expect = bits_prefix_zero_padded(b, plen + 1);
                let mut bad = None;
                if !(a < s && s <= b) {
                    bad = Some("the separator is not in (a, b]".to_string());
                } else if *s != expect {
                    bad = Some(format!("the separator is not b's first {} bits zero padded ({})", plen + 1, hex(&expect)));
                } else if ls != Some(plen + 1) {
                    bad = Some(format!("separator_len(separator) = {:?}, expected prefix_len + 1 = {}", ls, plen + 1));
                } else {
                    // shortest: the two neighbours one bit shorter are outside (a, b]
                    let shorter = bits_prefix_zero_padded(b, plen);
                    if a < &shorter && &shorter <= b {
                        bad = Some(format!("a shorter separator exists: {}", hex(&shorter)));
                    }
                }
                if let Some(bd) = bad {
                    acc.violate("c01-bitops-separate-spec", format!("a={} b={} separate={}: {}", hex(a), hex(b), hex(s), bd), line.to_string());
                } else {
                    acc.nontrivial.insert(line.to_string());
                }
            }
        }
    } else if a == b {
        acc.inc("bitops.equal_keys", 1);
        acc.inc(if sep.is_err() { "bitops.equal_keys.rust_panics(separator[32])" } else { "bitops.equal_keys.rust_returns" }, 1);
    } else {
        acc.inc("bitops.swapped_pairs", 1);
    }
    // separator_len: last set bit + 1, 1 for the zero key
    for (k, l) in [(a, la), (b, lb)] {
        let expect = (0..256).rev().find(|i| get_bit(k, *i)).map(|i| i + 1).unwrap_or(1);
        if l != expect {
            acc.violate("c01-bitops-separator-len-spec", format!("separator_len({}) = {}, last set bit + 1 = {}", hex(k), l, expect), line.to_string());
        }
    }
}

/// run one item line; unknown lines are reported
fn eval_line(acc: &mut Acc, m: &mut Model, line: &str) {
    let t: Vec<&str> = line.split(' ').filter(|s| !s.is_empty()).collect();
    match t.as_slice() {
        ["shards", n] => eval_shards(acc, m, n.parse().unwrap(), line),
        ["shardidx", n] => eval_shardidx(acc, m, n.parse().unwrap(), line),
        ["ranges", n, keys @ ..] => {
            let ks: Vec<Key> = keys.iter().map(|k| key_from_hex(k)).collect();
            eval_ranges(acc, m, n.parse().unwrap(), &ks, line)
        }
        ["tnp", sizes @ ..] => {
            let s: Vec<usize> = sizes.iter().map(|x| x.parse().unwrap()).collect();
            eval_tnp(acc, m, &s, line)
        }
        ["tnprange", lo, hi] => {
            let (lo, hi): (usize, usize) = (lo.parse().unwrap(), hi.parse().unwrap());
            let s: Vec<usize> = (lo..=hi).collect();
            eval_tnp(acc, m, &s, line)
        }
        ["bitops", a, b] => eval_bitops(acc, m, &key_from_hex(a), &key_from_hex(b), line),
        ["asyncread", size, sched] => eval_asyncread(acc, m, size.parse().unwrap(), sched, line),
        ["walblob", seqn, spec] => eval_walblob(acc, m, seqn.parse().unwrap(), spec, line),
        ["walblob", seqn] => eval_walblob(acc, m, seqn.parse().unwrap(), "", line),
        _ => panic!("unknown misc item {:?}", line),
    }
}

// ---------------------------------------------------------------------------------------------
// generators
// ---------------------------------------------------------------------------------------------

fn gen_batch(rng: &mut Rng, n: usize) -> Vec<Key> {
    let regions = nomt::verif_api::shard_regions(n);
    let mut set: std::collections::BTreeSet<Key> = Default::default();
    let style = rng.below(6);
    let target = match rng.below(4) {
        0 => rng.below(4) as usize,
        1 => rng.range(4, 24) as usize,
        _ => rng.range(24, 160) as usize,
    };
    match style {
        // uniformly random keys
        0 => {
            for _ in 0..target {
                set.insert(rng.key());
            }
        }
        // keys on and next to the region borders
        1 | 2 => {
            for (lo, hi, _) in &regions {
                for k in [Some(*lo), Some(*hi), key_succ(lo), key_pred(hi), key_pred(lo), key_succ(hi)].into_iter().flatten() {
                    if rng.chance(if style == 1 { 3 } else { 1 }, 4) {
                        set.insert(k);
                    }
                }
            }
            for _ in 0..target / 4 {
                set.insert(rng.key());
            }
        }
        // everything in one or two shards
        3 => {
            let picks = [rng.below(n as u64) as usize, rng.below(n as u64) as usize];
            for _ in 0..target {
                let (lo, hi, _) = &regions[*rng.pick(&picks)];
                let mut k = rng.key();
                let c = rng.range(child_of(lo) as u64, child_of(hi) as u64) as u8;
                k[0] = (c << 2) | (k[0] & 3);
                set.insert(k);
            }
        }
        // one key per root child, some children skipped
        4 => {
            for c in 0..64u8 {
                if rng.chance(2, 3) {
                    let mut k = rng.key();
                    k[0] = (c << 2) | (k[0] & 3);
                    if rng.chance(1, 4) {
                        k = [0u8; 32];
                        k[0] = c << 2;
                    } else if rng.chance(1, 4) {
                        k = [0xffu8; 32];
                        k[0] = (c << 2) | 3;
                    }
                    set.insert(k);
                }
            }
        }
        // long common prefixes inside a child
        _ => {
            let base = rng.key();
            for _ in 0..target {
                let d = rng.range(6, 255) as usize;
                set.insert(crate::util::diverge_at(rng, &base, d));
            }
            set.insert(base);
        }
    }
    set.into_iter().collect()
}

fn gen_c13(rng: &mut Rng, thorough: bool) -> Vec<String> {
    let mut items = Vec::new();
    for n in 1..=64 {
        items.push(format!("shards {}", n));
        items.push(format!("shardidx {}", n));
    }
    let batches = if thorough { 4000 } else { 400 };
    for i in 0..batches {
        let n = if i < 64 { i + 1 } else { rng.range(1, 64) as usize };
        let ks = gen_batch(rng, n);
        items.push(format!("ranges {} {}", n, ks.iter().map(|k| hex(k)).collect::<Vec<_>>().join(" ")).trim_end().to_string());
    }
    items
}

fn gen_sizes(rng: &mut Rng, count: usize) -> Vec<usize> {
    let max = 1usize << 29;
    let mut v = Vec::with_capacity(count + 64);
    for d in 0..24 {
        v.push(max - d);
    }
    for _ in 0..count {
        let s = match rng.below(5) {
            // uniform
            0 => rng.range(1333, max as u64) as usize,
            // log-uniform
            1 => {
                let bits = rng.range(11, 29);
                (rng.range(1u64 << (bits - 1), (1u64 << bits)) as usize).max(1333)
            }
            // around a multiple of the page body
            2 => {
                let np = rng.range(1, (max / BODY) as u64) as usize;
                (np * BODY + rng.below(13) as usize).saturating_sub(6).max(1333).min(max)
            }
            // around the points where the pointer deficit is a multiple of 4088 (the rounding of
            // the third branch is off there)
            3 => {
                let np = rng.range(1037, (max / BODY) as u64) as usize;
                let want = 4088 * rng.range(1, ((4 * (np - 15)) / 4088).max(1) as u64) as usize;
                // deficit n = v + 4(np-15) - np*BODY  =>  v = want + np*BODY - 4(np-15)
                let v = (want + np * BODY).saturating_sub(4 * (np - 15));
                (v + rng.below(5) as usize).saturating_sub(2).max(1333).min(max)
            }
            // where the slack of the last page just holds / just misses the pointers
            _ => {
                let np = rng.range(16, 1100) as usize;
                let v = (np * BODY).saturating_sub(4 * (np - 15));
                (v + rng.below(9) as usize).saturating_sub(4).max(1333).min(max)
            }
        };
        v.push(s);
    }
    v
}

fn gen_pairs(rng: &mut Rng, reps: usize) -> Vec<(Key, Key)> {
    let mut v: Vec<(Key, Key)> = Vec::new();
    let zero = [0u8; 32];
    let ones = [0xffu8; 32];
    v.push((zero, ones));
    v.push((zero, zero));
    v.push((ones, ones));
    let mut one = zero;
    one[31] = 1;
    v.push((zero, one));
    for _ in 0..reps {
        for l in 0..256usize {
            let base = rng.key();
            // a = P 0 ta, b = P 1 tb with |P| = l
            let mk = |rng: &mut Rng, ta: u8, tb: u8| -> (Key, Key) {
                let mut a = base;
                let mut b = base;
                set_bit(&mut a, l, false);
                set_bit(&mut b, l, true);
                for (k, t) in [(&mut a, ta), (&mut b, tb)] {
                    let r = rng.key();
                    for i in l + 1..256 {
                        let bit = match t {
                            0 => false,
                            1 => true,
                            _ => get_bit(&r, i),
                        };
                        set_bit(k, i, bit);
                    }
                }
                (a, b)
            };
            v.push(mk(rng, 2, 2)); // random tails
            v.push(mk(rng, 1, 0)); // adjacent keys: P 0 1..1 / P 1 0..0
            v.push(mk(rng, 0, 0));
            v.push(mk(rng, 1, 1));
            v.push(mk(rng, 0, 1));
            v.push(mk(rng, 2, 0));
            // prefix of zeros / of ones
            let (mut a, mut b) = mk(rng, 2, 2);
            let fill = rng.chance(1, 2);
            for i in 0..l {
                set_bit(&mut a, i, fill);
                set_bit(&mut b, i, fill);
            }
            v.push((a, b));
            // the arguments the other way round (prefix_len is symmetric; separate still defined)
            if rng.chance(1, 8) {
                let (a, b) = mk(rng, 2, 2);
                v.push((b, a));
            }
        }
        let k = rng.key();
        v.push((k, k));
        if let Some(s) = key_succ(&k) {
            v.push((k, s));
        }
    }
    v
}

// ---------------------------------------------------------------------------------------------
// C09: the asynchronous overflow reader (hook H7) against AsyncRead.v

/// the layout overflow::chunk writes for a value of `size` bytes: (pages in the cell, page numbers
/// stored in page i, value bytes stored in page i)
fn ar_layout(size: usize) -> (usize, Vec<usize>, Vec<usize>) {
    let total = nomt::verif_api::total_needed_pages(size);
    let c = total.min(CELL_PTRS);
    let mut others = total - c;
    let mut left = size;
    let (mut ks, mut bs) = (Vec::new(), Vec::new());
    for _ in 0..total {
        let k = others.min(BODY / 4);
        others -= k;
        let b = (BODY - 4 * k).min(left);
        left -= b;
        ks.push(k);
        bs.push(b);
    }
    (c, ks, bs)
}

/// a valid schedule for the layout: completions only for requests that were submitted and have not
/// completed yet (the generator mirrors the reader's bookkeeping; `style` picks the shape)
fn ar_schedule(rng: &mut Rng, c: usize, ks: &[usize], style: u64) -> Vec<String> {
    let total = ks.len();
    let (mut req, mut proc) = (0usize, 0usize);
    let mut known = c;
    let mut got: Vec<bool> = vec![false; total];
    let mut inflight: Vec<usize> = Vec::new();
    let mut out = Vec::new();
    let mut guard_steps = 0;
    while proc < total && guard_steps < 20 * total + 400 {
        guard_steps += 1;
        // how many submits in this burst
        let burst = match style {
            0 => 128,                          // the worker: as many as it may have in flight
            1 => 1,
            2 => rng.range(1, 6) as usize,
            _ => rng.range(1, 200) as usize,
        };
        for _ in 0..burst {
            out.push("s".to_string());
            if req < total && req < known {
                inflight.push(req);
                req += 1;
            }
        }
        if inflight.is_empty() {
            continue;
        }
        // how many completions arrive before the next burst, and in which order
        let ncomp = match style {
            0 => 1,
            1 => 1,
            _ => rng.range(1, inflight.len() as u64) as usize,
        };
        for _ in 0..ncomp.min(inflight.len()) {
            let pick = match rng.below(4) {
                0 => 0,
                1 => inflight.len() - 1,
                _ => rng.below(inflight.len() as u64) as usize,
            };
            let i = inflight.remove(pick);
            out.push(format!("c{}", i));
            got[i] = true;
            while proc < total && got[proc] {
                known += ks[proc];
                proc += 1;
            }
        }
    }
    out
}

fn eval_asyncread(acc: &mut Acc, m: &mut Model, size: usize, sched: &str, line: &str) {
    let (c, ks, bs) = ar_layout(size);
    let total = ks.len();
    // page numbers 1..=total; page i carries its numbers and bytes in chunk's format
    let mut pages: Vec<Vec<u8>> = Vec::with_capacity(total);
    let mut next_pn = c as u32 + 1;
    let mut value: Vec<u8> = Vec::with_capacity(size);
    let mut segs: Vec<(usize, usize)> = Vec::new();
    for i in 0..total {
        let mut pg = vec![0u8; 4096];
        pg[0..2].copy_from_slice(&(ks[i] as u16).to_le_bytes());
        pg[2..4].copy_from_slice(&(bs[i] as u16).to_le_bytes());
        for j in 0..ks[i] {
            pg[4 + 4 * j..8 + 4 * j].copy_from_slice(&next_pn.to_le_bytes());
            next_pn += 1;
        }
        let start = 4 + 4 * ks[i];
        for j in 0..bs[i] {
            pg[start + j] = ((i * 31 + j * 7 + 1) % 251) as u8;
        }
        segs.push((value.len(), bs[i]));
        value.extend_from_slice(&pg[start..start + bs[i]]);
        pages.push(pg);
    }
    let mut cell = vec![0u8; 40 + 4 * c];
    cell[0..8].copy_from_slice(&(size as u64).to_le_bytes());
    for j in 0..c {
        cell[40 + 4 * j..44 + 4 * j].copy_from_slice(&(j as u32 + 1).to_le_bytes());
    }
    let events: Vec<Option<usize>> = sched.split(',').filter(|t| !t.is_empty()).map(|t| if t == "s" { None } else { Some(t[1..].parse().unwrap()) }).collect();
    let dir = crate::util::fresh_dir("asyncread");
    std::fs::create_dir_all(&dir).unwrap();
    let path = dir.join("ln");
    let f = std::fs::OpenOptions::new().read(true).write(true).create(true).open(&path).unwrap();
    f.set_len((total as u64 + 2) * 4096).unwrap();
    let got = catch_unwind(AssertUnwindSafe(|| nomt::verif_api::async_overflow_read(f, &cell, &pages, &events)));
    let _ = std::fs::remove_dir_all(&dir);
    acc.evals += 1;
    acc.inc("asyncread.schedules", 1);
    acc.inc("asyncread.events", events.len() as u64);
    if total > CELL_PTRS {
        acc.nontrivial.insert(line.to_string());
        acc.inc("asyncread.values_with_page_numbers_outside_the_cell", 1);
    }
    let kstr = ks.iter().map(|k| k.to_string()).collect::<Vec<_>>().join(",");
    let model = m.ask(&format!("asyncread 1 {} {} {}", c, kstr, sched));
    let unguarded = m.ask(&format!("asyncread 0 {} {} {}", c, kstr, sched));
    if unguarded == "panic" {
        acc.inc("asyncread.schedules_on_which_the_unguarded_model_panics", 1);
    }
    let (subs, value_got) = match got {
        Ok(x) => x,
        Err(e) => {
            let msg = e.downcast_ref::<String>().cloned().or_else(|| e.downcast_ref::<&str>().map(|s| s.to_string())).unwrap_or_else(|| "panic".into());
            acc.violate("c09-asyncread-panic", format!("the asynchronous overflow reader panicked ({}) on a value of {} bytes ({} pages, {} in the cell); model: {}", msg, size, total, c, short(&model)), line.to_string());
            return;
        }
    };
    if model == "panic" || !model.starts_with("subs=") {
        acc.violate("c09-asyncread-model", format!("the model answers {:?}", short(&model)), line.to_string());
        return;
    }
    let field = |k: &str| model.split(' ').find_map(|t| t.strip_prefix(k)).unwrap_or("").to_string();
    let subs_real: String = subs.iter().map(|s| match s { Some(i) => format!("{},", i), None => "-,".to_string() }).collect();
    // the real loop stops at the value; the model consumed the whole schedule (later submits answer "-")
    let msubs = field("subs=");
    if !msubs.starts_with(&subs_real) || (value_got.is_none() && msubs != subs_real) {
        acc.violate("c09-asyncread-submits-model-disagrees", format!("submit outcomes differ: real {} model {}", short(&subs_real), short(&msubs)), line.to_string());
        return;
    }
    let mdone = field("done=") == "1";
    match (&value_got, mdone) {
        (Some(v), true) => {
            let order: Vec<usize> = field("val=").split(',').filter(|t| !t.is_empty()).map(|t| t.parse().unwrap()).collect();
            let mut expect = Vec::with_capacity(size);
            for i in &order {
                expect.extend_from_slice(&value[segs[*i].0..segs[*i].0 + segs[*i].1]);
            }
            if *v != expect || expect != value {
                acc.violate("c09-asyncread-value", format!("the value returned for {} bytes / {} pages differs from the bytes of the pages in order", size, total), line.to_string());
            }
            acc.inc("asyncread.values_completed", 1);
        }
        (None, false) => acc.inc("asyncread.schedules_ending_before_the_value", 1),
        (a, b) => acc.violate("c09-asyncread-done-model-disagrees", format!("real value present: {}, model done: {}", a.is_some(), b), line.to_string()),
    }
}

fn gen_c09(rng: &mut Rng, thorough: bool) -> Vec<String> {
    let mut items = Vec::new();
    let mut sizes: Vec<usize> = vec![1333, 4092, 4093, 15 * 4092, 15 * 4092 + 1, 16 * 4092 - 4, 16 * 4092 - 3, 70000, 130000];
    for _ in 0..(if thorough { 60 } else { 14 }) {
        sizes.push(rng.range(1333, 300_000) as usize);
    }
    // more than 15 + 1023 pages: page numbers are spread over the first TWO pages of the value
    sizes.push(4_243_390);
    sizes.push(4_260_000);
    if thorough {
        sizes.push(8_500_000);
    }
    for size in sizes {
        let (c, ks, _) = ar_layout(size);
        for style in 0..4u64 {
            let reps = if ks.len() > 1000 { 1 } else if thorough { 4 } else { 2 };
            for _ in 0..reps {
                let sched = ar_schedule(rng, c, &ks, style);
                items.push(format!("asyncread {} {}", size, sched.join(",")));
            }
        }
    }
    items
}

// ---------------------------------------------------------------------------------------------
// C03 / C16: the WAL blob builder (hook H8) against the Coq WAL codec (Wal.v), on chosen lengths

/// entries whose encoding (start tag + seqn, entries, WITHOUT the end tag) is exactly `len` bytes:
/// 5 + 9 per clear + (65 + 32 * nodes) per update
fn wal_spec_for_len(rng: &mut Rng, len: usize) -> Option<String> {
    let mut cands = Vec::new();
    for p in 0..=96usize {
        for c in 0..=40usize {
            if 5 + 65 * p + 9 * c > len {
                break;
            }
            let rem = len - 5 - 65 * p - 9 * c;
            if rem % 32 == 0 && rem / 32 <= 126 * p {
                cands.push((p, c, rem / 32));
            }
        }
    }
    if cands.is_empty() {
        return None;
    }
    let (p, c, mut n) = cands[rng.below(cands.len() as u64) as usize];
    // spread the nodes over the updates
    let mut per = vec![0usize; p];
    let mut i = 0;
    while n > 0 {
        let room = 126 - per[i % p];
        let take = room.min(n).min(1 + rng.below(126) as usize);
        per[i % p] += take;
        n -= take;
        i += 1;
    }
    let mut toks: Vec<String> = per.iter().enumerate().map(|(j, k)| format!("u{}:{}", 1000 + j, k)).collect();
    toks.extend((0..c).map(|j| format!("c{}", 5000 + j)));
    // shuffle
    for j in (1..toks.len()).rev() {
        let k = rng.below(j as u64 + 1) as usize;
        toks.swap(j, k);
    }
    Some(toks.join(","))
}

fn eval_walblob(acc: &mut Acc, m: &mut Model, seqn: u32, spec: &str, line: &str) {
    let mut entries: Vec<(u64, Option<([u8; 32], [u8; 16], Vec<[u8; 32]>, [u8; 8])>)> = Vec::new();
    let mut want: Vec<String> = Vec::new();
    let mut content = 5usize;
    for (idx, t) in spec.split(',').filter(|t| !t.is_empty()).enumerate() {
        if let Some(b) = t.strip_prefix('c') {
            let b: u64 = b.parse().unwrap();
            entries.push((b, None));
            want.push(format!("C {}", b));
            content += 9;
        } else {
            let (b, k) = t[1..].split_once(':').unwrap();
            let (b, k): (u64, usize) = (b.parse().unwrap(), k.parse().unwrap());
            let mut id = [0u8; 32];
            for (j, x) in id.iter_mut().enumerate() {
                *x = ((idx * 37 + j * 11 + 3) % 256) as u8;
            }
            // the first k slots changed
            let mut bits = [0u64; 2];
            for sl in 0..k {
                bits[sl / 64] |= 1 << (sl % 64);
            }
            let mut diff = [0u8; 16];
            diff[0..8].copy_from_slice(&bits[0].to_le_bytes());
            diff[8..16].copy_from_slice(&bits[1].to_le_bytes());
            let nodes: Vec<[u8; 32]> = (0..k).map(|sl| [((idx + sl * 5 + 1) % 255) as u8; 32]).collect();
            let elided = (idx as u64 * 0x9E37_79B9).to_le_bytes();
            entries.push((b, Some((id, diff, nodes, elided))));
            want.push(format!("U {} {} {} {}", b, hex(&id), k, u64::from_le_bytes(elided)));
            content += 65 + 32 * k;
        }
    }
    acc.evals += 1;
    acc.inc("walblob.blobs", 1);
    acc.inc(&format!("walblob.content_len_mod_4096={}", match content % 4096 { 0 => "0", 4095 => "4095", 1 => "1", _ => "other" }), 1);
    acc.nontrivial.insert(line.to_string());
    let blob = match catch_unwind(AssertUnwindSafe(|| nomt::verif_api::wal_blob(seqn, &entries))) {
        Ok(b) => b,
        Err(_) => {
            acc.violate("c03-walblob-panic", format!("WalBlobBuilder panicked on {} entries, content length {}", entries.len(), content), line.to_string());
            return;
        }
    };
    let expect_len = (content + 1 + 4095) / 4096 * 4096;
    if blob.len() != expect_len {
        acc.violate("c03-walblob-length", format!("the blob has {} bytes; {} bytes of entries plus the end tag need {} (whole pages)", blob.len(), content, expect_len), line.to_string());
    }
    let dir = crate::util::fresh_dir("walblob");
    std::fs::create_dir_all(&dir).unwrap();
    std::fs::write(dir.join("wal"), &blob).unwrap();
    let r = m.ask(&format!("walopen {}", dir.display()));
    let ents = if r.starts_with("ok") { m.ask_multi("walentries") } else { vec![] };
    let _ = std::fs::remove_dir_all(&dir);
    if !r.starts_with("ok") {
        acc.violate("c03-walblob-decode", format!("the Coq WAL decoder rejects the blob the real builder produced for {} entries with content length {} ({} bytes): {}", entries.len(), content, blob.len(), r), line.to_string());
        return;
    }
    let f = |k: &str| r.split(' ').find_map(|t| t.strip_prefix(k)).unwrap_or("").to_string();
    if f("seqn=") != seqn.to_string() || f("reencode=") != "ok" {
        acc.violate("c03-walblob-reencode", format!("decoded seqn {} (built with {}), re-encoding: {}", f("seqn="), seqn, f("reencode=")), line.to_string());
    }
    let got: Vec<String> = ents.into_iter().filter(|l| l != "end").collect();
    if got != want {
        acc.violate("c03-walblob-entries", format!("the decoder reads {} entries, {} were written; first difference at {:?}", got.len(), want.len(), got.iter().zip(want.iter()).position(|(a, b)| a != b)), line.to_string());
    }
}

fn gen_c03(rng: &mut Rng, thorough: bool) -> Vec<String> {
    let mut items = Vec::new();
    let mut lens: Vec<usize> = Vec::new();
    for pages in [1usize, 2, 3, 4, 8] {
        for d in [-66i64, -33, -9, -2, -1, 0, 1, 2, 9, 33] {
            lens.push((pages as i64 * 4096 + d) as usize);
        }
    }
    lens.extend([5usize, 14, 70, 102, 500]);
    for _ in 0..(if thorough { 200 } else { 30 }) {
        lens.push(rng.range(5, 40_000) as usize);
    }
    for l in lens {
        for _ in 0..(if thorough { 3 } else { 1 }) {
            if let Some(spec) = wal_spec_for_len(rng, l) {
                items.push(format!("walblob {} {}", 1 + rng.below(1000), spec));
            }
        }
    }
    items
}

fn gen_c01(rng: &mut Rng, thorough: bool) -> Vec<String> {
    let mut items = Vec::new();
    // every size of [1333, 300000]
    let (lo, hi, step) = (1333usize, 300_000usize, 20_000usize);
    let mut s = lo;
    while s <= hi {
        let e = (s + step - 1).min(hi);
        items.push(format!("tnprange {} {}", s, e));
        s = e + 1;
    }
    // the first over-allocated sizes (Overflow_proofs.total_needed_pages_not_least) and their neighbours
    items.push("tnprange 4243390 4243420".to_string());
    let sizes = gen_sizes(rng, if thorough { 600_000 } else { 40_000 });
    for c in sizes.chunks(1000) {
        items.push(format!("tnp {}", c.iter().map(|x| x.to_string()).collect::<Vec<_>>().join(" ")));
    }
    for (a, b) in gen_pairs(rng, if thorough { 24 } else { 2 }) {
        items.push(format!("bitops {} {}", hex(&a), hex(&b)));
    }
    items
}

// ---------------------------------------------------------------------------------------------

fn short(s: &str) -> String {
    if s.len() > 240 {
        format!("{}... ({} chars)", &s[..240], s.len())
    } else {
        s.to_string()
    }
}

fn replay(file: &str, kv: &HashMap<String, String>) -> i32 {
    let txt = std::fs::read_to_string(file).expect("replay file");
    let mut acc = Acc { verbose: true, strict_least: kv.get("strict-least").map(|v| v == "1").unwrap_or(false), ..Default::default() };
    let mut m = Model::spawn();
    for l in txt.lines() {
        let l = l.trim();
        if l.is_empty() || l.starts_with('#') {
            continue;
        }
        println!("item: {}", short(l));
        eval_line(&mut acc, &mut m, l);
    }
    println!("{} evaluations, {} violations", acc.evals, acc.viol.len());
    if acc.viol.is_empty() {
        0
    } else {
        1
    }
}

pub fn cmd_misc(kv: &HashMap<String, String>) -> i32 {
    if let Some(f) = kv.get("replay") {
        return replay(f, kv);
    }
    let prop = kv.get("prop").cloned().expect("--prop");
    let thorough = kv.get("tier").map(|t| t == "thorough").unwrap_or(false);
    let seed: u64 = kv.get("seed").and_then(|s| s.parse().ok()).unwrap_or(1);
    let out = kv.get("out").cloned().expect("--out");
    let replay_dir = kv.get("replays").cloned().unwrap_or_else(|| format!("/verif/replays/{}", prop));
    std::fs::create_dir_all(&replay_dir).ok();
    if let Ok(rd) = std::fs::read_dir(&replay_dir) {
        for e in rd.filter_map(|e| e.ok()) {
            if e.file_name().to_string_lossy().starts_with(&format!("{}-misc-", prop)) {
                let _ = std::fs::remove_file(e.path());
            }
        }
    }
    let t0 = std::time::Instant::now();
    let mut rng = Rng::new(seed ^ 0x515C);
    let items = match prop.as_str() {
        "C13" => gen_c13(&mut rng, thorough),
        "C01" => gen_c01(&mut rng, thorough),
        "C09" => gen_c09(&mut rng, thorough),
        "C03" | "C16" => gen_c03(&mut rng, thorough),
        p => {
            eprintln!("nv misc: no checks for property {}", p);
            return 2;
        }
    };
    let mut acc = Acc { strict_least: kv.get("strict-least").map(|v| v == "1").unwrap_or(false), ..Default::default() };
    let mut m = Model::spawn();
    let mut harness_panics: Vec<(usize, String)> = Vec::new();
    for (i, l) in items.iter().enumerate() {
        let r = catch_unwind(AssertUnwindSafe(|| eval_line(&mut acc, &mut m, l)));
        if let Err(e) = r {
            let msg = e.downcast_ref::<String>().cloned().or_else(|| e.downcast_ref::<&str>().map(|s| s.to_string())).unwrap_or_else(|| "panic".into());
            harness_panics.push((i, msg));
            m = Model::spawn();
            if harness_panics.len() > 8 {
                break;
            }
        }
    }

    let mut violations: Vec<J> = Vec::new();
    let mut per_sig: BTreeMap<String, usize> = BTreeMap::new();
    for (i, msg) in &harness_panics {
        let path = format!("{}/{}-misc-seed{}-{}-harness.txt", replay_dir, prop, seed, i);
        std::fs::write(&path, format!("# property {} sig harness\n# harness panic: {}\n# re-run: nv misc --replay {}\n{}\n", prop, msg, path, items[*i])).unwrap();
        violations.push(J::obj(vec![("replay", J::s(path)), ("sig", J::s("harness")), ("kind", J::s("harness")), ("detail", J::s(format!("harness panic: {}", msg)))]));
    }
    for (vi, (sig, detail, line)) in acc.viol.iter().enumerate() {
        let c = per_sig.entry(sig.clone()).or_default();
        *c += 1;
        if *c > 8 {
            continue; // counted, not written
        }
        let path = format!("{}/{}-misc-seed{}-{}.txt", replay_dir, prop, seed, vi);
        std::fs::write(&path, format!("# property {} sig {}\n# {}\n# re-run: nv misc --replay {}\n{}\n", prop, sig, detail.replace('\n', " "), path, line)).unwrap();
        violations.push(J::obj(vec![("replay", J::s(path)), ("sig", J::s(sig.clone())), ("kind", J::s(sig.clone())), ("detail", J::s(detail.clone()))]));
    }
    let samples: Vec<J> = {
        let mut seen = HashSet::new();
        items.iter().filter(|l| seen.insert(l.split(' ').next().unwrap_or("").to_string())).take(6).map(|l| J::s(short(l))).collect()
    };
    let rule = match prop.as_str() {
        "C03" | "C16" => "one evaluation = one WAL blob built by the REAL WalBlobBuilder (hook H8: verif_api::wal_blob) from a chosen entry list - clears and updates with 0..126 changed nodes, the lengths chosen so that the encoded entries end exactly on, one byte before and one byte after a 4 KiB boundary (1, 2, 3, 4, 8 pages) besides random lengths - and decoded by the extracted Coq WAL decoder (Wal.v): the decoder must accept it, report the sequence number and exactly the entries written, the Coq encoder must reproduce the bytes, and the blob must be the entries plus the end tag rounded up to whole pages; distinct = distinct item text",
        "C09" => "one evaluation = one schedule (bursts of submits, completions in arbitrary order; the generator only emits completions of requests that are in flight) run through the REAL beatree AsyncReader (hook H7: verif_api::async_overflow_read over a scratch file; pages in overflow::chunk's format) and through the extracted AsyncRead.run: the outcome of every submit (index or none), whether the reader is done, and the returned value (the bytes of the pages in the order the model parsed them, equal to the whole value) must agree, and the real reader must not panic; values of 1 to 2000+ pages incl. 15 / 16 pages and more than 15 + 1023 pages; distinct = distinct item text; non-trivial = a value with page numbers outside the leaf cell (more than 15 pages)",
        "C13" => "one evaluation = one result of the real function judged by / compared with the extracted Coq functions of ShardsGen.v applied to the REAL regions: one shard's (min key, max key, child count) of shard_regions(n) under regions_okb (ANY partition of the 64 root children into contiguous non-empty runs passes; the comparison with the reference split Shards.shard_regions is a statistic), one answer of shard_index_for(n, child) against index_of_child on the real regions - both for ALL n in 1..=64 and ALL 64 children - and one worker's [range_start, range_end) of a generated sorted batch computed as RangeUpdater::new does (binary_search_by_key / partition_point on the real region keys) against ranges_of <real regions> batch; each item is also checked on the Rust values against the proved statements (regions_okb_sound, ranges_partition_gen); distinct = distinct item text; non-trivial = a batch spread over at least two workers, or a region / index answer",
        _ => "one evaluation = one result of the real function compared with the extracted Coq mirror on the same input: total_needed_pages(size) (Overflow.v; every size in [1333, 300000] plus sampled sizes up to 2^29) and, per key pair, prefix_len, separate (value or panic) and separator_len of a, b and the separator (BitOps.v; shared prefixes of every length 0..255, adjacent keys, all-zero / all-one tails, equal keys); the Rust values are also checked against the proved statements (fits, last page used, at most one page wasted; a < separator <= b, shortest, zero padded prefix of b); distinct = distinct input; non-trivial = a size needing out-of-cell pointers (more than 15 pages) or a key pair with a < b",
    };
    let j = J::obj(vec![
        ("engine", J::s("misc")),
        ("property", J::s(prop.clone())),
        ("evaluations", J::Int(acc.evals as i64)),
        ("distinct_nontrivial", J::Int(acc.nontrivial.len() as i64)),
        ("rule", J::s(rule)),
        ("items", J::Int(items.len() as i64)),
        (
            "stats",
            J::obj(vec![
                ("counters", J::Obj(acc.stats.iter().map(|(k, v)| (k.clone(), J::Int(*v as i64))).collect())),
                // C13: which valid split the code uses is a policy - reported, never a violation
                (
                    "regions_equal_to_the_reference_split",
                    match acc.stats.get("shards.splits_judged") {
                        Some(t) => J::s(format!("{} of {}", acc.stats.get("shards.regions_equal_to_the_reference_split").copied().unwrap_or(0), t)),
                        None => J::Null,
                    },
                ),
                ("sizes_with_one_page_more_than_needed", J::Arr(acc.overalloc_samples.iter().map(|s| J::Int(*s as i64)).collect())),
                ("violations_per_sig", J::Obj(per_sig.iter().map(|(k, v)| (k.clone(), J::Int(*v as i64))).collect())),
            ]),
        ),
        ("samples", J::Arr(samples)),
        ("violations", J::Arr(violations.clone())),
        ("wall_s", J::Num(t0.elapsed().as_secs_f64())),
    ]);
    std::fs::write(&out, j.to_string()).unwrap();
    if violations.is_empty() {
        0
    } else {
        1
    }
}
