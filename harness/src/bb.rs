//! E-bb: function-level differential of the code that REBUILDS branch nodes (properties C01 / C16).
//!
//! One item = a few stages, each one base branch node plus the separators ingested while it is the
//! base (insert / update of the page number / delete), as `branch_stage` drives `BranchUpdater`:
//! `reset_base`, `ingest`.., `digest`.  The real updater (with the real `BranchGauge`,
//! `BranchOpsTracker`, `BranchNodeBuilder`) is reached through the hook
//! `nomt::verif_api::branch_rebuild` (hook H4); the same stages are given to the extracted Coq mirror
//! `BranchBuild.run_stages` (model co-process, `bbrun`), and every page the real updater built is
//! decoded by the Coq decoder and checked by the extracted `check_page` / `check_model` (`bbcheck`).
//! The nodes built in one round are the base nodes of the next round (the shape the argument of
//! BranchBuild_proofs starts from must be the shape it ends with).
//!
//! Signatures
//!   c01-bb-gauge    `gauge.body_size()` != body size of the real page (cells + prefix and stored
//!                   bits + node pointers, read off the page by the Coq decoder), header != gauge,
//!                   or a stored length that is not the one the gauge accounts for
//!   c01-bb-overlap  the page does not decode (the separator bit vector reaches into the node
//!                   pointer array), its body exceeds BRANCH_NODE_BODY_SIZE, or it does not decode to
//!                   the separators and node pointers that were pushed (expected content = the bases
//!                   merged with the operations, computed here)
//!   c01-bb-model    the mirror's prediction (nodes, gauge values, stored lengths, pointers,
//!                   NeedsMerge) differs from the real run
//!   c01-bb-panic    the real updater / builder panicked on a valid input
//!
//! Item line (= replay file):
//!   bb1 base=<pc>@<key>:<pn>,.. ops=<key>:<pn|d>,.. cutoff=<key|-> | <stage> | .. [; chain=<seed>,..]

use crate::json::J;
use crate::model::Model;
use crate::util::{get_bit, hex, key_from_hex, set_bit, Key, Rng};
use nomt::verif_api::{branch_build, branch_rebuild, VerifBranchStage};
use std::collections::{BTreeMap, BTreeSet, HashMap};
use std::panic::{catch_unwind, AssertUnwindSafe};
use std::sync::{Arc, Mutex};

const BODY: usize = 4086;

fn sep_len(k: &Key) -> usize {
    for i in (0..32).rev() {
        if k[i] != 0 {
            return 8 * i + 8 - k[i].trailing_zeros() as usize;
        }
    }
    1
}

fn pfx_len(a: &Key, b: &Key) -> usize {
    for i in 0..32 {
        if a[i] != b[i] {
            return 8 * i + (a[i] ^ b[i]).leading_zeros() as usize;
        }
    }
    256
}

/// body size of a node holding `keys`, the first `pc` of them prefix-compressed
fn est_body(keys: &[Key], pc: usize) -> usize {
    if keys.is_empty() {
        return 0;
    }
    let pc = pc.min(keys.len()).max(1);
    let plen = if pc == 1 { sep_len(&keys[0]) } else { pfx_len(&keys[0], &keys[pc - 1]) };
    let mut bits = plen;
    for (i, k) in keys.iter().enumerate() {
        bits += if i < pc { sep_len(k).saturating_sub(plen) } else { sep_len(k) };
    }
    6 * keys.len() + (bits + 7) / 8
}

// ------------------------------------------------------------------------------------------------
// items

#[derive(Clone, Debug)]
pub struct StageSpec {
    pub base: Option<(usize, Vec<(Key, u32)>)>, // (prefix_compressed, separators)
    pub ops: Vec<(Key, Option<u32>)>,
    pub cutoff: Option<Key>,
}

#[derive(Clone, Debug)]
pub struct Item {
    pub stages: Vec<StageSpec>,
    pub chain: Vec<u64>,
    pub label: String,
}

fn ops_text(ops: &[(Key, Option<u32>)]) -> String {
    ops.iter()
        .map(|(k, p)| match p {
            Some(p) => format!("{}:{}", hex(k), p),
            None => format!("{}:d", hex(k)),
        })
        .collect::<Vec<_>>()
        .join(",")
}

impl Item {
    pub fn to_line(&self) -> String {
        let st: Vec<String> = self
            .stages
            .iter()
            .map(|s| {
                let base = match &s.base {
                    None => "-".to_string(),
                    Some((pc, seps)) => format!("{}@{}", pc, seps.iter().map(|(k, p)| format!("{}:{}", hex(k), p)).collect::<Vec<_>>().join(",")),
                };
                format!("base={} ops={} cutoff={}", base, ops_text(&s.ops), s.cutoff.map(|k| hex(&k)).unwrap_or_else(|| "-".into()))
            })
            .collect();
        let mut l = format!("bb1 {}", st.join(" | "));
        if !self.chain.is_empty() {
            l += &format!(" ; chain={}", self.chain.iter().map(|s| s.to_string()).collect::<Vec<_>>().join(","));
        }
        l
    }

    pub fn from_line(line: &str) -> Item {
        let line = line.trim();
        let body = line.strip_prefix("bb1 ").expect("bb item line");
        let (st, chain) = match body.split_once(" ; chain=") {
            Some((a, b)) => (a, b.split(',').filter(|s| !s.is_empty()).map(|s| s.parse().unwrap()).collect()),
            None => (body, vec![]),
        };
        let parse_ops = |s: &str| -> Vec<(Key, Option<u32>)> {
            s.split(',')
                .filter(|t| !t.is_empty())
                .map(|t| {
                    let (k, p) = t.split_once(':').unwrap();
                    (key_from_hex(k), if p == "d" { None } else { Some(p.parse().unwrap()) })
                })
                .collect()
        };
        let stages = st
            .split(" | ")
            .map(|s| {
                let mut base = None;
                let mut ops = vec![];
                let mut cutoff = None;
                for f in s.split(' ') {
                    if let Some(b) = f.strip_prefix("base=") {
                        if b != "-" {
                            let (pc, seps) = b.split_once('@').unwrap();
                            base = Some((pc.parse().unwrap(), parse_ops(seps).into_iter().map(|(k, p)| (k, p.unwrap())).collect()));
                        }
                    } else if let Some(o) = f.strip_prefix("ops=") {
                        ops = parse_ops(o);
                    } else if let Some(c) = f.strip_prefix("cutoff=") {
                        if c != "-" {
                            cutoff = Some(key_from_hex(c));
                        }
                    }
                }
                StageSpec { base, ops, cutoff }
            })
            .collect();
        Item { stages, chain, label: "replay".into() }
    }
}

// ------------------------------------------------------------------------------------------------
// generation

fn idx_key(idx: u8) -> Key {
    let mut k = [0u8; 32];
    k[0] = idx << 5;
    k
}

/// random bits from position `from` on, cut (zeros) behind position `upto`
fn rand_tail(rng: &mut Rng, k: &mut Key, from: usize, upto: usize) {
    let r = rng.key();
    for i in from..256 {
        set_bit(k, i, i < upto && get_bit(&r, i));
    }
}

struct NodeGen {
    keys: Vec<Key>,
    pc: usize,
}

/// the keys of one base node, all beginning with the 3 bits of `idx`
fn gen_node(rng: &mut Rng, idx: u8, want_tail: bool, label: &mut String) -> NodeGen {
    // the shared prefix: the 3 index bits, r random bits, zeros up to plen
    let plen = *rng.pick(&[3usize, 4, 8, 9, 17, 40, 64, 100, 130, 170, 200, 230, 247]);
    // the tail keys have bit 3 set, the compressed ones not
    let plen = if want_tail { plen.max(4) } else { plen };
    let mut prefix = idx_key(idx);
    let r_bits = if rng.chance(1, 2) { 0 } else { rng.below((plen - 3) as u64 + 1) as usize };
    // bit 3 stays 0 when the node gets an uncompressed tail (the tail keys have bit 3 set)
    let r_from = if want_tail { 4 } else { 3 };
    if r_bits > 0 && r_from < plen {
        rand_tail(rng, &mut prefix, r_from, (r_from + r_bits).min(plen));
    }
    let first_short = rng.chance(2, 3);
    let style = rng.below(4); // tails: 0 counter, 1 full random, 2 random cut at a random length, 3 short
    let target = match rng.below(8) {
        0 => rng.range(1, 12) as usize * 6,
        1 => rng.range(100, 1900) as usize,
        2 => rng.range(1900, 2200) as usize,
        3 | 4 => BODY - rng.below(24) as usize,
        5 => rng.range(2200, 4000) as usize,
        _ => rng.range(30, 1200) as usize,
    };
    *label += &format!(" node(idx={} plen={} rbits={} first_short={} style={} target={} tail={})", idx, plen, r_bits, first_short, style, target, want_tail);
    let mut set: BTreeSet<Key> = BTreeSet::new();
    if first_short {
        // the prefix padded with zeros: its separator_len is at most plen
        set.insert(prefix);
    }
    let mut ctr: u64 = rng.below(3);
    let mut guard = 0;
    loop {
        guard += 1;
        if guard > 5000 {
            break;
        }
        let mut k = prefix;
        match style {
            0 => {
                ctr += 1 + rng.below(3);
                let w = 24.min(256 - plen);
                for b in 0..w {
                    set_bit(&mut k, plen + b, (ctr >> (w - 1 - b)) & 1 == 1);
                }
            }
            1 => rand_tail(rng, &mut k, plen, 256),
            2 => {
                let upto = plen + 1 + rng.below((256 - plen) as u64) as usize;
                rand_tail(rng, &mut k, plen, upto);
            }
            _ => {
                let upto = (plen + 1 + rng.below(12) as usize).min(256);
                rand_tail(rng, &mut k, plen, upto);
            }
        }
        if k == prefix {
            continue;
        }
        if set.contains(&k) {
            continue;
        }
        set.insert(k);
        let cand: Vec<Key> = set.iter().cloned().collect();
        if est_body(&cand, cand.len()) > target.min(BODY) && cand.len() > 1 {
            set.remove(&k);
            break;
        }
    }
    let mut keys: Vec<Key> = set.into_iter().collect();
    let pc = keys.len();
    if want_tail {
        // unrelated separators behind the compressed ones: bit 3 set, as long as the node fits
        let mut tail: BTreeSet<Key> = BTreeSet::new();
        let cnt = rng.range(1, 12);
        for _ in 0..cnt {
            let mut k = idx_key(idx);
            set_bit(&mut k, 3, true);
            let upto = if rng.chance(1, 2) { 256 } else { 5 + rng.below(250) as usize };
            rand_tail(rng, &mut k, 4, upto);
            let mut all = keys.clone();
            all.extend(tail.iter().cloned());
            all.push(k);
            if est_body(&all, pc) <= BODY {
                tail.insert(k);
            }
        }
        keys.extend(tail.into_iter());
    }
    NodeGen { keys, pc: pc.max(1) }
}

/// a key in [lo, hi) derived from `from` by re-rolling its bits from position `pos` on
fn key_near(rng: &mut Rng, from: &Key, pos: usize, lo: &Key, hi: Option<&Key>) -> Option<Key> {
    for _ in 0..8 {
        let mut k = *from;
        let upto = if rng.chance(1, 2) { 256 } else { (pos + 1 + rng.below(40) as usize).min(256) };
        rand_tail(rng, &mut k, pos, upto);
        if &k >= lo && hi.map_or(true, |h| &k < h) {
            return Some(k);
        }
    }
    None
}

/// operations of one stage: ascending distinct keys in [lo, hi)
fn gen_ops(rng: &mut Rng, base: &[(Key, u32)], pc: usize, lo: &Key, hi: Option<&Key>, label: &mut String) -> Vec<(Key, Option<u32>)> {
    let mut ops: BTreeMap<Key, Option<u32>> = BTreeMap::new();
    let n = base.len();
    let pn = |rng: &mut Rng| Some(1 + rng.below(1 << 30) as u32);
    let mut modes = Vec::new();
    let n_modes = rng.range(0, 3);
    for _ in 0..n_modes {
        modes.push(rng.below(14));
    }
    if rng.chance(1, 12) {
        modes.clear(); // pure keep
    }
    *label += &format!(" ops{:?}", modes);
    // a key sharing no more than the index bits with the base keys
    let unrelated = |rng: &mut Rng| -> Option<Key> {
        let from = if n > 0 { base[0].0 } else { *lo };
        key_near(rng, &from, 3, lo, hi)
    };
    for m in modes {
        match m {
            0 if n > 0 => {
                ops.insert(base[0].0, None);
            }
            1 if n > 0 => {
                ops.insert(base[0].0, pn(rng));
            }
            2 if n > 0 => {
                let k = rng.range(1, 4.min(n as u64)) as usize;
                for i in n - k..n {
                    ops.insert(base[i].0, None);
                }
            }
            3 if n > pc => {
                // touch the uncompressed tail
                let i = pc + rng.below((n - pc) as u64) as usize;
                let v = if rng.chance(1, 2) { None } else { pn(rng) };
                ops.insert(base[i].0, v);
            }
            4 => {
                // one unrelated separator behind everything
                if let Some(k) = unrelated(rng) {
                    ops.insert(k, pn(rng));
                }
            }
            5 if n > 0 => {
                // separators sharing a long prefix with a base key
                let cnt = rng.range(1, 6);
                for _ in 0..cnt {
                    let b = base[rng.below(n as u64) as usize].0;
                    let pos = sep_len(&b).saturating_sub(rng.below(6) as usize).min(255);
                    if let Some(k) = key_near(rng, &b, pos, lo, hi) {
                        ops.entry(k).or_insert_with(|| pn(rng));
                    }
                }
            }
            6 if n > 0 => {
                // many near separators: the node overflows and splits
                let cnt = rng.range(50, 500);
                for _ in 0..cnt {
                    let b = base[rng.below(n as u64) as usize].0;
                    let pos = pfx_len(&base[0].0, &base[n - 1].0).max(3) + rng.below(8) as usize;
                    if let Some(k) = key_near(rng, &b, pos.min(255), lo, hi) {
                        ops.entry(k).or_insert_with(|| pn(rng));
                    }
                }
            }
            7 => {
                // many unrelated separators: bulk split
                let cnt = rng.range(20, 900);
                for _ in 0..cnt {
                    if let Some(k) = unrelated(rng) {
                        ops.entry(k).or_insert_with(|| pn(rng));
                    }
                }
            }
            8 if n > 0 => {
                // random touches
                let p = rng.range(1, 30);
                for (k, _) in base {
                    if rng.chance(p, 100) {
                        let v = if rng.chance(1, 2) { None } else { pn(rng) };
                        ops.insert(*k, v);
                    }
                }
            }
            9 if n > 0 => {
                // update runs (Update operations adjacent to kept chunks)
                let s = rng.below(n as u64) as usize;
                let e = (s + rng.range(1, 5) as usize).min(n);
                for i in s..e {
                    ops.insert(base[i].0, pn(rng));
                }
            }
            10 if n > 1 => {
                // delete everything but a few
                let keep = rng.range(1, 3) as usize;
                let mut kept = BTreeSet::new();
                for _ in 0..keep {
                    kept.insert(rng.below(n as u64) as usize);
                }
                for i in 0..n {
                    if !kept.contains(&i) {
                        ops.insert(base[i].0, None);
                    }
                }
            }
            11 if n > 0 => {
                // a few unrelated separators in the middle of a long shared prefix run
                let cnt = rng.range(1, 4);
                for _ in 0..cnt {
                    let b = base[rng.below(n as u64) as usize].0;
                    let pos = rng.range(3, 40) as usize;
                    if let Some(k) = key_near(rng, &b, pos, lo, hi) {
                        ops.entry(k).or_insert_with(|| pn(rng));
                    }
                }
            }
            12 if n > 0 => {
                // update the first, keep the rest, one separator with a shorter common prefix behind
                ops.insert(base[0].0, pn(rng));
                if let Some(k) = unrelated(rng) {
                    ops.entry(k).or_insert_with(|| pn(rng));
                }
            }
            _ => {
                // a handful of fresh separators anywhere in range
                let cnt = rng.range(1, 8);
                for _ in 0..cnt {
                    if let Some(k) = unrelated(rng) {
                        ops.entry(k).or_insert_with(|| pn(rng));
                    }
                }
            }
        }
    }
    ops.into_iter().collect()
}

pub fn gen_item(rng: &mut Rng, thorough: bool) -> Item {
    let mut label = String::new();
    let shape = rng.below(10);
    let mut stages = Vec::new();
    if shape == 0 {
        // empty database: insertions only
        let lo = [0u8; 32];
        let mut l2 = String::new();
        let mut ops = gen_ops(rng, &[], 0, &lo, None, &mut l2);
        if ops.is_empty() || rng.chance(1, 2) {
            let cnt = rng.range(1, if thorough { 1500 } else { 700 });
            let from = rng.key();
            let pos = rng.below(200) as usize;
            let mut m: BTreeMap<Key, Option<u32>> = ops.into_iter().collect();
            for _ in 0..cnt {
                if let Some(k) = key_near(rng, &from, pos, &lo, None) {
                    m.insert(k, Some(1 + rng.below(1 << 30) as u32));
                }
            }
            ops = m.into_iter().collect();
        }
        label += " fresh";
        stages.push(StageSpec { base: None, ops: ops.into_iter().filter(|(_, p)| p.is_some()).collect(), cutoff: None });
    } else {
        let n_nodes = match shape {
            1 | 2 => 2,
            3 => 3,
            _ => 1,
        };
        let first_idx = rng.below((8 - n_nodes) as u64 + 1) as u8;
        let mut nodes = Vec::new();
        for i in 0..n_nodes {
            let want_tail = rng.chance(1, 4);
            nodes.push(gen_node(rng, first_idx + i as u8, want_tail, &mut label));
        }
        for i in 0..n_nodes {
            let seps: Vec<(Key, u32)> = nodes[i].keys.iter().map(|k| (*k, 1 + rng.below(1 << 30) as u32)).collect();
            let cutoff = if i + 1 < n_nodes {
                Some(nodes[i + 1].keys[0])
            } else if shape == 4 && first_idx + (n_nodes as u8) < 8 {
                // a cutoff behind the last node: an underfull node asks for a merge, which the
                // closing stage (no base, no cutoff: `remove_cutoff`) then builds
                Some(idx_key(first_idx + n_nodes as u8))
            } else {
                None
            };
            let lo = seps[0].0;
            let ops = gen_ops(rng, &seps, nodes[i].pc, &lo, cutoff.as_ref(), &mut label);
            stages.push(StageSpec { base: Some((nodes[i].pc, seps)), ops, cutoff });
        }
        if stages.last().unwrap().cutoff.is_some() {
            stages.push(StageSpec { base: None, ops: vec![], cutoff: None });
        }
    }
    let rounds = rng.below(3);
    let chain = (0..rounds).map(|_| rng.next() >> 1).collect();
    Item { stages, chain, label }
}

// ------------------------------------------------------------------------------------------------
// running

#[derive(Default, Clone)]
pub struct BbStats {
    pub rounds: u64,
    pub stages: u64,
    pub nodes: u64,
    pub separators: u64,
    pub nodes_pc_lt_n: u64,
    pub nodes_first_short: u64,
    pub nodes_near_full: u64,
    pub nodes_single: u64,
    pub max_body: u64,
    pub stages_split: u64,
    pub stages_needs_merge: u64,
    pub stages_no_base: u64,
    pub prefix_shorter: u64,
    pub prefix_longer: u64,
    pub first_short_prefix_shorter: u64,
    pub first_short_prefix_longer: u64,
    pub bases_with_tail: u64,
    pub ops_in_tail: u64,
    pub chunk_starts_in_tail: u64,
    pub chunk_starts_compressed: u64,
    pub chunk_starts_zero: u64,
    pub inserts: u64,
    pub updates: u64,
    pub deletes: u64,
    pub real_panics: u64,
}

impl BbStats {
    fn merge(&mut self, o: &BbStats) {
        self.rounds += o.rounds;
        self.stages += o.stages;
        self.nodes += o.nodes;
        self.separators += o.separators;
        self.nodes_pc_lt_n += o.nodes_pc_lt_n;
        self.nodes_first_short += o.nodes_first_short;
        self.nodes_near_full += o.nodes_near_full;
        self.nodes_single += o.nodes_single;
        self.max_body = self.max_body.max(o.max_body);
        self.stages_split += o.stages_split;
        self.stages_needs_merge += o.stages_needs_merge;
        self.stages_no_base += o.stages_no_base;
        self.prefix_shorter += o.prefix_shorter;
        self.prefix_longer += o.prefix_longer;
        self.first_short_prefix_shorter += o.first_short_prefix_shorter;
        self.first_short_prefix_longer += o.first_short_prefix_longer;
        self.bases_with_tail += o.bases_with_tail;
        self.ops_in_tail += o.ops_in_tail;
        self.chunk_starts_in_tail += o.chunk_starts_in_tail;
        self.chunk_starts_compressed += o.chunk_starts_compressed;
        self.chunk_starts_zero += o.chunk_starts_zero;
        self.inserts += o.inserts;
        self.updates += o.updates;
        self.deletes += o.deletes;
        self.real_panics += o.real_panics;
    }
    fn json(&self) -> J {
        J::obj(vec![
            ("rounds", J::Int(self.rounds as i64)),
            ("stages", J::Int(self.stages as i64)),
            ("nodes_built", J::Int(self.nodes as i64)),
            ("separators_in_built_nodes", J::Int(self.separators as i64)),
            ("nodes_compression_stopped", J::Int(self.nodes_pc_lt_n as i64)),
            ("nodes_first_separator_shorter_than_prefix", J::Int(self.nodes_first_short as i64)),
            ("nodes_within_16_bytes_of_full", J::Int(self.nodes_near_full as i64)),
            ("nodes_single_separator", J::Int(self.nodes_single as i64)),
            ("max_body_size", J::Int(self.max_body as i64)),
            ("stages_split_into_several_nodes", J::Int(self.stages_split as i64)),
            ("stages_needs_merge", J::Int(self.stages_needs_merge as i64)),
            ("stages_without_base", J::Int(self.stages_no_base as i64)),
            ("nodes_prefix_shorter_than_base", J::Int(self.prefix_shorter as i64)),
            ("nodes_prefix_longer_than_base", J::Int(self.prefix_longer as i64)),
            ("base_first_short_and_prefix_shorter", J::Int(self.first_short_prefix_shorter as i64)),
            ("base_first_short_and_prefix_longer", J::Int(self.first_short_prefix_longer as i64)),
            ("bases_with_uncompressed_tail", J::Int(self.bases_with_tail as i64)),
            ("operations_in_uncompressed_tail", J::Int(self.ops_in_tail as i64)),
            ("kept_ranges_starting_at_0", J::Int(self.chunk_starts_zero as i64)),
            ("kept_ranges_starting_in_compressed_part", J::Int(self.chunk_starts_compressed as i64)),
            ("kept_ranges_starting_in_uncompressed_tail", J::Int(self.chunk_starts_in_tail as i64)),
            ("inserts", J::Int(self.inserts as i64)),
            ("updates", J::Int(self.updates as i64)),
            ("deletes", J::Int(self.deletes as i64)),
            ("real_panics", J::Int(self.real_panics as i64)),
        ])
    }
}

/// a stage with the page of its base
struct RStage {
    base_page: Option<Vec<u8>>,
    base_seps: Vec<(Key, u32)>,
    ops: Vec<(Key, Option<u32>)>,
    cutoff: Option<Key>,
}

/// a node the real updater built, as the Coq decoder reads its page
struct DNode {
    page: Vec<u8>,
    items: Vec<(Key, usize, u32)>,
}

pub struct Outcome {
    pub viol: Vec<(String, String, String)>, // (sig, kind, detail)
    pub stats: BbStats,
    pub nontrivial: bool,
}

fn sig_of(code: &str) -> &'static str {
    match code {
        "VcDecode" | "VcTooBig" | "VcShape" => "c01-bb-overlap",
        "VcHdrN" | "VcHdrPc" | "VcHdrPlen" | "VcGaugeBody" | "VcNonCanon" => "c01-bb-gauge",
        _ => "c01-bb-model",
    }
}

fn hdr(page: &[u8]) -> (usize, usize, usize) {
    let u = |o: usize| u16::from_le_bytes([page[o], page[o + 1]]) as usize;
    (u(4), u(6), u(8))
}

fn stage_stats(st: &RStage, stats: &mut BbStats) {
    stats.stages += 1;
    let Some(page) = &st.base_page else {
        stats.stages_no_base += 1;
        stats.inserts += st.ops.iter().filter(|o| o.1.is_some()).count() as u64;
        return;
    };
    let (n, pc, _) = hdr(page);
    if pc < n {
        stats.bases_with_tail += 1;
    }
    let pos: HashMap<Key, usize> = st.base_seps.iter().enumerate().map(|(i, (k, _))| (*k, i)).collect();
    // the ranges keep_up_to hands to push_chunk: from `low` to the position the next key is found at
    let mut low = 0usize;
    let range = |from: usize, to: usize, stats: &mut BbStats| {
        if from < to {
            if from == 0 {
                stats.chunk_starts_zero += 1;
            } else if from < pc {
                stats.chunk_starts_compressed += 1;
            } else {
                stats.chunk_starts_in_tail += 1;
            }
        }
    };
    for (k, p) in &st.ops {
        match pos.get(k) {
            Some(i) => {
                if *i >= pc {
                    stats.ops_in_tail += 1;
                }
                if p.is_some() {
                    stats.updates += 1;
                } else {
                    stats.deletes += 1;
                }
                range(low, *i, stats);
                low = i + 1;
            }
            None => {
                if p.is_some() {
                    stats.inserts += 1;
                }
                let i = st.base_seps.partition_point(|(b, _)| b < k);
                if i > low {
                    range(low, i, stats);
                    low = i;
                }
            }
        }
    }
    range(low, n, stats);
}

/// one round: the real updater, the mirror, the checks.  Returns the decoded nodes when every page
/// decodes.
fn run_round(model: &mut Model, stages: &[RStage], mirror_fix12: bool, out: &mut Outcome) -> Option<Vec<DNode>> {
    out.stats.rounds += 1;
    for st in stages {
        stage_stats(st, &mut out.stats);
    }
    // expected content: the bases merged with the operations
    let mut expected: BTreeMap<Key, u32> = BTreeMap::new();
    for st in stages {
        for (k, p) in &st.base_seps {
            expected.insert(*k, *p);
        }
    }
    for st in stages {
        for (k, p) in &st.ops {
            match p {
                Some(p) => {
                    expected.insert(*k, *p);
                }
                None => {
                    expected.remove(k);
                }
            }
        }
    }
    // the real updater
    let vstages: Vec<VerifBranchStage> = stages.iter().map(|s| VerifBranchStage { base: s.base_page.clone(), ops: s.ops.clone(), cutoff: s.cutoff }).collect();
    let real = match catch_unwind(AssertUnwindSafe(|| branch_rebuild(vstages))) {
        Ok(r) => r,
        Err(e) => {
            let msg = e.downcast_ref::<String>().cloned().or_else(|| e.downcast_ref::<&str>().map(|s| s.to_string())).unwrap_or_else(|| "panic".into());
            out.stats.real_panics += 1;
            out.viol.push(("c01-bb-panic".into(), "real-panic".into(), format!("the real updater panicked: {}", msg)));
            return None;
        }
    };
    // the mirror
    let toks: Vec<String> = stages
        .iter()
        .map(|s| format!("S;{};{};{}", s.base_page.as_ref().map(|p| hex(p)).unwrap_or_else(|| "-".into()), if s.cutoff.is_none() { 1 } else { 0 }, ops_text(&s.ops)))
        .collect();
    let t_run = std::time::Instant::now();
    let reply = model.ask_multi(&format!("bbrun {} {}", if mirror_fix12 { 1 } else { 0 }, toks.join(" ")));
    if std::env::var("VERIF_BB_DEBUG").is_ok() {
        eprintln!("bbrun: {} stages, {} operations, {:.3} s", stages.len(), stages.iter().map(|s| s.ops.len()).sum::<usize>(), t_run.elapsed().as_secs_f64());
    }
    let mut m_nodes = 0usize;
    let mut m_stages: Vec<(bool, usize)> = Vec::new();
    let mut m_ok = true;
    for l in &reply {
        let t: Vec<&str> = l.split(' ').collect();
        match t[0] {
            "stage" => m_stages.push((t[2] == "1", t[3].parse().unwrap())),
            "node" => {
                m_nodes += 1;
                if t[9] != "1" {
                    out.viol.push(("c01-bb-model".into(), "mirror-node-shape".into(), format!("the mirror's node {} is not node_wf: {}", t[1], l)));
                }
                if t[4] != t[7] {
                    out.viol.push(("c01-bb-model".into(), "mirror-pushed".into(), format!("the mirror's builder pushed {} separators into a node of n = {}", t[7], t[4])));
                }
            }
            "panic" => {
                m_ok = false;
                out.viol.push(("c01-bb-model".into(), "mirror-panic".into(), "the mirror's builder panics (or runs out of fuel) where the real code did not".into()));
            }
            "badbase" => {
                m_ok = false;
                out.viol.push(("c01-bb-overlap".into(), "base-undecodable".into(), format!("the page of base {} does not decode", t[1])));
            }
            _ => {}
        }
    }
    if m_ok {
        if m_nodes != real.built.len() {
            out.viol.push(("c01-bb-model".into(), "node-count".into(), format!("the mirror builds {} nodes, the real updater {}", m_nodes, real.built.len())));
        }
        let rs: Vec<(bool, usize)> = real.stages.clone();
        if rs != m_stages {
            out.viol.push(("c01-bb-model".into(), "stage-result".into(), format!("(NeedsMerge, body size left) per stage: mirror {:?}, real {:?}", m_stages, rs)));
        }
    }
    // the pages
    let mut dnodes = Vec::new();
    let mut all_decoded = true;
    let mut per_stage: HashMap<usize, usize> = HashMap::new();
    for (j, b) in real.built.iter().enumerate() {
        *per_stage.entry(b.stage).or_default() += 1;
        out.stats.nodes += 1;
        if b.gauge_body_size > BODY {
            out.viol.push(("c01-bb-overlap".into(), "gauge-too-big".into(), format!("node {}: the updater built a node whose gauge says {} > {}", j, b.gauge_body_size, BODY)));
        }
        let jm = if m_ok { j } else { usize::MAX / 2 };
        let t_chk = std::time::Instant::now();
        let reply = model.ask_multi(&format!("bbcheck {} {} {} {} {} {}", jm, b.gauge_body_size, b.n, b.prefix_compressed, b.prefix_len, hex(&b.page)));
        if std::env::var("VERIF_BB_DEBUG").is_ok() {
            eprintln!("bbcheck {}: n {}, {:.3} s", j, b.n, t_chk.elapsed().as_secs_f64());
        }
        let mut items = Vec::new();
        let mut decoded = true;
        for l in &reply {
            let t: Vec<&str> = l.split(' ').collect();
            match t[0] {
                "V" => {
                    if t[1] == "VcDecode" {
                        decoded = false;
                    }
                    if t[1] == "VcMCount" && !m_ok {
                        continue;
                    }
                    out.viol.push((
                        sig_of(t[1]).into(),
                        t[1].into(),
                        format!("node {} (stage {}, gauge body {}, n {}, prefix_compressed {}, prefix_len {}): {} expected {} found {}", j, b.stage, b.gauge_body_size, b.n, b.prefix_compressed, b.prefix_len, t[1], t[2], t[3]),
                    ));
                }
                "K" => items.push((key_from_hex(t[1]), t[2].parse::<usize>().unwrap(), t[3].parse::<u32>().unwrap())),
                _ => {}
            }
        }
        if !decoded {
            all_decoded = false;
            continue;
        }
        if std::env::var("VERIF_BB_DEBUG").is_ok() && m_ok {
            // where the mirror's node and the decoded page differ
            let mline = model.ask_multi(&format!("bbnode {}", j));
            let base_hdr = stages[b.stage].base_page.as_ref().map(|p| hdr(p));
            for (i, l) in mline.iter().enumerate() {
                let t: Vec<&str> = l.split(' ').collect();
                let m = (key_from_hex(t[1]), t[2].parse::<usize>().unwrap(), t[3].parse::<u32>().unwrap());
                if items.get(i) != Some(&m) {
                    let bpos = stages[b.stage].base_seps.iter().position(|(k, _)| *k == m.0);
                    eprintln!(
                        "node {} (stage {}, base (n, pc, plen) {:?}, node (n, pc, plen) {:?}) item {}: mirror {} len {} pn {} (separator_len {}, position in base {:?}), page {:?}",
                        j, b.stage, base_hdr, hdr(&b.page), i, hex(&m.0), m.1, m.2, sep_len(&m.0), bpos,
                        items.get(i).map(|(k, l, p)| format!("{} len {} pn {}", hex(k), l, p))
                    );
                }
            }
        }
        // statistics on the decoded node
        let (n, pc, plen) = hdr(&b.page);
        out.stats.separators += n as u64;
        if pc < n {
            out.stats.nodes_pc_lt_n += 1;
        }
        if n == 1 {
            out.stats.nodes_single += 1;
        }
        if !items.is_empty() && sep_len(&items[0].0) < plen {
            out.stats.nodes_first_short += 1;
        }
        out.stats.max_body = out.stats.max_body.max(b.gauge_body_size as u64);
        if b.gauge_body_size + 16 >= BODY {
            out.stats.nodes_near_full += 1;
        }
        if let Some(bp) = &stages[b.stage].base_page {
            let (_, _, bplen) = hdr(bp);
            let first_short = stages[b.stage].base_seps.first().map_or(false, |(k, _)| sep_len(k) < bplen);
            // does the node keep the base's first separator?
            let keeps_first = items.first().map(|i| i.0) == stages[b.stage].base_seps.first().map(|s| s.0);
            if plen < bplen {
                out.stats.prefix_shorter += 1;
                if first_short && keeps_first {
                    out.stats.first_short_prefix_shorter += 1;
                }
            } else if plen > bplen {
                out.stats.prefix_longer += 1;
                if first_short && keeps_first {
                    out.stats.first_short_prefix_longer += 1;
                }
            }
        }
        dnodes.push(DNode { page: b.page.clone(), items });
    }
    for (i, (nm, _)) in real.stages.iter().enumerate() {
        if *nm {
            out.stats.stages_needs_merge += 1;
        }
        if per_stage.get(&i).copied().unwrap_or(0) > 1 {
            out.stats.stages_split += 1;
        }
    }
    if !all_decoded {
        return None;
    }
    // content: what the pages decode to is what was pushed
    let got: Vec<(Key, u32)> = dnodes.iter().flat_map(|d| d.items.iter().map(|(k, _, p)| (*k, *p))).collect();
    let want: Vec<(Key, u32)> = expected.into_iter().collect();
    let last_needs_merge = real.stages.last().map_or(false, |s| s.0);
    if !last_needs_merge && got != want {
        let first = got.iter().zip(want.iter()).position(|(a, b)| a != b).unwrap_or(got.len().min(want.len()));
        out.viol.push((
            "c01-bb-overlap".into(),
            "content".into(),
            format!(
                "the built pages decode to {} separators, {} were pushed; first difference at position {}: decoded {:?}, pushed {:?}",
                got.len(),
                want.len(),
                first,
                got.get(first).map(|(k, p)| format!("{}:{}", hex(k), p)),
                want.get(first).map(|(k, p)| format!("{}:{}", hex(k), p))
            ),
        ));
    }
    if stages.iter().any(|s| s.base_page.is_some() && !s.ops.is_empty()) && !dnodes.is_empty() {
        out.nontrivial = true;
    }
    Some(dnodes)
}

pub fn run_item(model: &mut Model, item: &Item, mirror_fix12: bool) -> Outcome {
    let mut out = Outcome { viol: Vec::new(), stats: BbStats::default(), nontrivial: false };
    // round 1: the bases are built by the real builder from the separators of the item
    let mut stages: Vec<RStage> = Vec::new();
    for s in &item.stages {
        let (page, seps) = match &s.base {
            Some((pc, seps)) => {
                let seps = seps.clone();
                let pc = *pc;
                match catch_unwind(AssertUnwindSafe(|| branch_build(&seps, pc))) {
                    Ok(p) => (Some(p), seps),
                    Err(_) => {
                        out.viol.push(("c01-bb-panic".into(), "base-build-panic".into(), "BranchNodeBuilder panicked building a base node that fits".into()));
                        return out;
                    }
                }
            }
            None => (None, vec![]),
        };
        stages.push(RStage { base_page: page, base_seps: seps, ops: s.ops.clone(), cutoff: s.cutoff });
    }
    let mut built = run_round(model, &stages, mirror_fix12, &mut out);
    // further rounds: the nodes just built are the bases
    for seed in &item.chain {
        let Some(nodes) = built.take() else { break };
        if nodes.is_empty() || !out.viol.is_empty() {
            break;
        }
        let mut rng = Rng::new(*seed);
        let mut stages: Vec<RStage> = Vec::new();
        let mut lbl = String::new();
        for (i, nd) in nodes.iter().enumerate() {
            let seps: Vec<(Key, u32)> = nd.items.iter().map(|(k, _, p)| (*k, *p)).collect();
            let cutoff = nodes.get(i + 1).map(|n| n.items[0].0);
            let (_, pc, _) = hdr(&nd.page);
            let lo = seps[0].0;
            let ops = gen_ops(&mut rng, &seps, pc, &lo, cutoff.as_ref(), &mut lbl);
            stages.push(RStage { base_page: Some(nd.page.clone()), base_seps: seps, ops, cutoff });
        }
        built = run_round(model, &stages, mirror_fix12, &mut out);
    }
    out
}

fn write_replay(dir: &str, prop: &str, seed: u64, idx: usize, item: &Item) -> String {
    let path = format!("{}/{}-bb-seed{}-{}.bb", dir, prop, seed, idx);
    std::fs::write(&path, item.to_line() + "\n").ok();
    path
}

fn replay(file: &str, kv: &HashMap<String, String>) -> i32 {
    let txt = std::fs::read_to_string(file).expect("replay file");
    let line = txt.lines().find(|l| l.starts_with("bb1 ")).expect("bb item line");
    let item = Item::from_line(line);
    let mirror_fix12 = kv.get("mirror-fix12").map(|v| v != "0").unwrap_or(true);
    let mut model = Model::spawn();
    let out = run_item(&mut model, &item, mirror_fix12);
    if out.viol.is_empty() {
        println!("replay ok: {} stages, {} nodes built", out.stats.stages, out.stats.nodes);
        0
    } else {
        for (sig, kind, detail) in &out.viol {
            println!("replay violation sig={} kind={}: {}", sig, kind, detail);
        }
        1
    }
}

pub fn cmd_bb(kv: &HashMap<String, String>) -> i32 {
    if let Some(f) = kv.get("replay") {
        return replay(f, kv);
    }
    let prop = kv.get("prop").cloned().unwrap_or_else(|| "C01".into());
    let thorough = kv.get("tier").map(|t| t == "thorough").unwrap_or(false);
    let seed: u64 = kv.get("seed").and_then(|s| s.parse().ok()).unwrap_or(1);
    let n: usize = kv.get("n").and_then(|s| s.parse().ok()).unwrap_or(if thorough { 6000 } else { 600 });
    let out_file = kv.get("out").cloned().expect("--out");
    let replay_dir = kv.get("replays").cloned().unwrap_or_else(|| format!("/verif/replays/{}", prop));
    let threads: usize = kv.get("threads").and_then(|s| s.parse().ok()).unwrap_or(12);
    let mirror_fix12 = kv.get("mirror-fix12").map(|v| v != "0").unwrap_or(true);
    std::fs::create_dir_all(&replay_dir).ok();
    let t0 = std::time::Instant::now();
    // corpus items (one item line per file, sub-directory `bb` of --corpus) run first
    let mut corpus: Vec<(String, Item)> = Vec::new();
    if let Some(c) = kv.get("corpus") {
        if let Ok(rd) = std::fs::read_dir(format!("{}/bb", c)) {
            let mut files: Vec<_> = rd.filter_map(|e| e.ok()).map(|e| e.path()).filter(|p| p.extension().map_or(false, |e| e == "bb")).collect();
            files.sort();
            for f in files {
                if let Ok(txt) = std::fs::read_to_string(&f) {
                    if let Some(line) = txt.lines().find(|l| l.starts_with("bb1 ")) {
                        let mut it = Item::from_line(line);
                        it.label = format!("corpus {}", f.display());
                        corpus.push((f.display().to_string(), it));
                    }
                }
            }
        }
    }
    let n_corpus = corpus.len();
    let corpus = Arc::new(corpus);
    let mut rng = Rng::new(seed ^ 0xBB01);
    let seeds: Vec<u64> = (0..n).map(|_| rng.next()).collect();
    let seeds = Arc::new(seeds);
    let next = Arc::new(Mutex::new(0usize));
    let results: Arc<Mutex<Vec<(usize, Item, Outcome)>>> = Arc::new(Mutex::new(Vec::new()));
    let mut hs = Vec::new();
    for _ in 0..threads.min(n + n_corpus).max(1) {
        let (seeds, next, results, corpus) = (seeds.clone(), next.clone(), results.clone(), corpus.clone());
        hs.push(std::thread::spawn(move || {
            let mut model = Model::spawn();
            loop {
                let i = {
                    let mut g = next.lock().unwrap();
                    let i = *g;
                    *g += 1;
                    i
                };
                if i >= corpus.len() + seeds.len() {
                    break;
                }
                let item = if i < corpus.len() { corpus[i].1.clone() } else { gen_item(&mut Rng::new(seeds[i - corpus.len()]), thorough) };
                let r = catch_unwind(AssertUnwindSafe(|| run_item(&mut model, &item, mirror_fix12)));
                let o = match r {
                    Ok(o) => o,
                    Err(e) => {
                        let msg = e.downcast_ref::<String>().cloned().or_else(|| e.downcast_ref::<&str>().map(|s| s.to_string())).unwrap_or_else(|| "panic".into());
                        model = Model::spawn();
                        Outcome { viol: vec![("c01-bb-harness".into(), "harness".into(), format!("harness panic: {}", msg))], stats: BbStats::default(), nontrivial: false }
                    }
                };
                results.lock().unwrap().push((i, item, o));
            }
        }));
    }
    for h in hs {
        h.join().unwrap();
    }
    let mut results = std::mem::take(&mut *results.lock().unwrap());
    results.sort_by_key(|r| r.0);
    let mut total = BbStats::default();
    let mut violations = Vec::new();
    let mut distinct = BTreeSet::new();
    let mut nontrivial = 0usize;
    let mut by_sig: BTreeMap<String, usize> = BTreeMap::new();
    for (i, item, o) in &results {
        total.merge(&o.stats);
        if o.nontrivial {
            nontrivial += 1;
            distinct.insert(crate::model::digest(item.to_line().as_bytes()));
        }
        if !o.viol.is_empty() {
            let path = write_replay(&replay_dir, &prop, seed, *i, item);
            // one entry per signature of the item
            let mut seen = BTreeSet::new();
            for (sig, kind, detail) in &o.viol {
                *by_sig.entry(sig.clone()).or_default() += 1;
                if seen.insert(sig.clone()) && violations.len() < 60 {
                    violations.push(J::obj(vec![("replay", J::s(path.clone())), ("sig", J::s(sig.clone())), ("kind", J::s(kind.clone())), ("detail", J::s(format!("{} [{}]", detail, item.label.trim())))]));
                }
            }
        }
    }
    let samples: Vec<J> = results
        .iter()
        .skip(n_corpus)
        .take(3)
        .map(|(_, it, _)| {
            let l = it.to_line();
            J::obj(vec![("label", J::s(it.label.trim())), ("stages", J::Int(it.stages.len() as i64)), ("chain_rounds", J::Int(it.chain.len() as i64)), ("line_prefix", J::s(l.chars().take(240).collect::<String>()))])
        })
        .collect();
    let j = J::obj(vec![
        ("engine", J::s("bb")),
        ("property", J::s(prop.clone())),
        ("evaluations", J::Int(results.len() as i64)),
        ("corpus_cases", J::Int(n_corpus as i64)),
        ("distinct_nontrivial", J::Int(distinct.len().min(nontrivial) as i64)),
        ("rule", J::s("one evaluation = one generated item (1-4 stages of base node + ingested separators, then 0-2 further rounds on the nodes just built) run through the real BranchUpdater (hook H4) and the extracted Coq mirror BranchBuild.run_stages, every built page decoded and checked by the extracted check_page / check_model; non-trivial = some stage has a base node and operations and a node was built; distinct = distinct item line")),
        ("mirror_fix12", J::Bool(mirror_fix12)),
        ("violations_by_sig", J::Obj(by_sig.iter().map(|(k, v)| (k.clone(), J::Int(*v as i64))).collect())),
        ("stats", total.json()),
        ("samples", J::Arr(samples)),
        ("violations", J::Arr(violations.clone())),
        ("wall_s", J::Num(t0.elapsed().as_secs_f64())),
    ]);
    std::fs::write(&out_file, j.to_string()).unwrap();
    if violations.is_empty() {
        0
    } else {
        1
    }
}
