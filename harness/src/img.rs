//! E-img: after every commit / rollback / (re)open of a generated history, the raw files of the
//! NOMT directory are decoded by the extracted Coq decoder (`coq/theories/Image.v`, reached through
//! the model co-process: `imgopen`, `imgcheck`, `imgkv`, `imgstats`) and compared with the model
//! state.  The decoder shares no code with NOMT's read path.  Properties C16 and C19.
//!
//! The harness only supplies what Coq cannot compute: the hashes of the reference trie's nodes
//! (ids of the annotated trie -> 32 bytes, evaluated with the real hasher) and the xxh3 hash of each
//! page label found in the hash table (re-implementing bitbox's `hash_raw_page_id`).

use crate::gen::*;
use crate::json::J;
use crate::model::eval_table;
use crate::scen;
use crate::sys::{Acc, Cfg, Mask, Op, Runner};
use crate::util::{self, hex, unhex, value_bytes, Key, Rng};
use nomt::hasher::{Blake3Hasher, Sha2Hasher};
use nomt::HashAlgorithm;
use std::collections::{BTreeMap, BTreeSet, HashMap};
use std::sync::{Arc, Mutex};

pub struct ImgScenario {
    pub ops: Vec<Op>,
    pub label: String,
    /// indices of the ops that end a fill/overwrite/empty cycle (C19 frontier series)
    pub cycle_ends: Vec<usize>,
}

#[derive(Default, Clone, Debug)]
pub struct ImgStats {
    pub images: usize,
    pub nontrivial: usize,
    pub empty_images: usize,
    pub leaves: u64,
    pub branches: u64,
    pub overflow_pages: u64,
    pub merkle_pages: u64,
    pub entries: u64,
    pub inline_values: u64,
    pub overflow_values: u64,
    pub max_entries: u64,
    pub max_free_items: u64,
    pub max_free_portions: u64,
    pub elided_pages: u64,
    pub images_with_elision: usize,
    pub tombstones: u64,
    pub max_tombstones: u64,
    pub nodes_compared: u64,
    pub max_page_depth: u64,
    pub below_absent: u64,
    pub unneeded_stored: u64,
    pub after_open: usize,
    pub after_commit: usize,
    pub after_rollback: usize,
    pub check_ms_total: f64,
    pub check_ms_max: f64,
    pub other_check_failures: usize,
    pub cycles_measured: usize,
    pub freelist_transitions_checked: usize,
    pub freelist_transitions_nontrivial: usize,
    pub freelist_allocations_replayed: u64,
    pub freelist_releases_replayed: u64,
    pub freelist_pages_written_checked: u64,
    pub freelist_max_portions: u64,
    pub freelist_fragmented_lists: usize,
    pub freelist_inplace_rewrites: u64,
    pub freelist_ms_total: f64,
    pub lookups_compared: u64,
    pub lookups_present: u64,
    pub lookups_vs_nomt: u64,
    pub branches_partly_compressed: u64,
    pub seeks_compared: u64,
    pub seeks_present: u64,
    pub seeks_terminator: u64,
    pub seeks_foreign_leaf: u64,
    pub seeks_rebuilt: u64,
    pub seeks_max_siblings: u64,
    pub pages_reencoded: u64,
    pub bytes_reencoded_equal: u64,
    pub reencode_undefined_nonzero_bytes: u64,
    pub reencode_noncanonical_separators: u64,
    pub reencode_ms_total: f64,
    pub reencode_undefined_nonzero_by_kind: [u64; 4],
}

impl ImgStats {
    fn merge(&mut self, o: &ImgStats) {
        self.images += o.images;
        self.nontrivial += o.nontrivial;
        self.empty_images += o.empty_images;
        self.leaves += o.leaves;
        self.branches += o.branches;
        self.overflow_pages += o.overflow_pages;
        self.merkle_pages += o.merkle_pages;
        self.entries += o.entries;
        self.inline_values += o.inline_values;
        self.overflow_values += o.overflow_values;
        self.max_entries = self.max_entries.max(o.max_entries);
        self.max_free_items = self.max_free_items.max(o.max_free_items);
        self.max_free_portions = self.max_free_portions.max(o.max_free_portions);
        self.elided_pages += o.elided_pages;
        self.images_with_elision += o.images_with_elision;
        self.tombstones += o.tombstones;
        self.max_tombstones = self.max_tombstones.max(o.max_tombstones);
        self.nodes_compared += o.nodes_compared;
        self.max_page_depth = self.max_page_depth.max(o.max_page_depth);
        self.below_absent += o.below_absent;
        self.unneeded_stored += o.unneeded_stored;
        self.after_open += o.after_open;
        self.after_commit += o.after_commit;
        self.after_rollback += o.after_rollback;
        self.check_ms_total += o.check_ms_total;
        self.check_ms_max = self.check_ms_max.max(o.check_ms_max);
        self.other_check_failures += o.other_check_failures;
        self.cycles_measured += o.cycles_measured;
        self.freelist_transitions_checked += o.freelist_transitions_checked;
        self.freelist_transitions_nontrivial += o.freelist_transitions_nontrivial;
        self.freelist_allocations_replayed += o.freelist_allocations_replayed;
        self.freelist_releases_replayed += o.freelist_releases_replayed;
        self.freelist_pages_written_checked += o.freelist_pages_written_checked;
        self.freelist_max_portions = self.freelist_max_portions.max(o.freelist_max_portions);
        self.freelist_fragmented_lists += o.freelist_fragmented_lists;
        self.freelist_inplace_rewrites += o.freelist_inplace_rewrites;
        self.freelist_ms_total += o.freelist_ms_total;
        self.lookups_compared += o.lookups_compared;
        self.lookups_present += o.lookups_present;
        self.lookups_vs_nomt += o.lookups_vs_nomt;
        self.branches_partly_compressed += o.branches_partly_compressed;
        self.seeks_compared += o.seeks_compared;
        self.seeks_present += o.seeks_present;
        self.seeks_terminator += o.seeks_terminator;
        self.seeks_foreign_leaf += o.seeks_foreign_leaf;
        self.seeks_rebuilt += o.seeks_rebuilt;
        self.seeks_max_siblings = self.seeks_max_siblings.max(o.seeks_max_siblings);
        self.pages_reencoded += o.pages_reencoded;
        self.bytes_reencoded_equal += o.bytes_reencoded_equal;
        self.reencode_undefined_nonzero_bytes += o.reencode_undefined_nonzero_bytes;
        self.reencode_noncanonical_separators += o.reencode_noncanonical_separators;
        self.reencode_ms_total += o.reencode_ms_total;
        for k in 0..4 {
            self.reencode_undefined_nonzero_by_kind[k] += o.reencode_undefined_nonzero_by_kind[k];
        }
    }
}

#[derive(Clone, Debug)]
pub struct Violation {
    pub sig: String,
    pub op_index: usize,
    pub detail: String,
}

#[derive(Default)]
pub struct Outcome {
    pub violations: Vec<Violation>,
    pub stats: ImgStats,
    pub skipped: Option<String>,
    /// (cycle number, ln_bump, bbn_bump, ln free items, bbn free items) after each cycle
    pub series: Vec<(usize, u64, u64, u64, u64)>,
}

fn fnv64(b: &[u8]) -> u64 {
    let mut h: u64 = 0xcbf29ce484222325;
    for x in b {
        h ^= *x as u64;
        h = h.wrapping_mul(0x100000001b3);
    }
    h
}

/// bitbox/mod.rs::hash_raw_page_id, re-implemented (that function is private)
fn hash_raw_page_id(label: &[u8], seed: &[u8]) -> u64 {
    let seed_u64 = u64::from_be_bytes(seed[..8].try_into().unwrap());
    twox_hash::xxhash3_64::Hasher::oneshot_with_seed(seed_u64, label)
}

fn parse_kv_line(s: &str) -> HashMap<String, u64> {
    s.split(' ')
        .filter_map(|t| t.split_once('='))
        .filter_map(|(k, v)| v.parse::<u64>().ok().map(|v| (k.to_string(), v)))
        .collect()
}

/// which failed checks speak for which property.  The clause "the pages below the frontier are
/// covered by live pages and free lists" (code WPageCover) is C19's; duplicates and out-of-range
/// page numbers (WPageDup, WPageRange) violate C16 as well.
fn relevant(prop: &str, check: &str, code: &str) -> bool {
    match prop {
        "C19" => matches!(check, "decode" | "wf_pages_disjoint_ln" | "wf_pages_disjoint_bbn" | "wf_manifest" | "occupancy" | "frontier" | "freelist" | "freelist-model"),
        _ => check != "frontier" && check != "freelist" && check != "freelist-model" && code != "WPageCover",
    }
}

struct Snapshot {
    ln_bump: u64,
    bbn_bump: u64,
    ln_free_items: u64,
    bbn_free_items: u64,
}

/// Decode and check the image of the runner's directory against the model's current state.
fn check_point<H: HashAlgorithm>(
    r: &mut Runner<H>,
    prop: &str,
    i: usize,
    by_digest: &HashMap<[u8; 32], (usize, u64)>,
    out: &mut Outcome,
) -> Option<Snapshot> {
    let t0 = std::time::Instant::now();
    let tag = prop.to_lowercase();
    let fail = |out: &mut Outcome, check: &str, detail: String| {
        let code = detail.split("FAIL ").nth(1).and_then(|x| x.split(' ').next()).unwrap_or("").to_string();
        if relevant(prop, check, &code) {
            out.violations.push(Violation { sig: format!("{}-{}", tag, check), op_index: i, detail });
        } else {
            out.stats.other_check_failures += 1;
        }
    };

    // expected view and the hashes of its annotated trie
    r.model.expect_ok("viewcur");
    let table_lines = r.model.ask_multi("table");
    let vh = r.vhashes_snapshot();
    let table = eval_table::<H>(&table_lines, &|vid| vh[&vid]);
    let dump = r.model.ask_multi("dump");

    let t_table = t0.elapsed().as_secs_f64() * 1e3;
    // development aid (detection power): VERIF_IMG_FLIP=<file>:<byte offset> damages one byte of the
    // image for the duration of the check
    let flip = std::env::var("VERIF_IMG_FLIP").ok().and_then(|v| v.split_once(':').map(|(f, o)| (r.dir.join(f), o.parse::<u64>().unwrap_or(0))));
    let do_flip = |f: &Option<(std::path::PathBuf, u64)>| {
        if let Some((path, off)) = f {
            use std::os::unix::fs::FileExt;
            if let Ok(fd) = std::fs::OpenOptions::new().read(true).write(true).open(path) {
                let mut b = [0u8; 1];
                if fd.read_exact_at(&mut b, *off).is_ok() {
                    b[0] ^= 1;
                    let _ = fd.write_all_at(&b, *off);
                }
            }
        }
    };
    do_flip(&flip);
    r.model.expect_ok(&format!("imgopen {}", r.dir.display()));
    let mut ids: Vec<(&u32, &[u8; 32])> = table.nodes.iter().collect();
    ids.sort();
    for chunk in ids.chunks(256) {
        let mut line = String::with_capacity(80 * chunk.len() + 16);
        line.push_str("imghashes");
        for (id, h) in chunk {
            line.push(' ');
            line.push_str(&id.to_string());
            line.push(':');
            line.push_str(&hex(&h[..]));
        }
        r.model.expect_ok(&line);
    }
    // xxh3 oracle for the labels the decoder found
    let labels = r.model.ask_multi("imglabels");
    let mut seed = vec![0u8; 16];
    let mut lab_list = Vec::new();
    for l in &labels {
        if let Some(s) = l.strip_prefix("seed ") {
            seed = unhex(s);
        } else {
            lab_list.push(l.clone());
        }
    }
    for chunk in lab_list.chunks(256) {
        let mut line = String::from("imgoracle");
        for l in chunk {
            let h = hash_raw_page_id(&unhex(l), &seed);
            line.push_str(&format!(" {}:{:016x}", l, h));
        }
        r.model.expect_ok(&line);
    }

    // the checks
    let t_upload = t0.elapsed().as_secs_f64() * 1e3;
    let checks = r.model.ask_multi("imgcheck");
    let t_check = t0.elapsed().as_secs_f64() * 1e3;
    let mut decode_ok = true;
    for c in &checks {
        let t: Vec<&str> = c.split(' ').collect();
        if t.len() >= 2 && t[1] == "ok" {
            continue;
        }
        if t[0] == "decode" {
            decode_ok = false;
        }
        fail(out, t[0], format!("image check {} failed: {}", t[0], t[1..].join(" ")));
    }
    out.stats.images += 1;
    // allocator mirror (FreeList.v): the transition from the previous check point's image to this
    // one is the one the mirror computes; then remember this image for the next check point
    let t_fl = std::time::Instant::now();
    if decode_ok {
        let fl = r.model.ask_multi("flcheck");
        if fl.first().map(|l| l != "nosnap").unwrap_or(false) {
            for l in &fl {
                let t: Vec<&str> = l.split(' ').collect();
                if t.len() < 3 {
                    continue;
                }
                if t[2] != "ok" {
                    // the set accounting, in-place writes and the page format are the property; the exact
                    // replay of the allocator mirror (same pages in the same order) is a correspondence
                    let check = if matches!(t[1], "transition" | "written" | "shape") { "freelist-model" } else { "freelist" };
                    fail(out, check, format!("free-list check {} {} failed: {}", t[0], t[1], t[2..].join(" ")));
                }
                if t[1] == "transition" {
                    let kv = parse_kv_line(l);
                    let g = |k: &str| kv.get(k).copied().unwrap_or(0);
                    out.stats.freelist_transitions_checked += 1;
                    if g("allocs") + g("freed") > 0 {
                        out.stats.freelist_transitions_nontrivial += 1;
                    }
                    out.stats.freelist_allocations_replayed += g("allocs");
                    out.stats.freelist_releases_replayed += g("freed");
                    out.stats.freelist_pages_written_checked += g("written");
                    out.stats.freelist_max_portions = out.stats.freelist_max_portions.max(g("portions"));
                    out.stats.freelist_fragmented_lists += g("frag") as usize;
                    out.stats.freelist_inplace_rewrites += g("inplace");
                    if g("inplace") > 0 {
                        // a write of the free-list commit onto a portion page of the previous image (C17)
                        fail(out, "freelist", format!("free-list check {} inplace failed: FAIL TInPlace the commit writes {} portion page(s) of the old list in place", t[0], g("inplace")));
                    }
                }
            }
        }
    }
    let _ = r.model.ask("flsnap");
    out.stats.freelist_ms_total += t_fl.elapsed().as_secs_f64() * 1e3;
    if !decode_ok {
        do_flip(&flip);
        out.stats.check_ms_total += t0.elapsed().as_secs_f64() * 1e3;
        return None;
    }

    // abs image = model state (keys, lengths, value bytes through fnv64, recorded hashes of big values)
    let kvs = r.model.ask_multi("imgkv");
    let vals = r.vals_snapshot();
    let by_id: HashMap<u32, [u8; 32]> = vals.iter().map(|(d, id)| (*id, *d)).collect();
    if kvs.len() != dump.len() {
        fail(out, "abs", format!("decoded image holds {} pairs, the model state {}", kvs.len(), dump.len()));
    } else {
        for (got, exp) in kvs.iter().zip(dump.iter()) {
            let g: Vec<&str> = got.split(' ').collect();
            let e: Vec<&str> = exp.split(' ').collect();
            let vid: u32 = e[1].parse().unwrap();
            let (len, f) = by_id.get(&vid).and_then(|d| by_digest.get(d)).copied().unwrap_or((usize::MAX, 0));
            if g[0] != e[0] {
                fail(out, "abs", format!("decoded key {} where the model has {}", g[0], e[0]));
                break;
            }
            if g[1].parse::<usize>().ok() != Some(len) || g[2] != format!("{:016x}", f) {
                fail(out, "abs", format!("key {}: decoded value has length {} fnv {}, the model value {} has length {} fnv {:016x}", g[0], g[1], g[2], vid, len, f));
                break;
            }
            if g[3] == "o" && g.get(4).map(|h| *h != hex(&vh[&vid][..])).unwrap_or(true) {
                fail(out, "abs", format!("key {}: the value hash recorded in the overflow cell is not the hash of the value", g[0]));
                break;
            }
        }
    }

    // the read path (coq/theories/ReadPath.v, the mirror of Index::lookup / search_branch /
    // LeafNode::get): 40 lookups on the decoded image - the extreme keys; separators found by the
    // decoder (separators behind the prefix-compressed ones, first separators of branches, leaf
    // separators), the keys just below them and the first present keys at or above them; the keys
    // next to the first and the last present key; present keys and their neighbours (last bit
    // flipped); unrelated keys - against the model state's value and against NOMT's own read
    {
        let expect: HashMap<String, (usize, u64)> = dump
            .iter()
            .filter_map(|l| {
                let mut t = l.split(' ');
                let k = t.next()?;
                let vid: u32 = t.next()?.parse().ok()?;
                Some((k.to_string(), by_id.get(&vid).and_then(|d| by_digest.get(d)).copied().unwrap_or((usize::MAX, 0))))
            })
            .collect();
        let present: Vec<&str> = dump.iter().filter_map(|l| l.split(' ').next()).collect();
        let seps = r.model.ask_multi("imgseps 3");
        let mut keys: Vec<String> = Vec::new();
        let mut push = |k: String| {
            if k.len() == 64 && keys.len() < 40 && !keys.contains(&k) {
                keys.push(k);
            }
        };
        let pred = |k: &str| -> Option<String> {
            let mut b = unhex(k);
            if b.len() != 32 || b.iter().all(|x| *x == 0) {
                return None;
            }
            for x in b.iter_mut().rev() {
                let (v, borrow) = x.overflowing_sub(1);
                *x = v;
                if !borrow {
                    break;
                }
            }
            Some(hex(&b))
        };
        let succ = |k: &str| -> Option<String> {
            let mut b = unhex(k);
            if b.len() != 32 || b.iter().all(|x| *x == 0xff) {
                return None;
            }
            for x in b.iter_mut().rev() {
                let (v, carry) = x.overflowing_add(1);
                *x = v;
                if !carry {
                    break;
                }
            }
            Some(hex(&b))
        };
        // the extreme keys
        push("00".repeat(32));
        push("ff".repeat(32));
        // the separators the decoder found (first separators of branches: the Index keys; leaf
        // separators: the keys find_key_pos compares with) and the keys just below them
        for l in &seps {
            if let Some((_, k)) = l.split_once(' ') {
                push(k.to_string());
                if let Some(p) = pred(k) {
                    push(p);
                }
                // the first present key at or above the separator (the first cell of that leaf, or
                // of a later one)
                let at = present.partition_point(|p| *p < k);
                if at < present.len() {
                    push(present[at].to_string());
                }
            }
        }
        let n = present.len();
        if n > 0 {
            // next below the first and next above the last present key
            if let Some(p) = pred(present[0]) {
                push(p);
            }
            if let Some(q) = succ(present[n - 1]) {
                push(q);
            }
            let picks = 8.min(n);
            for j in 0..picks {
                let idx = if picks == 1 { 0 } else { j * (n - 1) / (picks - 1) };
                push(present[idx].to_string());
                let mut nb = unhex(present[idx]);
                if nb.len() == 32 {
                    nb[31] ^= 1;
                    push(hex(&nb));
                }
            }
        }
        for j in 0..40u8 {
            let mut kb = [0u8; 32];
            let mut h = fnv64(&[j, (i & 0xff) as u8, (i >> 8) as u8, n as u8]);
            for c in kb.chunks_mut(8) {
                h = fnv64(&h.to_le_bytes());
                c.copy_from_slice(&h.to_le_bytes());
            }
            push(hex(&kb));
        }
        drop(push);
        let reply = r.model.ask_multi(&format!("imglookup {}", keys.join(" ")));
        for l in &reply {
            let t: Vec<&str> = l.split(' ').collect();
            if t[0] == "prefix_unrecoverable" {
                out.stats.branches_partly_compressed += t.get(3).and_then(|x| x.parse::<u64>().ok()).unwrap_or(0);
                if t.get(1).copied() != Some("0") {
                    fail(out, "readpath", format!("{} branch nodes record a prefix but no prefix-compressed separator: the mirror cannot recover the prefix bits find_key_pos compares with", t.get(1).copied().unwrap_or("?")));
                }
                continue;
            }
            if t.len() < 3 {
                continue;
            }
            let got: Option<(usize, u64)> = if t[1] == "none" { None } else { Some((t[1].parse().unwrap_or(usize::MAX - 1), u64::from_str_radix(t[2], 16).unwrap_or(0))) };
            let route = t.last().copied().unwrap_or("");
            let exp = expect.get(t[0]).copied();
            out.stats.lookups_compared += 1;
            if exp.is_some() {
                out.stats.lookups_present += 1;
            }
            if got != exp {
                fail(out, "readpath", format!("key {}: the read path mirror on the decoded image returns {:?} (length, fnv64; route {}), the model state holds {:?}", t[0], got, route, exp));
                break;
            }
            if let Some(db) = r.db.as_ref() {
                let kb: [u8; 32] = match unhex(t[0]).try_into() {
                    Ok(k) => k,
                    Err(_) => continue,
                };
                match std::panic::catch_unwind(std::panic::AssertUnwindSafe(|| db.read(kb))) {
                    Ok(Ok(v)) => {
                        out.stats.lookups_vs_nomt += 1;
                        let real = v.map(|v| (v.len(), fnv64(&v)));
                        if real != got {
                            fail(out, "readpath", format!("key {}: NOMT's read returns {:?} (length, fnv64), the read path mirror on the decoded image {:?} (route {})", t[0], real, got, route));
                            break;
                        }
                    }
                    Ok(Err(e)) => {
                        fail(out, "readpath", format!("key {}: NOMT's read failed: {:#}", t[0], e));
                        break;
                    }
                    Err(_) => {
                        fail(out, "readpath", format!("key {}: NOMT's read panicked (mirror route {})", t[0], route));
                        break;
                    }
                }
            }
        }
    }

    // the merkle read path (coq/theories/SeekPath.v, the mirror of Seeker / SeekRequest::continue_seek /
    // reconstruct_pages / compute_root_node): up to 24 seeks on the decoded image with the uploaded
    // hash oracle - present keys whose leaf lies below an ELIDED page (the decoder names them) and
    // absent keys that leave their paths inside the rebuilt pages, present keys spread over the key
    // space, absent keys diverging from a present key after 0, 3, 6, 7, 11, 12, 13, 18, 19, 40, 255
    // bits, the extreme keys - against the REAL Session::prove of the live handle, byte for byte
    if let Some(db) = r.db.as_ref() {
        let present: Vec<&str> = dump.iter().filter_map(|l| l.split(' ').next()).collect();
        let vid_of: HashMap<&str, u32> = dump
            .iter()
            .filter_map(|l| {
                let mut t = l.split(' ');
                Some((t.next()?, t.next()?.parse().ok()?))
            })
            .collect();
        let mut keys: Vec<String> = Vec::new();
        let mut push = |k: String| {
            if k.len() == 64 && keys.len() < 24 && !keys.contains(&k) {
                keys.push(k);
            }
        };
        let flip = |k: &str, bit: usize| -> String {
            let mut b = unhex(k);
            if b.len() == 32 {
                b[bit / 8] ^= 0x80 >> (bit % 8);
            }
            hex(&b)
        };
        let targets = r.model.ask_multi("imgseekkeys 5");
        for (j, l) in targets.iter().enumerate() {
            if let Some(k) = l.strip_prefix("e ") {
                push(k.to_string());
                // absent keys that follow the present key into the rebuilt pages
                if j < 3 {
                    push(flip(k, 255));
                    push(flip(k, [13usize, 15, 17][j]));
                }
            }
        }
        let n = present.len();
        if n > 0 {
            let picks = 5.min(n);
            for j in 0..picks {
                let idx = if picks == 1 { 0 } else { j * (n - 1) / (picks - 1) };
                push(present[idx].to_string());
            }
            let depths = [0usize, 3, 6, 7, 11, 12, 13, 18, 19, 40, 255];
            for (j, d) in depths.iter().enumerate() {
                push(flip(present[(j * 7 + i) % n], *d));
            }
        }
        push("00".repeat(32));
        push("ff".repeat(32));
        for j in 0..24u8 {
            let mut kb = [0u8; 32];
            let mut h = fnv64(&[j, 0x5e, (i & 0xff) as u8, (i >> 8) as u8, n as u8]);
            for c in kb.chunks_mut(8) {
                h = fnv64(&h.to_le_bytes());
                c.copy_from_slice(&h.to_le_bytes());
            }
            push(hex(&kb));
        }
        drop(push);
        let reply = r.model.ask_multi(&format!("imgseek {}", keys.join(" ")));
        let sess = db.begin_session(nomt::SessionParams::default());
        for l in &reply {
            let t: Vec<&str> = l.split(' ').filter(|x| !x.is_empty()).collect();
            if t.is_empty() || t[0] == "undecodable" {
                continue;
            }
            if t[0] == "wf_root" {
                if t.get(1).copied() != Some("ok") {
                    fail(out, "seekpath", "fewer than two pairs are stored but the root page holds a non-terminator top node (wf_root): compute_root_node would derive an internal root".to_string());
                }
                continue;
            }
            if t.len() < 2 {
                continue;
            }
            let kb: [u8; 32] = match unhex(t[0]).try_into() {
                Ok(k) => k,
                Err(_) => continue,
            };
            let real = match std::panic::catch_unwind(std::panic::AssertUnwindSafe(|| sess.prove(kb))) {
                Ok(Ok(p)) => p,
                Ok(Err(e)) => {
                    fail(out, "seekpath", format!("key {}: Session::prove failed: {:#}", t[0], e));
                    break;
                }
                Err(_) => {
                    fail(out, "seekpath", format!("key {}: Session::prove panicked (mirror: {})", t[0], t[1..].iter().take(4).cloned().collect::<Vec<_>>().join(" ")));
                    break;
                }
            };
            out.stats.seeks_compared += 1;
            if t[1] == "none" || t.len() < 5 {
                fail(out, "seekpath", format!("key {}: the seek mirror gives up on the decoded image (absent page not marked elided, missing oracle entry, rebuilt root differs from the stored node, or no leaf in range); Session::prove returns {} siblings", t[0], real.siblings.len()));
                break;
            }
            let sd: usize = t[3].parse().unwrap_or(0);
            let ns: usize = t[4].parse().unwrap_or(usize::MAX);
            let sibs: Vec<Vec<u8>> = t[5..].iter().map(|h| unhex(h)).collect();
            if sibs.len() != ns {
                fail(out, "seekpath", format!("key {}: malformed mirror reply", t[0]));
                break;
            }
            if real.siblings.len() != ns || real.siblings.iter().zip(sibs.iter()).any(|(a, b)| a[..] != b[..]) {
                let at = real.siblings.iter().zip(sibs.iter()).position(|(a, b)| a[..] != b[..]);
                fail(out, "seekpath", format!("key {}: Session::prove returns {} siblings, the seek mirror on the decoded image {} ({} stored pages on the path); first difference at depth {:?}", t[0], real.siblings.len(), ns, sd, at));
                break;
            }
            let ok = match (&real.terminal, t[1]) {
                (nomt::proof::PathProofTerminal::Leaf(ld), "leaf") => {
                    hex(&ld.key_path) == t[2] && vid_of.get(t[2]).and_then(|v| vh.get(v)).map(|h| *h == ld.value_hash).unwrap_or(false)
                }
                (nomt::proof::PathProofTerminal::Terminator(pos), "term") => {
                    use bitvec::prelude::*;
                    let d: usize = t[2].parse().unwrap_or(usize::MAX);
                    d <= 256 && pos.depth() as usize == d && pos.path() == &kb.view_bits::<Msb0>()[..d]
                }
                _ => false,
            };
            if !ok {
                fail(out, "seekpath", format!("key {}: terminal differs: Session::prove {:?}, the seek mirror {} {}", t[0], real.terminal, t[1], t[2]));
                break;
            }
            if t[1] == "term" {
                out.stats.seeks_terminator += 1;
            } else if t[2] == t[0] {
                out.stats.seeks_present += 1;
            } else {
                out.stats.seeks_foreign_leaf += 1;
            }
            if ns > 6 * sd {
                out.stats.seeks_rebuilt += 1;
            }
            out.stats.seeks_max_siblings = out.stats.seeks_max_siblings.max(ns as u64);
        }
        drop(sess);
    }

    // the page formats (coq/theories/NodeCodec.v, encoders written from LeafBuilder / BranchNodeBuilder /
    // overflow.rs::chunk / Meta::encode_to): every leaf, branch and overflow page and the manifest is
    // ENCODED again from its decoded content and compared with the file on all bytes the builders define
    {
        let t_re = std::time::Instant::now();
        let reply = r.model.ask_multi("imgreencode");
        out.stats.reencode_ms_total += t_re.elapsed().as_secs_f64() * 1e3;
        for l in &reply {
            let t: Vec<&str> = l.split(' ').collect();
            if t.len() >= 5 && t[0] == "reencode" && t[1] == "FAIL" {
                fail(out, "reencode", format!("re-encoding the decoded {} page {} does not give the bytes of the file: FAIL EReencode {} {} (first differing defined byte offset; 4096 = length, 4097 = unreadable)", t[2], t[3], t[3], t[4]));
            } else if t.len() >= 2 && t[0] == "reencode" && t[1] == "note" {
                // development aid: VERIF_REENCODE_SNAP=<dir> keeps a copy of the image a note is about
                if let Ok(d) = std::env::var("VERIF_REENCODE_SNAP") {
                    let dst = std::path::Path::new(&d).join(format!("snap-{}-{}", std::process::id(), i));
                    let _ = std::fs::create_dir_all(&dst);
                    for f in ["meta", "ln", "bbn", "ht"] {
                        let _ = std::fs::copy(r.dir.join(f), dst.join(f));
                    }
                    eprintln!("{} -> {}", l, dst.display());
                }
            } else if t.len() >= 2 && t[0] == "reencode" && (t[1] == "ok" || t[1] == "bad") {
                let kv = parse_kv_line(l);
                let g = |k: &str| kv.get(k).copied().unwrap_or(0);
                out.stats.pages_reencoded += g("leaves") + g("branches") + g("overflow") + g("manifest");
                out.stats.bytes_reencoded_equal += g("bytes_compared");
                out.stats.reencode_undefined_nonzero_bytes += g("undef_nonzero");
                out.stats.reencode_noncanonical_separators += g("noncanon");
                if g("noncanon") > 0 {
                    // a separator stored with more bits than separator_len - prefix_len: the page decodes to
                    // the same keys, but the builders' size accounting assumes canonical lengths (defect N12)
                    fail(out, "reencode", format!("image check reencode failed: FAIL noncanon {} branch separator(s) stored with a non-canonical bit length", g("noncanon")));
                }
                for (k, name) in ["undef_nonzero_leaf", "undef_nonzero_branch", "undef_nonzero_overflow", "undef_nonzero_manifest"].iter().enumerate() {
                    out.stats.reencode_undefined_nonzero_by_kind[k] += g(name);
                }
            }
        }
    }

    // statistics, occupancy
    let stats_line = r.model.ask("imgstats");
    do_flip(&flip);
    if std::env::var("VERIF_IMG_TRACE").is_ok() {
        eprintln!("op {}: {} | {} | ms: table {:.0} upload+decode {:.0} check {:.0} kv+stats {:.0}", i, checks.join("; "), stats_line, t_table, t_upload - t_table, t_check - t_upload, t0.elapsed().as_secs_f64() * 1e3 - t_check);
    }
    let st = parse_kv_line(&stats_line);
    let g = |k: &str| st.get(k).copied().unwrap_or(0);
    if let Some(db) = r.db.as_ref() {
        let u = db.hash_table_utilization();
        if u.occupied as u64 != g("full") {
            fail(out, "occupancy", format!("hash_table_utilization reports {} occupied buckets, the decoded table holds {} stored pages", u.occupied, g("full")));
        }
        if u.capacity as u64 != g("buckets") {
            fail(out, "occupancy", format!("hash_table_utilization reports capacity {}, the manifest {}", u.capacity, g("buckets")));
        }
    }
    if dump.is_empty() && g("full") != 0 {
        fail(out, "occupancy", format!("the store is empty but {} buckets are occupied", g("full")));
    }
    let s = &mut out.stats;
    if dump.is_empty() {
        s.empty_images += 1;
    }
    if g("leaves") >= 1 && g("full") >= 1 {
        s.nontrivial += 1;
    }
    s.leaves += g("leaves");
    s.branches += g("branches");
    s.overflow_pages += g("overflow_pages");
    s.merkle_pages += g("full");
    s.entries += g("entries");
    s.inline_values += g("inline");
    s.overflow_values += g("overflow_values");
    s.max_entries = s.max_entries.max(g("entries"));
    s.max_free_items = s.max_free_items.max(g("ln_free_items")).max(g("bbn_free_items"));
    s.max_free_portions = s.max_free_portions.max(g("ln_free_portions")).max(g("bbn_free_portions"));
    s.elided_pages += g("elided_needed");
    if g("elided_needed") > 0 {
        s.images_with_elision += 1;
    }
    s.tombstones += g("tombstones");
    s.max_tombstones = s.max_tombstones.max(g("tombstones"));
    s.nodes_compared += g("nodes_compared");
    s.max_page_depth = s.max_page_depth.max(g("max_page_depth"));
    s.below_absent += g("below_absent");
    s.unneeded_stored += g("full").saturating_sub(g("stored_needed"));
    let ms = t0.elapsed().as_secs_f64() * 1e3;
    s.check_ms_total += ms;
    s.check_ms_max = s.check_ms_max.max(ms);
    Some(Snapshot { ln_bump: g("ln_bump"), bbn_bump: g("bbn_bump"), ln_free_items: g("ln_free_items"), bbn_free_items: g("bbn_free_items") })
}

fn run_with<H: HashAlgorithm>(sc: &ImgScenario, prop: &str, tag: &str) -> Outcome {
    let mut out = Outcome::default();
    let mut r = Runner::<H>::new(tag, Mask::default());
    if std::env::var("VERIF_IMG_KEEP").is_ok() {
        r.keep_dir = true;
        eprintln!("keeping {}", r.dir.display());
    }
    let mut by_digest: HashMap<[u8; 32], (usize, u64)> = HashMap::new();
    let mut cycle = 0usize;
    let mut base: Option<(u64, u64)> = None;
    for (i, op) in sc.ops.iter().enumerate() {
        if let Op::Finish { batch, .. } = op {
            for (_, a) in batch {
                if let Acc::Write(Some(d)) | Acc::ReadWrite(Some(d)) = a {
                    let b = value_bytes(d.0, d.1);
                    by_digest.entry(crate::model::digest(&b)).or_insert_with(|| (b.len(), fnv64(&b)));
                }
            }
        }
        if let Err(m) = r.step(i, op) {
            out.skipped = Some(format!("op {} ({}): {} {}", i, op.to_line().chars().take(60).collect::<String>(), m.kind, m.detail));
            break;
        }
        let hook = matches!(op, Op::Open(_) | Op::Commit { .. } | Op::Rollback(_)) && r.db.is_some();
        if !hook {
            continue;
        }
        match op {
            Op::Open(_) => out.stats.after_open += 1,
            Op::Commit { .. } => out.stats.after_commit += 1,
            _ => out.stats.after_rollback += 1,
        }
        let before = out.violations.len();
        let snap = check_point(&mut r, prop, i, &by_digest, &mut out);
        if let (Some(s), true) = (snap, sc.cycle_ends.contains(&i)) {
            cycle += 1;
            out.stats.cycles_measured += 1;
            out.series.push((cycle, s.ln_bump, s.bbn_bump, s.ln_free_items, s.bbn_free_items));
            if cycle == 2 {
                base = Some((s.ln_bump, s.bbn_bump));
            }
            if let (Some((l2, b2)), true) = (base, cycle >= 3) {
                let slack_ln = s.ln_free_items / 1022 + 4;
                let slack_bbn = s.bbn_free_items / 1022 + 4;
                if (s.ln_bump > l2 + slack_ln || s.bbn_bump > b2 + slack_bbn) && !relevant(prop, "frontier", "") {
                    out.stats.other_check_failures += 1;
                } else if s.ln_bump > l2 + slack_ln || s.bbn_bump > b2 + slack_bbn {
                    out.violations.push(Violation {
                        sig: format!("{}-frontier", prop.to_lowercase()),
                        op_index: i,
                        detail: format!(
                            "after cycle {} the frontier is ln_bump={} bbn_bump={}, after cycle 2 it was ln_bump={} bbn_bump={} (allowed slack {} / {}); series {:?}",
                            cycle, s.ln_bump, s.bbn_bump, l2, b2, slack_ln, slack_bbn, out.series
                        ),
                    });
                }
            }
        }
        if out.violations.len() > before {
            // one failing image per script is enough; the replay is the script up to here
            break;
        }
    }
    out
}

pub fn run_img_scenario(sc: &ImgScenario, prop: &str, tag: &str) -> Outcome {
    let sha2 = sc.ops.iter().find_map(|o| if let Op::Open(c) = o { Some(c.sha2) } else { None }).unwrap_or(false);
    if sha2 {
        run_with::<Sha2Hasher>(sc, prop, tag)
    } else {
        run_with::<Blake3Hasher>(sc, prop, tag)
    }
}

// ---------------------------------------------------------------------------------------------
// generators

fn plain(s: scen::Scenario) -> ImgScenario {
    ImgScenario { ops: s.ops, label: s.label, cycle_ends: vec![] }
}

fn small_cfg(rng: &mut Rng, ht: u32) -> Cfg {
    let mut c = gen_cfg(rng);
    c.ht = ht;
    c.rollback = false;
    c
}

/// value of the "other" form: in-leaf values become multi-page ones and back
fn flip_form(rng: &mut Rng, d: (usize, u64)) -> (usize, u64) {
    let len = if d.0 > 1332 {
        *rng.pick(&[0usize, 1, 40, 200, 1331, 1332])
    } else {
        *rng.pick(&[1333usize, 2000, 4092, 4093, 8185, 12000, 20000])
    };
    (len, rng.next() % 1_000_000)
}

/// long fill / overwrite / delete-everything cycles of equal size
pub fn cycles(rng: &mut Rng, thorough: bool) -> ImgScenario {
    let mut ops = Vec::new();
    let (mut sid, mut cid) = (0u32, 0u32);
    let mut commit = |ops: &mut Vec<Op>, mut batch: Vec<(Key, Acc)>| {
        batch.sort_by(|a, b| a.0.cmp(&b.0));
        batch.dedup_by(|a, b| a.0 == b.0);
        sid += 1;
        cid += 1;
        ops.extend(commit_ops(sid, cid, batch, false));
        ops.len() - 1
    };
    let ht = *rng.pick(&[4096u32, 16384, 64000]);
    let cfg = small_cfg(rng, ht);
    ops.push(Op::Open(cfg.clone()));
    let nkeys = if thorough { *rng.pick(&[1500u64, 2500, 4000, 6000, 10000]) } else { rng.range(60, 1400) } as usize;
    let ncycles = if thorough { (60000 / nkeys as u64).clamp(6, 50) } else { rng.range(4, 7) } as usize;
    let big_share = *rng.pick(&[0u64, 5, 20, 50]);
    let mut kg = KeyGen::new(rng);
    let mut keys: Vec<Key> = (0..nkeys).map(|_| if rng.chance(1, 3) { kg.key(rng) } else { rng.key() }).collect();
    keys.sort();
    keys.dedup();
    let lens: Vec<usize> = keys
        .iter()
        .map(|_| {
            if rng.chance(big_share, 100) {
                *rng.pick(&[1333usize, 2000, 4092, 4093, 8185, 9000, 20000])
            } else if rng.chance(1, 10) {
                *rng.pick(&[0usize, 1, 32, 1331, 1332])
            } else {
                rng.below(300) as usize
            }
        })
        .collect();
    let fill_commits = rng.range(1, 3) as usize;
    let empty_commits = rng.range(1, 2) as usize;
    // the plan is fixed once so that every cycle allocates and frees the same amounts (only the
    // value bytes differ from cycle to cycle): rounds of overwriting a subset with the other form
    let mut plan: Vec<Vec<(usize, usize, bool)>> = Vec::new(); // (key index, new length, read-then-write)
    {
        let mut cur = lens.clone();
        for _ in 0..rng.range(1, 2) {
            let mut round = Vec::new();
            for (j, l) in cur.iter_mut().enumerate() {
                if rng.chance(1, 2) {
                    *l = flip_form(rng, (*l, 0)).0;
                    round.push((j, *l, rng.chance(1, 3)));
                }
            }
            plan.push(round);
        }
    }
    let reopen = rng.chance(1, 4);
    let mut cycle_ends = Vec::new();
    for cy in 0..ncycles {
        let vs = |j: usize, round: usize| (cy as u64) * 7919 + (round as u64) * 104729 + (j as u64 % 97);
        // fill
        for part in 0..fill_commits {
            let b: Vec<(Key, Acc)> = keys.iter().enumerate().filter(|(j, _)| j % fill_commits == part).map(|(j, k)| (*k, Acc::Write(Some((lens[j], vs(j, 0)))))).collect();
            if !b.is_empty() {
                commit(&mut ops, b);
            }
        }
        // overwrite
        for (ri, round) in plan.iter().enumerate() {
            let b: Vec<(Key, Acc)> = round
                .iter()
                .map(|(j, l, rw)| (keys[*j], if *rw { Acc::ReadWrite(Some((*l, vs(*j, ri + 1)))) } else { Acc::Write(Some((*l, vs(*j, ri + 1)))) }))
                .collect();
            if !b.is_empty() {
                commit(&mut ops, b);
            }
        }
        if reopen {
            ops.push(Op::Close);
            ops.push(Op::Open(cfg.clone()));
        }
        // empty
        let mut last = 0;
        for part in 0..empty_commits {
            let b: Vec<(Key, Acc)> = keys.iter().enumerate().filter(|(j, _)| j % empty_commits == part).map(|(_, k)| (*k, Acc::Write(None))).collect();
            if !b.is_empty() {
                last = commit(&mut ops, b);
            }
        }
        cycle_ends.push(last);
    }
    ImgScenario { ops, label: format!("cycles keys={} cycles={} big%={} ht={} cc={}", keys.len(), ncycles, big_share, ht, cfg.cc), cycle_ends }
}

/// tiny hash table, dense sub-tries created and destroyed so that tombstones pile up
pub fn tiny_ht(rng: &mut Rng, thorough: bool) -> ImgScenario {
    let mut ops = Vec::new();
    let (mut sid, mut cid) = (0u32, 0u32);
    let ht = *rng.pick(&[256u32, 384, 512, 1024]);
    let cfg = small_cfg(rng, ht);
    ops.push(Op::Open(cfg.clone()));
    let mut kg = KeyGen::new(rng);
    let mut push = |ops: &mut Vec<Op>, mut batch: Vec<(Key, Acc)>| {
        batch.sort_by(|a, b| a.0.cmp(&b.0));
        batch.dedup_by(|a, b| a.0 == b.0);
        sid += 1;
        cid += 1;
        ops.extend(commit_ops(sid, cid, batch, false));
    };
    // a base population: the root page and some first-level pages
    let nbase = rng.range(10, if ht >= 512 { 120 } else { 50 }) as usize;
    let base: Vec<(Key, Acc)> = (0..nbase).map(|_| (rng.key(), Acc::Write(Some(gen_value(rng, ValueMix::Small))))).collect();
    push(&mut ops, base);
    let rounds = if thorough { rng.range(30, 120) } else { rng.range(8, 30) } as usize;
    let mut groups: Vec<Vec<Key>> = Vec::new();
    for _ in 0..rounds {
        let mut batch: Vec<(Key, Acc)> = Vec::new();
        // retire one or two old groups (their pages are cleared -> tombstones) ...
        for _ in 0..rng.range(0, 2) {
            if !groups.is_empty() {
                let gi = rng.below(groups.len() as u64) as usize;
                let g = groups.swap_remove(gi);
                let keep = if rng.chance(1, 3) { (rng.below(19) as usize).min(g.len()) } else { 0 };
                batch.extend(g.iter().skip(keep).map(|k| (*k, Acc::Write(None))));
                if keep > 0 {
                    groups.push(g[..keep].to_vec());
                }
            }
        }
        // ... and grow a new dense one below a page of depth 1..4
        if groups.len() < 6 {
            let bits = *rng.pick(&[6usize, 12, 12, 18, 24]);
            let n = rng.range(20, 45) as usize;
            let g = kg.dense(rng, bits, n);
            batch.extend(g.iter().map(|k| (*k, Acc::Write(Some(gen_value(rng, ValueMix::Small))))));
            groups.push(g);
        }
        if batch.is_empty() {
            continue;
        }
        push(&mut ops, batch);
        if rng.chance(1, 10) {
            ops.push(Op::Close);
            ops.push(Op::Open(cfg.clone()));
        }
    }
    // finally delete everything that is left
    let mut rest: Vec<(Key, Acc)> = groups.iter().flatten().map(|k| (*k, Acc::Write(None))).collect();
    if let Some(Op::Finish { batch, .. }) = ops.get(2) {
        rest.extend(batch.iter().map(|(k, _)| (*k, Acc::Write(None))));
    }
    push(&mut ops, rest);
    ImgScenario { ops, label: format!("tiny_ht ht={} rounds={} base={}", ht, rounds, nbase), cycle_ends: vec![] }
}

/// "after any recovered crash": histories in which one or two commits are cut inside sync (the
/// handle is opened with panic_on_sync: before the manifest = the old state must come back, after
/// the manifest = the WAL redo must produce the new one); the image is decoded after the recovery
/// and again after a further commit.  Dense sub-tries are moved across the page-elision threshold
/// inside the interrupted commit, in both directions, below pages that are already stored.
pub fn crashes(rng: &mut Rng, thorough: bool) -> ImgScenario {
    let mut ops = Vec::new();
    let (mut sid, mut cid) = (0u32, 0u32);
    let ht = *rng.pick(&[1024u32, 4096, 64000]);
    let mut cfg = small_cfg(rng, ht);
    cfg.rollback = rng.chance(1, 2);
    cfg.max_len = *rng.pick(&[2u32, 100]);
    cfg.prepop = false;
    ops.push(Op::Open(cfg.clone()));
    let mut kg = KeyGen::new(rng);
    let mut live = Live::default();
    let mut push = |ops: &mut Vec<Op>, live: &mut Live, mut batch: Vec<(Key, Acc)>| {
        batch.sort_by(|a, b| a.0.cmp(&b.0));
        batch.dedup_by(|a, b| a.0 == b.0);
        live.apply(&batch);
        sid += 1;
        cid += 1;
        ops.extend(commit_ops(sid, cid, batch, false));
    };
    // base population
    for _ in 0..rng.range(1, 3) {
        let sz = rng.range(5, if thorough { 300 } else { 80 }) as usize;
        let b = gen_batch(rng, &mut kg, &live, &BatchSpec { size: sz, mix: ValueMix::Mixed, p_delete: 20, p_read: 0, p_rw: 30, p_existing: 40 });
        push(&mut ops, &mut live, b);
    }
    // dense groups below pages of depth 1..3, some just under and some just over the threshold
    let mut groups: Vec<(Vec<Key>, usize)> = Vec::new();
    let mut b: Vec<(Key, Acc)> = Vec::new();
    for _ in 0..rng.range(1, 4) {
        let bits = *rng.pick(&[6usize, 12, 12, 18]);
        let g = kg.dense(rng, bits, 30);
        let n0 = if rng.chance(1, 2) { rng.range(14, 19) } else { rng.range(21, 28) } as usize;
        b.extend(g[..n0].iter().map(|k| (*k, Acc::Write(Some(gen_value(rng, ValueMix::Small))))));
        groups.push((g, n0));
    }
    push(&mut ops, &mut live, b);
    // sometimes a stored group is deleted completely first (its page is cleared: the bucket becomes a
    // tombstone) and re-created by the INTERRUPTED commit: the redo has to put a page into a bucket
    // whose meta byte on disk is a tombstone
    let mut dead: Vec<bool> = vec![false; groups.len()];
    for (gi, (g, n)) in groups.iter_mut().enumerate() {
        if *n >= 21 && rng.chance(1, 2) {
            let d: Vec<(Key, Acc)> = g[..*n].iter().map(|k| (*k, Acc::Write(None))).collect();
            push(&mut ops, &mut live, d);
            *n = 0;
            dead[gi] = true;
        }
    }
    let rounds = rng.range(1, if thorough { 4 } else { 2 });
    for _ in 0..rounds {
        let mode = if rng.chance(2, 3) { 2u8 } else { 1 };
        ops.push(Op::Close);
        let mut pc = cfg.clone();
        pc.panic = mode;
        ops.push(Op::Open(pc));
        let sz = rng.range(0, 30) as usize;
        let mut b = gen_batch(rng, &mut kg, &live, &BatchSpec { size: sz, mix: ValueMix::Mixed, p_delete: 30, p_read: 0, p_rw: 30, p_existing: 60 });
        for (gi, (g, n)) in groups.iter_mut().enumerate() {
            if dead[gi] {
                let n1 = rng.range(21, 30) as usize;
                b.extend(g[..n1].iter().map(|k| (*k, Acc::Write(Some(gen_value(rng, ValueMix::Small))))));
                if mode == 2 {
                    *n = n1;
                    dead[gi] = false;
                }
                continue;
            }
            if rng.chance(1, 5) {
                continue;
            }
            if *n <= 19 {
                let n1 = rng.range(21, 30) as usize;
                b.extend(g[*n..n1].iter().map(|k| (*k, Acc::Write(Some(gen_value(rng, ValueMix::Small))))));
                if mode == 2 {
                    *n = n1;
                }
            } else {
                let n1 = rng.range(3, 18) as usize;
                b.extend(g[n1..*n].iter().map(|k| (*k, Acc::Write(None))));
                if mode == 2 {
                    *n = n1;
                }
            }
        }
        if b.is_empty() {
            b.push((rng.key(), Acc::Write(Some((3, 1)))));
        }
        b.sort_by(|a, b| a.0.cmp(&b.0));
        b.dedup_by(|a, b| a.0 == b.0);
        if mode == 2 {
            live.apply(&b);
        }
        sid += 1;
        cid += 1;
        ops.extend(commit_ops(sid, cid, b, false));
        ops.push(Op::Open(cfg.clone()));
        // life goes on on the recovered store
        let sz = rng.range(1, 25) as usize;
        let b2 = gen_batch(rng, &mut kg, &live, &BatchSpec { size: sz, mix: ValueMix::Small, p_delete: 30, p_read: 0, p_rw: 30, p_existing: 70 });
        live.apply(&b2);
        sid += 1;
        cid += 1;
        ops.extend(commit_ops(sid, cid, b2, false));
    }
    ImgScenario { ops, label: format!("crashes ht={} rounds={} rb={}", ht, rounds, cfg.rollback as u8), cycle_ends: vec![] }
}

/// keys with few significant bits (a dense run of two- or three-byte numbers, then zeros) and values
/// of which two or three fill a leaf: a separator is the shortest prefix of a leaf's first key that
/// exceeds the previous leaf's last key, zero padded - for neighbouring numbers that IS the first
/// key.  So separators are present keys, in leaves and as first separators of branch nodes (the exact
/// hits of find_key_pos and of Index::lookup, rare with random 256-bit keys), and there are several
/// branch nodes
pub fn short_keys(rng: &mut Rng, thorough: bool) -> ImgScenario {
    let mut ops = Vec::new();
    let (mut sid, mut cid) = (0u32, 0u32);
    let cfg = small_cfg(rng, 64000);
    ops.push(Op::Open(cfg.clone()));
    let nkeys = if thorough { rng.range(3000, 6000) } else { rng.range(1500, 3000) };
    // variant "tail": the numbers sit in the LAST two bytes behind a fixed 30-byte prefix, among a few
    // hundred unrelated keys: a branch node that starts inside the run compresses a long prefix, and
    // must stop compressing when the run ends (prefix_compressed < n: the uncompressed tail)
    let tail = rng.chance(1, 3);
    let sig = if tail { 2usize } else { *rng.pick(&[2usize, 2, 3]) };
    let span = nkeys * 4 / 3;
    let base = rng.below((1u64 << (8 * sig as u64)) - span);
    let fixed = rng.key();
    let mut keys: Vec<Key> = (0..span)
        .filter(|_| rng.chance(3, 4))
        .map(|j| {
            let v = (base + j).to_be_bytes();
            if tail {
                let mut k = fixed;
                k[30..].copy_from_slice(&v[6..]);
                k
            } else {
                let mut k = [0u8; 32];
                k[..sig].copy_from_slice(&v[8 - sig..]);
                k
            }
        })
        .collect();
    if tail {
        for _ in 0..rng.range(150, 400) {
            keys.push(rng.key());
        }
        keys.sort();
        keys.dedup();
    }
    let rounds = rng.range(2, 4);
    for round in 0..rounds {
        let mut batch: Vec<(Key, Acc)> = Vec::new();
        for k in keys.iter() {
            if round == 0 || rng.chance(1, 4) {
                if round > 0 && rng.chance(1, 3) {
                    batch.push((*k, Acc::Write(None)));
                } else {
                    let len = *rng.pick(&[1100usize, 1200, 1300, 1332]);
                    batch.push((*k, Acc::Write(Some((len, rng.next() % 1_000_000)))));
                }
            }
        }
        if batch.is_empty() {
            continue;
        }
        sid += 1;
        cid += 1;
        ops.extend(commit_ops(sid, cid, batch, false));
        if rng.chance(1, 3) {
            ops.push(Op::Close);
            ops.push(Op::Open(cfg.clone()));
        }
    }
    ImgScenario { ops, label: format!("short_keys keys={} sig={} tail={} rounds={}", keys.len(), sig, tail as u8, rounds), cycle_ends: vec![] }
}

pub fn generate(prop: &str, rng: &mut Rng, thorough: bool) -> ImgScenario {
    match prop {
        "C19" => match rng.below(12) {
            10..=11 => crashes(rng, thorough),
            0..=4 => cycles(rng, thorough),
            5..=6 => tiny_ht(rng, thorough),
            7 => plain(scen::c01(rng, thorough)),
            8 => plain(scen::c10(rng, thorough)),
            _ => plain(scen::c09(rng, thorough)),
        },
        _ => match rng.below(18) {
            16..=17 => short_keys(rng, thorough),
            12..=15 => crashes(rng, thorough),
            0 => plain(scen::c01(rng, thorough)),
            1 => plain(match rng.below(3) { 0 => scen::c01_prefix_tail(rng, false), 1 => scen::c01_clusters(rng, false), _ => scen::c01_first_leaf(rng, false) }),
            2..=3 => plain(scen::c02(rng, thorough)),
            4 => plain(scen::c09(rng, thorough)),
            5..=6 => plain(scen::c10(rng, thorough)),
            7 => plain(scen::c11(rng, thorough)),
            8..=9 => tiny_ht(rng, thorough),
            _ => cycles(rng, false),
        },
    }
}

// ---------------------------------------------------------------------------------------------

fn stats_json(s: &ImgStats) -> J {
    J::obj(vec![
        ("images_checked", J::Int(s.images as i64)),
        ("images_after_open", J::Int(s.after_open as i64)),
        ("images_after_commit", J::Int(s.after_commit as i64)),
        ("images_after_rollback", J::Int(s.after_rollback as i64)),
        ("images_of_an_empty_store", J::Int(s.empty_images as i64)),
        ("leaf_pages_decoded", J::Int(s.leaves as i64)),
        ("branch_pages_decoded", J::Int(s.branches as i64)),
        ("overflow_pages_decoded", J::Int(s.overflow_pages as i64)),
        ("merkle_pages_decoded", J::Int(s.merkle_pages as i64)),
        ("pairs_decoded", J::Int(s.entries as i64)),
        ("values_in_leaf", J::Int(s.inline_values as i64)),
        ("values_in_overflow_pages", J::Int(s.overflow_values as i64)),
        ("max_pairs_in_one_image", J::Int(s.max_entries as i64)),
        ("max_free_list_items", J::Int(s.max_free_items as i64)),
        ("max_free_list_portions", J::Int(s.max_free_portions as i64)),
        ("elided_pages_seen", J::Int(s.elided_pages as i64)),
        ("images_with_elided_pages", J::Int(s.images_with_elision as i64)),
        ("needed_pages_below_an_elided_page", J::Int(s.below_absent as i64)),
        ("tombstones_seen", J::Int(s.tombstones as i64)),
        ("max_tombstones_in_one_table", J::Int(s.max_tombstones as i64)),
        ("merkle_nodes_compared", J::Int(s.nodes_compared as i64)),
        ("max_page_depth", J::Int(s.max_page_depth as i64)),
        ("diagnostic_stored_pages_without_reachable_node", J::Int(s.unneeded_stored as i64)),
        ("failed_checks_outside_this_property", J::Int(s.other_check_failures as i64)),
        ("cycles_measured", J::Int(s.cycles_measured as i64)),
        ("freelist_transitions_checked", J::Int(s.freelist_transitions_checked as i64)),
        ("freelist_transitions_with_allocations_or_releases", J::Int(s.freelist_transitions_nontrivial as i64)),
        ("freelist_allocations_replayed", J::Int(s.freelist_allocations_replayed as i64)),
        ("freelist_releases_replayed", J::Int(s.freelist_releases_replayed as i64)),
        ("freelist_pages_written_checked", J::Int(s.freelist_pages_written_checked as i64)),
        ("freelist_max_portions_in_a_transition", J::Int(s.freelist_max_portions as i64)),
        ("freelist_lists_in_the_fragmented_shape", J::Int(s.freelist_fragmented_lists as i64)),
        ("freelist_old_portion_pages_rewritten_in_place_with_identical_content", J::Int(s.freelist_inplace_rewrites as i64)),
        ("freelist_ms_per_image_mean", J::Num(if s.images > 0 { s.freelist_ms_total / s.images as f64 } else { 0.0 })),
        ("lookups_compared", J::Int(s.lookups_compared as i64)),
        ("lookups_of_present_keys", J::Int(s.lookups_present as i64)),
        ("lookups_also_compared_with_nomt_read", J::Int(s.lookups_vs_nomt as i64)),
        ("branch_pages_with_uncompressed_tail", J::Int(s.branches_partly_compressed as i64)),
        ("seeks_compared", J::Int(s.seeks_compared as i64)),
        ("seeks_ending_in_the_keys_own_leaf", J::Int(s.seeks_present as i64)),
        ("seeks_ending_in_a_terminator", J::Int(s.seeks_terminator as i64)),
        ("seeks_ending_in_a_foreign_leaf", J::Int(s.seeks_foreign_leaf as i64)),
        ("seeks_through_rebuilt_elided_pages", J::Int(s.seeks_rebuilt as i64)),
        ("seeks_max_siblings", J::Int(s.seeks_max_siblings as i64)),
        ("pages_reencoded", J::Int(s.pages_reencoded as i64)),
        ("bytes_reencoded_equal", J::Int(s.bytes_reencoded_equal as i64)),
        ("reencode_nonzero_bytes_in_undefined_regions", J::Int(s.reencode_undefined_nonzero_bytes as i64)),
        ("reencode_nonzero_undefined_bytes_in_leaf_gaps", J::Int(s.reencode_undefined_nonzero_by_kind[0] as i64)),
        ("reencode_nonzero_undefined_bytes_in_branch_gaps", J::Int(s.reencode_undefined_nonzero_by_kind[1] as i64)),
        ("reencode_nonzero_undefined_bytes_behind_overflow_data", J::Int(s.reencode_undefined_nonzero_by_kind[2] as i64)),
        ("reencode_nonzero_undefined_bytes_behind_the_manifest", J::Int(s.reencode_undefined_nonzero_by_kind[3] as i64)),
        ("reencode_separators_with_noncanonical_length", J::Int(s.reencode_noncanonical_separators as i64)),
        ("reencode_ms_per_image_mean", J::Num(if s.images > 0 { s.reencode_ms_total / s.images as f64 } else { 0.0 })),
        ("ms_per_image_mean", J::Num(if s.images > 0 { s.check_ms_total / s.images as f64 } else { 0.0 })),
        ("ms_per_image_max", J::Num(s.check_ms_max)),
    ])
}

fn scenario_text(sc: &ImgScenario, upto: usize) -> String {
    let mut txt = String::new();
    for c in &sc.cycle_ends {
        if *c <= upto {
            txt += &format!("# cycle-end {}\n", c);
        }
    }
    txt += &crate::sys::script_to_text(&sc.ops[..=upto.min(sc.ops.len() - 1)]);
    txt
}

fn scenario_from_text(txt: &str) -> ImgScenario {
    let cycle_ends = txt.lines().filter_map(|l| l.strip_prefix("# cycle-end ")).filter_map(|x| x.trim().parse().ok()).collect();
    ImgScenario { ops: crate::sys::script_from_text(txt), label: "replay".into(), cycle_ends }
}

pub fn cmd_img(kv: &HashMap<String, String>) -> i32 {
    let prop = kv.get("prop").cloned().unwrap_or_else(|| "C16".into());
    // the model co-process allocates the decoded pages as lists: let its major GC run less often
    if std::env::var("OCAMLRUNPARAM").is_err() {
        std::env::set_var("OCAMLRUNPARAM", "o=300,s=2M");
    }
    if let Some(file) = kv.get("replay") {
        let txt = std::fs::read_to_string(file).expect("replay file");
        let sc = scenario_from_text(&txt);
        let o = run_img_scenario(&sc, &prop, "imgreplay");
        println!("images checked: {}; skipped: {:?}; series {:?}", o.stats.images, o.skipped, o.series);
        for v in &o.violations {
            println!("violation {} at op {}: {}", v.sig, v.op_index, v.detail);
        }
        return if o.violations.is_empty() { 0 } else { 1 };
    }
    let thorough = kv.get("tier").map(|t| t == "thorough").unwrap_or(false);
    let seed: u64 = kv.get("seed").and_then(|s| s.parse().ok()).unwrap_or(1);
    let n: usize = kv.get("n").and_then(|s| s.parse().ok()).unwrap_or(if thorough { 64 } else { 40 });
    let out = kv.get("out").cloned().expect("--out");
    let replay_dir = kv.get("replays").cloned().unwrap_or_else(|| format!("/verif/replays/{}", prop));
    let threads: usize = kv.get("threads").and_then(|s| s.parse().ok()).unwrap_or(8);
    std::fs::create_dir_all(&replay_dir).ok();
    // stale replays of this engine
    if let Ok(rd) = std::fs::read_dir(&replay_dir) {
        for e in rd.filter_map(|e| e.ok()) {
            if e.file_name().to_string_lossy().starts_with(&format!("{}-img-", prop)) {
                let _ = std::fs::remove_file(e.path());
            }
        }
    }

    // scenario list: corpus scripts first (regression histories), then generated ones
    let mut scenarios: Vec<ImgScenario> = Vec::new();
    if let Some(c) = kv.get("corpus") {
        if let Ok(rd) = std::fs::read_dir(c) {
            let mut files: Vec<_> = rd.filter_map(|e| e.ok()).map(|e| e.path()).collect();
            files.sort();
            for f in files {
                if f.extension().map(|e| e == "script").unwrap_or(false) {
                    let mut sc = scenario_from_text(&std::fs::read_to_string(&f).unwrap());
                    sc.label = format!("corpus {}", f.display());
                    scenarios.push(sc);
                }
            }
        }
    }
    let n_corpus = scenarios.len();
    let mut rng = Rng::new(seed ^ 0x1316);
    for _ in 0..n {
        let mut r = rng.fork();
        scenarios.push(generate(&prop, &mut r, thorough));
    }
    let t0 = std::time::Instant::now();
    let scenarios = Arc::new(scenarios);
    let queue = Arc::new(Mutex::new((0usize, Vec::<(usize, Outcome)>::new())));
    let mut handles = Vec::new();
    for _ in 0..threads.min(scenarios.len()).max(1) {
        let q = queue.clone();
        let sc = scenarios.clone();
        let prop = prop.clone();
        handles.push(std::thread::spawn(move || loop {
            let i = {
                let mut g = q.lock().unwrap();
                let i = g.0;
                g.0 += 1;
                i
            };
            if i >= sc.len() {
                break;
            }
            let r = std::panic::catch_unwind(|| run_img_scenario(&sc[i], &prop, "img"));
            let o = match r {
                Ok(o) => o,
                Err(e) => {
                    let msg = e.downcast_ref::<String>().cloned().or_else(|| e.downcast_ref::<&str>().map(|s| s.to_string())).unwrap_or_default();
                    let mut o = Outcome::default();
                    o.skipped = Some(format!("harness panic: {}", msg));
                    o
                }
            };
            q.lock().unwrap().1.push((i, o));
        }));
    }
    for h in handles {
        h.join().unwrap();
    }
    let mut results = std::mem::take(&mut queue.lock().unwrap().1);
    results.sort_by_key(|r| r.0);

    let mut total = ImgStats::default();
    let mut violations = Vec::new();
    let mut skip_notes = Vec::new();
    let mut series = Vec::new();
    let mut kinds: BTreeMap<String, usize> = BTreeMap::new();
    let mut sigs = BTreeSet::new();
    for (i, o) in &results {
        total.merge(&o.stats);
        *kinds.entry(scenarios[*i].label.split(' ').next().unwrap_or("").to_string()).or_default() += 1;
        if let Some(s) = &o.skipped {
            skip_notes.push(J::s(format!("scenario {} ({}): {}", i, scenarios[*i].label, s)));
        }
        if !o.series.is_empty() && series.len() < 12 {
            series.push(J::obj(vec![
                ("scenario", J::s(scenarios[*i].label.clone())),
                ("ln_bump_after_each_cycle", J::Arr(o.series.iter().map(|x| J::Int(x.1 as i64)).collect())),
                ("bbn_bump_after_each_cycle", J::Arr(o.series.iter().map(|x| J::Int(x.2 as i64)).collect())),
                ("ln_free_items_after_each_cycle", J::Arr(o.series.iter().map(|x| J::Int(x.3 as i64)).collect())),
            ]));
        }
        for (vi, v) in o.violations.iter().enumerate() {
            let path = format!("{}/{}-img-seed{}-{}-{}.script", replay_dir, prop, seed, i, vi);
            let mut txt = format!("# property {} engine img sig {} at op {}\n# {}\n# scenario: {}\n# rerun: nv img --prop {} --replay <this file>\n", prop, v.sig, v.op_index, v.detail.replace('\n', " "), scenarios[*i].label, prop);
            txt += &scenario_text(&scenarios[*i], v.op_index);
            std::fs::write(&path, txt).unwrap();
            sigs.insert(v.sig.clone());
            violations.push(J::obj(vec![
                ("replay", J::s(path)),
                ("sig", J::s(v.sig.clone())),
                ("kind", J::s(v.sig.clone())),
                ("detail", J::s(v.detail.clone())),
                ("ops", J::Int((v.op_index + 1) as i64)),
            ]));
        }
    }
    let j = J::obj(vec![
        ("engine", J::s("img")),
        ("property", J::s(prop.clone())),
        ("evaluations", J::Int(total.images as i64)),
        ("distinct_nontrivial", J::Int(total.nontrivial as i64)),
        ("rule", J::s("one evaluation = one on-disk image (meta, ln, bbn, ht of the directory at a quiescent point: after an open, a commit or a rollback of a generated history) decoded by the extracted Coq decoder and checked: well-formedness clauses, abs(image) = model state, occupancy = stored pages; non-trivial = at least one leaf page and one stored merkle page")),
        ("scenarios", J::Int(results.len() as i64)),
        ("corpus_cases", J::Int(n_corpus as i64)),
        ("scenario_kinds", J::Obj(kinds.iter().map(|(k, v)| (k.clone(), J::Int(*v as i64))).collect())),
        ("samples", J::Arr(results.iter().take(3).map(|(i, o)| J::obj(vec![
            ("scenario", J::s(scenarios[*i].label.clone())),
            ("images_decoded", J::Int(o.stats.images as i64)),
            ("first_ops", J::Arr(scenarios[*i].ops.iter().take(4).map(|op| J::s(op.to_line().chars().take(160).collect::<String>())).collect())),
        ])).collect())),
        ("scenarios_cut_short", J::Int(skip_notes.len() as i64)),
        ("cut_short_notes", J::Arr(skip_notes.into_iter().take(10).collect())),
        ("stats", stats_json(&total)),
        ("frontier_series", J::Arr(series)),
        ("violation_sigs", J::Arr(sigs.iter().map(|s| J::s(s.clone())).collect())),
        ("violations", J::Arr(violations.clone())),
        ("wall_s", J::Num(t0.elapsed().as_secs_f64())),
    ]);
    std::fs::write(&out, j.to_string()).unwrap();
    let _ = util::scratch_root();
    if violations.is_empty() {
        0
    } else {
        1
    }
}
