//! E-pw: function-level differential of the merkle PAGE WALKER (properties C02 / C16).
//!
//! One item = a history of batches (sorted distinct keys; put / delete / read).  The real
//! `PageWalker` (`advance_and_replace` -> `build_trie`, `advance`, `advance_and_place_node`,
//! `compact_up`, `handle_elision_threshold`, `conclude`) and the real `reconstruct_pages` are
//! reached through the hook `nomt::verif_api::VerifPageWalk` (hook H6): an in-memory page store,
//! every key sought through the stored pages as `seek.rs` does (elided pages rebuilt on demand from
//! the current key set), terminals below the root page handed to a walker with the root page as
//! parent, terminals in the root page + the child page roots handed to the root page walker, the
//! reported pages applied to the store as the hash table does (cleared pages dropped).
//!
//! The oracle does not look at the walker.  After EVERY batch it rebuilds the canonical trie of
//! the model key set by plain recursion (empty -> terminator, one pair -> leaf hash, else internal
//! over the two halves split at the next bit) and checks
//!   (a) the reported root;
//!   (b) every node slot of every stored page that the canonical trie reaches;
//!   (c) a page the trie needs is absent exactly when its stored parent marks it elided; nothing is
//!       stored that the trie does not reach;
//!   (d) the elision rule with its hysteresis, predicted from the MODEL's own history:
//!       a page is NEEDED when the node above its two top slots is internal (its sub-trie holds >= 2
//!       leaves).  A needed page is stored after a batch iff
//!         depth <= 1 (root page and its children are never elided), or
//!         it was stored before the batch (a persisted page has no leaf counters, it is never
//!         elided again; it is dropped only when it becomes empty, i.e. not needed), or
//!         its sub-trie has >= PAGE_ELISION_THRESHOLD (20) leaves.
//!       A page that is not needed is not stored.
//!   (e) no panic; plus the bookkeeping the hash table relies on: no page reported twice, no
//!       `Fresh` bucket for a page that is already stored, no cleared page that was not stored,
//!       and every reached slot that differs from the previously stored page is flagged in the
//!       `PageDiff` (the WAL only carries flagged slots).
//!
//! Signatures
//!   c02-pw-root      reported root != canonical root
//!   c02-pw-node      a reachable slot of a stored page != the canonical node at that position
//!   c02-pw-elided    needed page absent but not marked elided / stored but marked elided / missing
//!                    root page / a stored page the trie does not reach
//!   c02-pw-elision   stored set != the set predicted by the rule above
//!   c02-pw-bucket    page reported twice, fresh bucket for a stored page, clear of an absent page
//!   c02-pw-diff      reachable slot changed (or page fresh) but not flagged in the page diff
//!   c02-pw-panic     the walker / reconstruction / seek panicked on a valid history
//!
//! Found with this engine: N15 (c02-pw-diff) - `PageWalker::set_node` recorded a top slot set to the
//! terminator only as "cleared" when its sibling was still the terminator; the sibling becoming
//! non-empty later in the same walk erased the clear bit and the slot was missing from the page
//! diff (WAL recovery kept the stale node -> wrong roots after a crash); fixed in /repo e19db58,
//! corpus/C02/pw/*.pw + corpus/C02/page-diff-drops-cleared-top-slot.script.
//!
//! Item line (= replay file):
//!   pw1 h=<b|s|x> g=<0..4> | <key>:<op>,<key>:<op>,.. | <batch> | ..
//!   <op> = r (read) | d (delete) | v<seed> (put, value hash derived from the seed)

use crate::json::J;
use crate::util::{get_bit, hex, key_from_hex, set_bit, Key, Rng};
use nomt::verif_api::{VerifPageWalk, VerifWalkOutput, PAGE_ELISION_THRESHOLD};
use nomt_core::hasher::{node_kind_by_msb, Blake3Hasher, NodeHasher, Sha2Hasher};
use nomt_core::trie::{InternalData, LeafData, Node, NodeKind};
use std::collections::{BTreeMap, BTreeSet, HashMap};
use std::panic::{catch_unwind, AssertUnwindSafe};
use std::sync::{Arc, Mutex};

const THRESHOLD: usize = 20;
const ELIDED_OFF: usize = 4096 - 32 - 8;

/// a cheap non-cryptographic node hasher (MSB labelling like the real ones)
pub struct XxHasher;

fn xx(a: &[u8; 32], b: &[u8; 32], tag: u64) -> [u8; 32] {
    let mut buf = [0u8; 64];
    buf[..32].copy_from_slice(a);
    buf[32..].copy_from_slice(b);
    let mut out = [0u8; 32];
    for i in 0..4u64 {
        let h = twox_hash::xxhash3_64::Hasher::oneshot_with_seed(tag * 4 + i, &buf);
        out[i as usize * 8..i as usize * 8 + 8].copy_from_slice(&h.to_le_bytes());
    }
    out
}

impl NodeHasher for XxHasher {
    fn hash_leaf(data: &LeafData) -> [u8; 32] {
        let mut h = xx(&data.key_path, &data.value_hash, 1);
        h[0] |= 0x80;
        h
    }
    fn hash_internal(data: &InternalData) -> [u8; 32] {
        let mut h = xx(&data.left, &data.right, 2);
        h[0] &= 0x7f;
        if h == [0u8; 32] {
            h[31] = 1;
        }
        h
    }
    fn node_kind(node: &Node) -> NodeKind {
        node_kind_by_msb(node)
    }
}

#[derive(Clone, Copy, PartialEq, Eq, Debug)]
pub enum Op {
    Read,
    Del,
    Put(u64),
}

pub fn vh(seed: u64) -> [u8; 32] {
    match seed {
        0 => [0u8; 32],
        1 => [0xff; 32],
        _ => Rng::new(seed).key(),
    }
}

#[derive(Clone, Debug)]
pub struct Item {
    pub hasher: char,
    pub garbage: u8,
    pub batches: Vec<Vec<(Key, Op)>>,
    pub label: String,
}

impl Item {
    pub fn to_line(&self) -> String {
        let bs: Vec<String> = self
            .batches
            .iter()
            .map(|b| {
                b.iter()
                    .map(|(k, op)| match op {
                        Op::Read => format!("{}:r", hex(k)),
                        Op::Del => format!("{}:d", hex(k)),
                        Op::Put(s) => format!("{}:v{}", hex(k), s),
                    })
                    .collect::<Vec<_>>()
                    .join(",")
            })
            .collect();
        format!("pw1 h={} g={} | {}", self.hasher, self.garbage, bs.join(" | "))
    }

    pub fn from_line(line: &str) -> Item {
        let body = line.trim().strip_prefix("pw1 ").expect("pw item line");
        let mut parts = body.split(" | ");
        let head = parts.next().unwrap_or("");
        let mut hasher = 'b';
        let mut garbage = 0u8;
        for f in head.split(' ') {
            if let Some(x) = f.strip_prefix("h=") {
                hasher = x.chars().next().unwrap_or('b');
            } else if let Some(x) = f.strip_prefix("g=") {
                garbage = x.parse().unwrap_or(0);
            }
        }
        let batches = parts
            .map(|b| {
                b.trim()
                    .split(',')
                    .filter(|t| !t.trim().is_empty())
                    .map(|t| {
                        let (k, o) = t.trim().split_once(':').expect("key:op");
                        let op = match o {
                            "r" => Op::Read,
                            "d" => Op::Del,
                            v => Op::Put(v.strip_prefix('v').expect("v<seed>").parse().expect("seed")),
                        };
                        (key_from_hex(k), op)
                    })
                    .collect()
            })
            .collect();
        Item { hasher, garbage, batches, label: "replay".into() }
    }

    fn n_ops(&self) -> usize {
        self.batches.iter().map(|b| b.len()).sum()
    }
}

// ------------------------------------------------------------------------------------------------
// the oracle: canonical trie by plain recursion

enum T {
    Term,
    Leaf(Node),
    Int { h: Node, l: Box<T>, r: Box<T>, n: usize },
}

impl T {
    fn hash(&self) -> Node {
        match self {
            T::Term => [0u8; 32],
            T::Leaf(h) => *h,
            T::Int { h, .. } => *h,
        }
    }
    fn leaves(&self) -> usize {
        match self {
            T::Term => 0,
            T::Leaf(_) => 1,
            T::Int { n, .. } => *n,
        }
    }
}

fn canon<H: NodeHasher>(items: &[(Key, [u8; 32])], depth: usize) -> T {
    match items.len() {
        0 => T::Term,
        1 => T::Leaf(H::hash_leaf(&LeafData { key_path: items[0].0, value_hash: items[0].1 })),
        n => {
            let m = items.partition_point(|(k, _)| !get_bit(k, depth));
            let l = canon::<H>(&items[..m], depth + 1);
            let r = canon::<H>(&items[m..], depth + 1);
            let h = H::hash_internal(&InternalData { left: l.hash(), right: r.hash() });
            T::Int { h, l: Box::new(l), r: Box::new(r), n }
        }
    }
}

/// needed pages with the number of leaves of their sub-trie (page id = child indices from the root page)
fn needed_pages(t: &T, pid: &mut Vec<u8>, layer: usize, inpage: usize, out: &mut BTreeMap<Vec<u8>, usize>) {
    // `t` is an internal node whose children sit on `layer` (1..=6) of page `pid`
    let T::Int { l, r, n, .. } = t else { return };
    if layer == 1 {
        out.insert(pid.clone(), *n);
    }
    for (b, c) in [(0usize, l), (1usize, r)] {
        if let T::Int { .. } = **c {
            let v = (inpage << 1) | b;
            if layer < 6 {
                needed_pages(c, pid, layer + 1, v, out);
            } else {
                pid.push(v as u8);
                needed_pages(c, pid, 1, 0, out);
                pid.pop();
            }
        }
    }
}

#[derive(Default, Clone)]
pub struct PwStats {
    pub batches: usize,
    pub ops: usize,
    pub puts: usize,
    pub dels: usize,
    pub reads: usize,
    pub max_keys: usize,
    pub pages_checked: usize,
    pub nodes_checked: usize,
    pub max_pages: usize,
    pub max_page_depth: usize,
    pub max_needed_depth: usize,
    pub needed_elided: usize,
    pub kept_by_hysteresis: usize,
    pub cross_up: usize,
    pub cross_down: usize,
    pub cleared: usize,
    pub fresh_pages: usize,
    pub reconstructed: usize,
    pub terminals: usize,
    pub root_terminals: usize,
    pub child_roots: usize,
    pub stale_elided_bits: usize,
    pub emptied: usize,
    pub diff_slots_checked: usize,
}

impl PwStats {
    fn merge(&mut self, o: &PwStats) {
        self.batches += o.batches;
        self.ops += o.ops;
        self.puts += o.puts;
        self.dels += o.dels;
        self.reads += o.reads;
        self.max_keys = self.max_keys.max(o.max_keys);
        self.pages_checked += o.pages_checked;
        self.nodes_checked += o.nodes_checked;
        self.max_pages = self.max_pages.max(o.max_pages);
        self.max_page_depth = self.max_page_depth.max(o.max_page_depth);
        self.max_needed_depth = self.max_needed_depth.max(o.max_needed_depth);
        self.needed_elided += o.needed_elided;
        self.kept_by_hysteresis += o.kept_by_hysteresis;
        self.cross_up += o.cross_up;
        self.cross_down += o.cross_down;
        self.cleared += o.cleared;
        self.fresh_pages += o.fresh_pages;
        self.reconstructed += o.reconstructed;
        self.terminals += o.terminals;
        self.root_terminals += o.root_terminals;
        self.child_roots += o.child_roots;
        self.stale_elided_bits += o.stale_elided_bits;
        self.emptied += o.emptied;
        self.diff_slots_checked += o.diff_slots_checked;
    }
    fn json(&self) -> J {
        J::obj(vec![
            ("batches", J::Int(self.batches as i64)),
            ("ops", J::Int(self.ops as i64)),
            ("puts", J::Int(self.puts as i64)),
            ("deletes", J::Int(self.dels as i64)),
            ("reads", J::Int(self.reads as i64)),
            ("max_keys_in_state", J::Int(self.max_keys as i64)),
            ("stored_pages_checked", J::Int(self.pages_checked as i64)),
            ("node_slots_compared", J::Int(self.nodes_checked as i64)),
            ("diff_slots_checked", J::Int(self.diff_slots_checked as i64)),
            ("max_stored_pages", J::Int(self.max_pages as i64)),
            ("max_stored_page_depth", J::Int(self.max_page_depth as i64)),
            ("max_needed_page_depth", J::Int(self.max_needed_depth as i64)),
            ("needed_pages_elided_total", J::Int(self.needed_elided as i64)),
            ("pages_kept_below_threshold_by_hysteresis_total", J::Int(self.kept_by_hysteresis as i64)),
            ("pages_crossing_threshold_up", J::Int(self.cross_up as i64)),
            ("pages_crossing_threshold_down", J::Int(self.cross_down as i64)),
            ("pages_cleared", J::Int(self.cleared as i64)),
            ("pages_fresh", J::Int(self.fresh_pages as i64)),
            ("pages_reconstructed_by_seek", J::Int(self.reconstructed as i64)),
            ("terminals_below_root_page", J::Int(self.terminals as i64)),
            ("terminals_root_page_walker", J::Int(self.root_terminals as i64)),
            ("child_page_roots_placed", J::Int(self.child_roots as i64)),
            ("stale_elided_bits_seen", J::Int(self.stale_elided_bits as i64)),
            ("batches_emptying_the_trie", J::Int(self.emptied as i64)),
        ])
    }
}

pub struct Outcome {
    pub viol: Vec<(String, String, String)>, // sig, kind, detail
    pub stats: PwStats,
    pub nontrivial: bool,
    pub failed_batch: Option<usize>,
}

fn pid_s(p: &[u8]) -> String {
    if p.is_empty() {
        "root".into()
    } else {
        p.iter().map(|x| x.to_string()).collect::<Vec<_>>().join(".")
    }
}

struct Ck<'a> {
    pages: &'a HashMap<Vec<u8>, (Vec<u8>, u64)>,
    reach: BTreeSet<Vec<u8>>,
    reach_slots: HashMap<Vec<u8>, Vec<usize>>,
    viol: Vec<(String, String, String)>,
    nodes: usize,
    stale_bits: usize,
}

impl<'a> Ck<'a> {
    // `t` internal, its children on `layer` of the stored page `pid`
    fn page_nodes(&mut self, t: &T, pid: &mut Vec<u8>, layer: usize, inpage: usize) {
        let T::Int { l, r, .. } = t else { return };
        let (data, elided) = {
            let p = &self.pages[&*pid];
            (&p.0, p.1)
        };
        for (b, c) in [(0usize, l), (1usize, r)] {
            let v = (inpage << 1) | b;
            let idx = (1usize << layer) - 2 + v;
            let actual = &data[idx * 32..idx * 32 + 32];
            self.nodes += 1;
            self.reach_slots.entry(pid.clone()).or_default().push(idx);
            if actual != &c.hash()[..] {
                if self.viol.len() < 12 {
                    self.viol.push((
                        "c02-pw-node".into(),
                        "node".into(),
                        format!("page {} slot {} (layer {}): stored {} canonical {} ({} leaves below)", pid_s(pid), idx, layer, hex(actual), hex(&c.hash()), c.leaves()),
                    ));
                }
            }
            let is_int = matches!(**c, T::Int { .. });
            if layer < 6 {
                if is_int {
                    self.page_nodes(c, pid, layer + 1, v);
                }
            } else {
                let bit = (elided >> v) & 1 == 1;
                if !is_int {
                    if bit {
                        self.stale_bits += 1;
                    }
                    continue;
                }
                pid.push(v as u8);
                let stored = self.pages.contains_key(&*pid);
                if stored && bit {
                    self.viol.push(("c02-pw-elided".into(), "stored-and-elided".into(), format!("page {} ({} leaves) is stored but its parent marks it elided", pid_s(pid), c.leaves())));
                } else if !stored && !bit {
                    self.viol.push(("c02-pw-elided".into(), "absent-not-elided".into(), format!("page {} ({} leaves) is needed, absent and not marked elided in its stored parent", pid_s(pid), c.leaves())));
                }
                if stored {
                    self.reach.insert(pid.clone());
                    self.page_nodes(c, pid, 1, 0);
                }
                pid.pop();
            }
        }
    }
}

fn panic_msg(e: Box<dyn std::any::Any + Send>) -> String {
    e.downcast_ref::<String>().cloned().or_else(|| e.downcast_ref::<&str>().map(|s| s.to_string())).unwrap_or_else(|| "panic".into())
}

fn run_item_h<H: NodeHasher>(item: &Item) -> Outcome {
    let mut out = Outcome { viol: Vec::new(), stats: PwStats::default(), nontrivial: false, failed_batch: None };
    let mut walk = VerifPageWalk::<H>::new(item.garbage);
    let mut model: BTreeMap<Key, [u8; 32]> = BTreeMap::new();
    let mut pred_stored: BTreeSet<Vec<u8>> = BTreeSet::new();
    let mut prev_needed: BTreeMap<Vec<u8>, usize> = BTreeMap::new();
    let mut prev_pages: HashMap<Vec<u8>, (Vec<u8>, u64)> = HashMap::new();
    for (bi, batch) in item.batches.iter().enumerate() {
        // a valid batch: strictly ascending keys
        for w in batch.windows(2) {
            assert!(w[0].0 < w[1].0, "item batch {} is not strictly ascending", bi);
        }
        let real: Vec<(Key, Option<Option<[u8; 32]>>)> = batch
            .iter()
            .map(|(k, op)| {
                (
                    *k,
                    match op {
                        Op::Read => None,
                        Op::Del => Some(None),
                        Op::Put(s) => Some(Some(vh(*s))),
                    },
                )
            })
            .collect();
        let res: Result<VerifWalkOutput, _> = catch_unwind(AssertUnwindSafe(|| walk.apply(&real)));
        let o = match res {
            Ok(o) => o,
            Err(e) => {
                out.viol.push(("c02-pw-panic".into(), "panic".into(), format!("batch {}: {}", bi, panic_msg(e))));
                out.failed_batch = Some(bi);
                return out;
            }
        };
        // the model
        let before = model.len();
        let mut changed = false;
        for (k, op) in batch {
            match op {
                Op::Read => out.stats.reads += 1,
                Op::Del => {
                    out.stats.dels += 1;
                    changed |= model.remove(k).is_some();
                }
                Op::Put(s) => {
                    out.stats.puts += 1;
                    let v = vh(*s);
                    changed |= model.insert(*k, v) != Some(v);
                }
            }
        }
        out.nontrivial |= changed;
        out.stats.batches += 1;
        out.stats.ops += batch.len();
        out.stats.max_keys = out.stats.max_keys.max(model.len());
        if before > 0 && model.is_empty() {
            out.stats.emptied += 1;
        }
        out.stats.terminals += o.counts.0;
        out.stats.root_terminals += o.counts.1;
        out.stats.child_roots += o.counts.2;
        out.stats.reconstructed += o.counts.3;

        let items: Vec<(Key, [u8; 32])> = model.iter().map(|(k, v)| (*k, *v)).collect();
        let t = canon::<H>(&items, 0);
        let mut viol: Vec<(String, String, String)> = Vec::new();
        // (a)
        if o.root != t.hash() {
            viol.push(("c02-pw-root".into(), "root".into(), format!("reported root {} canonical root {} ({} keys)", hex(&o.root), hex(&t.hash()), items.len())));
        }
        let pages: HashMap<Vec<u8>, (Vec<u8>, u64)> = o.pages.iter().map(|(id, data, el)| (id.clone(), (data.clone(), *el))).collect();
        if pages.len() != o.pages.len() {
            viol.push(("c02-pw-bucket".into(), "dup-page".into(), "the store lists a page id twice".into()));
        }
        for (id, (data, el)) in &pages {
            assert_eq!(data.len(), 4096);
            let raw = u64::from_le_bytes(data[ELIDED_OFF..ELIDED_OFF + 8].try_into().unwrap());
            if raw != *el {
                viol.push(("c02-pw-elided".into(), "bitfield".into(), format!("page {}: elided_children() {:x} != bytes at the documented offset {:x}", pid_s(id), el, raw)));
            }
            out.stats.max_page_depth = out.stats.max_page_depth.max(id.len());
        }
        out.stats.max_pages = out.stats.max_pages.max(pages.len());
        // (b) (c)
        let mut ck = Ck { pages: &pages, reach: BTreeSet::new(), reach_slots: HashMap::new(), viol: Vec::new(), nodes: 0, stale_bits: 0 };
        if let T::Int { .. } = t {
            if pages.contains_key(&Vec::new()) {
                ck.reach.insert(Vec::new());
                ck.page_nodes(&t, &mut Vec::new(), 1, 0);
            } else {
                ck.viol.push(("c02-pw-elided".into(), "root-page".into(), "the root is internal but the root page is not stored".into()));
            }
        }
        for id in pages.keys() {
            if !ck.reach.contains(id) {
                ck.viol.push(("c02-pw-elided".into(), "orphan".into(), format!("page {} is stored but the trie does not reach it (below a terminal or below an absent page)", pid_s(id))));
            }
        }
        out.stats.pages_checked += ck.reach.len();
        out.stats.nodes_checked += ck.nodes;
        out.stats.stale_elided_bits += ck.stale_bits;
        viol.append(&mut ck.viol);
        let reach_slots = ck.reach_slots;
        // (d) the rule, from the model's own history
        let mut needed = BTreeMap::new();
        needed_pages(&t, &mut Vec::new(), 1, 0, &mut needed);
        let mut pred: BTreeSet<Vec<u8>> = BTreeSet::new();
        for (id, n) in &needed {
            out.stats.max_needed_depth = out.stats.max_needed_depth.max(id.len());
            let keep = id.len() <= 1 || pred_stored.contains(id) || *n >= THRESHOLD;
            if keep {
                pred.insert(id.clone());
                if id.len() >= 2 && *n < THRESHOLD {
                    out.stats.kept_by_hysteresis += 1;
                }
            } else {
                out.stats.needed_elided += 1;
            }
            if id.len() >= 2 {
                if let Some(p) = prev_needed.get(id) {
                    if *p < THRESHOLD && *n >= THRESHOLD {
                        out.stats.cross_up += 1;
                    } else if *p >= THRESHOLD && *n < THRESHOLD {
                        out.stats.cross_down += 1;
                    }
                }
            }
        }
        for id in &pred {
            if !id.is_empty() && !pred.contains(&id[..id.len() - 1].to_vec()) {
                viol.push(("c02-pw-harness".into(), "rule".into(), format!("the predicted stored set is not closed upwards at page {}", pid_s(id))));
            }
        }
        let actual: BTreeSet<Vec<u8>> = pages.keys().cloned().collect();
        for id in pred.symmetric_difference(&actual) {
            let n = needed.get(id).copied();
            viol.push((
                "c02-pw-elision".into(),
                if actual.contains(id) { "stored-unexpectedly" } else { "absent-unexpectedly" }.into(),
                format!(
                    "page {} (depth {}): sub-trie leaves now {:?}, before {:?}, stored before the batch: {}, stored now: {}, the rule says stored: {}",
                    pid_s(id),
                    id.len(),
                    n,
                    prev_needed.get(id),
                    pred_stored.contains(id),
                    actual.contains(id),
                    pred.contains(id)
                ),
            ));
        }
        // bookkeeping of the reported pages
        let mut seen = BTreeSet::new();
        for u in &o.updates {
            if !seen.insert(u.page_id.clone()) {
                viol.push(("c02-pw-bucket".into(), "twice".into(), format!("page {} is reported twice in one batch", pid_s(&u.page_id))));
                continue;
            }
            let was = prev_pages.contains_key(&u.page_id);
            if was != u.was_stored {
                viol.push(("c02-pw-harness".into(), "was-stored".into(), format!("page {}: hook says stored before = {}, the previous snapshot says {}", pid_s(&u.page_id), u.was_stored, was)));
            }
            if u.cleared {
                out.stats.cleared += 1;
                if !was || u.fresh {
                    viol.push(("c02-pw-bucket".into(), "clear-absent".into(), format!("page {} is reported cleared but was not stored (fresh bucket: {}); bitbox would hit unreachable!()", pid_s(&u.page_id), u.fresh)));
                }
                continue;
            }
            if u.fresh {
                out.stats.fresh_pages += 1;
            }
            if u.fresh && was {
                viol.push(("c02-pw-bucket".into(), "fresh-over-stored".into(), format!("page {} is already stored but is reported with a fresh bucket (a second bucket would be allocated for the same page id)", pid_s(&u.page_id))));
            }
            if !u.fresh && !was {
                viol.push(("c02-pw-bucket".into(), "known-absent".into(), format!("page {} was not stored but is reported with a known bucket", pid_s(&u.page_id))));
            }
            // the diff: what WAL recovery would reproduce
            if let (Some(diff), Some((new, _))) = (u.diff, pages.get(&u.page_id)) {
                let lo = u64::from_le_bytes(diff[..8].try_into().unwrap());
                let hi = u64::from_le_bytes(diff[8..].try_into().unwrap());
                let flagged = |i: usize| if i < 64 { (lo >> i) & 1 == 1 } else { (hi >> (i - 64)) & 1 == 1 };
                let old = prev_pages.get(&u.page_id).map(|p| &p.0);
                for &idx in reach_slots.get(&u.page_id).map(|v| &v[..]).unwrap_or(&[]) {
                    out.stats.diff_slots_checked += 1;
                    let same = old.map_or(false, |o| o[idx * 32..idx * 32 + 32] == new[idx * 32..idx * 32 + 32]);
                    if !same && !flagged(idx) {
                        viol.push((
                            "c02-pw-diff".into(),
                            "unflagged".into(),
                            format!("page {} slot {}: the reachable node {} (was stored before: {}) but the slot is not flagged in the page diff {:016x}{:016x}", pid_s(&u.page_id), idx, if old.is_some() { "changed" } else { "is new" }, old.is_some(), hi, lo),
                        ));
                        break;
                    }
                }
            }
        }
        // a stored page that changed without being reported cannot happen through the hook (the
        // store only changes through reports); a reachable slot of an unreported page that is wrong
        // shows as c02-pw-node.
        if !viol.is_empty() {
            for v in viol.iter_mut() {
                v.2 = format!("batch {} ({} ops, {} keys after): {}", bi, batch.len(), model.len(), v.2);
            }
            out.viol = viol;
            out.failed_batch = Some(bi);
            return out;
        }
        pred_stored = pred;
        prev_needed = needed;
        prev_pages = pages;
    }
    out
}

pub fn run_item(item: &Item) -> Outcome {
    match item.hasher {
        's' => run_item_h::<Sha2Hasher>(item),
        'x' => run_item_h::<XxHasher>(item),
        _ => run_item_h::<Blake3Hasher>(item),
    }
}

// ------------------------------------------------------------------------------------------------
// generation

fn prefix_key(rng: &mut Rng, base: &Key, s: usize) -> Key {
    let mut k = rng.key();
    for i in 0..s.min(256) {
        set_bit(&mut k, i, get_bit(base, i));
    }
    k
}

/// key sharing exactly `s` bits with base
fn sibling_base(rng: &mut Rng, base: &Key, s: usize) -> Key {
    let mut k = prefix_key(rng, base, s);
    if s < 256 {
        set_bit(&mut k, s, !get_bit(base, s));
    }
    k
}

fn put_bits(k: &mut Key, from: usize, w: usize, v: u64) {
    for i in 0..w {
        if from + i < 256 {
            set_bit(k, from + i, (v >> (w - 1 - i)) & 1 == 1);
        }
    }
}

/// pool of distinct keys of one cluster
fn gen_pool(rng: &mut Rng, base: &Key, s: usize, kind: u64, m: usize, label: &mut String) -> Vec<Key> {
    let mut keys: Vec<Key> = Vec::new();
    match kind {
        // tight: s shared bits, then w enumerated bits, then one common tail
        0 | 1 => {
            let mut w = 5;
            while (1usize << w) < m + (m / 4) && w < 10 {
                w += 1;
            }
            let s = s.min(256 - w);
            let common = prefix_key(rng, base, s);
            let mut vals: Vec<u64> = (0..(1u64 << w)).collect();
            for i in (1..vals.len()).rev() {
                let j = rng.below(i as u64 + 1) as usize;
                vals.swap(i, j);
            }
            for v in vals.into_iter().take(m) {
                let mut k = if kind == 0 { common } else { prefix_key(rng, base, s) };
                put_bits(&mut k, s, w, v);
                keys.push(k);
            }
            *label += &format!(" tight{}(s={},w={},m={})", kind, s, w, m);
        }
        // spread: s shared bits, random below
        2 => {
            for _ in 0..m {
                keys.push(prefix_key(rng, base, s));
            }
            *label += &format!(" spread(s={},m={})", s, m);
        }
        // comb: key i shares s + i*step bits with base
        3 => {
            let step = rng.range(1, 9) as usize;
            keys.push(*base);
            let mut p = s;
            while keys.len() < m && p < 256 {
                keys.push(sibling_base(rng, base, p));
                p += step;
            }
            // fill up with keys close to the deep end
            let mut guard = 0;
            while keys.len() < m && guard < 4 * m {
                guard += 1;
                let q = rng.range(s as u64, 255) as usize;
                keys.push(sibling_base(rng, base, q));
            }
            *label += &format!(" comb(s={},step={},m={})", s, step, keys.len());
        }
        // last bits: keys differing only in the last w bits
        4 => {
            let mut w = 1;
            while (1usize << w) < m && w < 9 {
                w += 1;
            }
            let w = (w + rng.below(3) as usize).min(10);
            let s2 = 256 - w;
            let mut vals: Vec<u64> = (0..(1u64 << w)).collect();
            for i in (1..vals.len()).rev() {
                let j = rng.below(i as u64 + 1) as usize;
                vals.swap(i, j);
            }
            for v in vals.into_iter().take(m) {
                let mut k = *base;
                put_bits(&mut k, s2, w, v);
                keys.push(k);
            }
            *label += &format!(" lastbits(w={},m={})", w, keys.len());
        }
        // wide: many sibling child pages (up to 64) under one page, 2..4 keys each
        6 => {
            let gw = 6;
            let w = rng.range(1, 3) as usize;
            let s = (s / 6 * 6).min(256 - gw - w - 6);
            let common = prefix_key(rng, base, s);
            let per = rng.range(2, 4) as usize;
            let mut gids: Vec<u64> = (0..64).collect();
            for i in (1..gids.len()).rev() {
                let j = rng.below(i as u64 + 1) as usize;
                gids.swap(i, j);
            }
            'outer: for g in gids {
                for v in 0..per.min(1 << w) {
                    if keys.len() >= m {
                        break 'outer;
                    }
                    let mut k = common;
                    put_bits(&mut k, s, gw, g);
                    put_bits(&mut k, s + gw, w, v as u64);
                    keys.push(k);
                }
            }
            *label += &format!(" wide(s={},w={},per={},m={})", s, w, per, keys.len());
        }
        // two-level: g sibling groups under s shared bits, each tight
        _ => {
            let g = rng.range(2, 5) as usize;
            let gw = 6;
            let w = rng.range(3, 6) as usize;
            let s = s.min(256 - gw - w);
            let common = prefix_key(rng, base, s);
            let gids: Vec<u64> = (0..g).map(|_| rng.below(64)).collect();
            let mut i = 0;
            let mut guard = 0;
            while keys.len() < m && guard < 8 * m {
                guard += 1;
                let mut k = if rng.chance(1, 2) { common } else { prefix_key(rng, base, s) };
                put_bits(&mut k, s, gw, gids[i % g]);
                put_bits(&mut k, s + gw, w, rng.below(1 << w));
                i += 1;
                keys.push(k);
            }
            *label += &format!(" twolevel(s={},g={},w={},m={})", s, g, w, m);
        }
    }
    let mut seen = BTreeSet::new();
    keys.retain(|k| seen.insert(*k));
    keys
}

/// target sizes of a cluster over the batches
fn gen_traj(rng: &mut Rng, m: usize, nb: usize, label: &mut String) -> Vec<usize> {
    let th = THRESHOLD;
    let mut t = Vec::with_capacity(nb);
    let style = rng.below(10);
    *label += &format!("/t{}", style);
    match style {
        // one key at a time across the threshold
        0 => {
            let mut c = rng.range(16, 19) as usize;
            let mut dir = 1i64;
            for _ in 0..nb {
                t.push(c.min(m));
                if c >= th + rng.range(1, 3) as usize {
                    dir = -1;
                } else if c <= th - rng.range(1, 4) as usize {
                    dir = 1;
                }
                c = (c as i64 + dir) as usize;
            }
        }
        // jumps
        1 => {
            let js = [19usize, 21, 19, 0, 20, 19, 21, 0, 19, 20, 0, 40, 19, 1, 21, 2, 20, 0];
            let off = rng.below(js.len() as u64) as usize;
            for i in 0..nb {
                t.push(js[(off + i) % js.len()].min(m));
            }
        }
        // alternate full / empty (stale counters)
        2 => {
            let hi = [m, 21, 20, 19, 25][rng.below(5) as usize].min(m);
            let lo = [0usize, 0, 1, 2, 19][rng.below(5) as usize].min(m);
            for i in 0..nb {
                t.push(if i % 2 == 0 { hi } else { lo });
            }
        }
        // grow to full, then drain to the last leaf and beyond
        3 => {
            let mut c = m;
            t.push(c);
            for _ in 1..nb {
                c = match rng.below(4) {
                    0 => 1,
                    1 => c.saturating_sub(1),
                    2 => c / 2,
                    _ => {
                        if c <= 1 {
                            m
                        } else {
                            c.saturating_sub(rng.range(1, 5) as usize)
                        }
                    }
                };
                t.push(c);
            }
        }
        // random sizes
        4 => {
            for _ in 0..nb {
                t.push(rng.below(m as u64 + 1) as usize);
            }
        }
        // random near the threshold
        5 => {
            for _ in 0..nb {
                t.push((rng.range(17, 23) as usize).min(m));
            }
        }
        // constant (a neighbour that is not touched, or touched only by overwrites)
        6 => {
            let c = [m, 19, 20, 5, 2][rng.below(5) as usize].min(m);
            for _ in 0..nb {
                t.push(c);
            }
        }
        // alternate empty / full (the opposite phase of style 2: neighbouring clusters swap sides)
        8 => {
            let hi = [m, 21, 20, 19, 2][rng.below(5) as usize].min(m);
            for i in 0..nb {
                t.push(if i % 2 == 1 { hi } else { 0 });
            }
        }
        // untouched for a long time, then one change, then untouched again
        9 => {
            let c0 = [m, 19, 20, 21, 3][rng.below(5) as usize].min(m);
            let c1 = [0usize, 19, 20, 21, 1, m][rng.below(6) as usize].min(m);
            let at = rng.below(nb as u64) as usize;
            for i in 0..nb {
                t.push(if i < at { c0 } else { c1 });
            }
        }
        // slow growth from nothing
        _ => {
            let mut c = 0usize;
            for _ in 0..nb {
                c = (c + rng.range(0, 7) as usize).min(m);
                t.push(c);
                if c == m && rng.chance(1, 3) {
                    c = 0;
                }
            }
        }
    }
    t
}

struct Cluster {
    pool: Vec<Key>,
    present: Vec<usize>, // indices into pool, in insertion order
    traj: Vec<usize>,
    order: u64, // how keys are removed: 0 lifo, 1 fifo, 2 random
}

pub fn gen_item(rng: &mut Rng, thorough: bool) -> Item {
    let mut label = String::new();
    let hasher = match rng.below(10) {
        0 | 1 => 's',
        2 | 3 | 4 => 'x',
        _ => 'b',
    };
    let garbage = rng.below(5) as u8;
    let nb = if thorough { rng.range(3, 40) } else { rng.range(3, 24) } as usize;
    let nc = match rng.below(10) {
        0 | 1 | 2 => 1,
        3 | 4 | 5 => 2,
        6 | 7 => 3,
        8 => 4,
        _ => 5,
    };
    let mut clusters: Vec<Cluster> = Vec::new();
    let mut bases: Vec<(Key, usize)> = Vec::new();
    for ci in 0..nc {
        // the shared prefix: page boundaries, one off, anything
        let s = match rng.below(7) {
            6 => rng.range(0, 8) as usize,
            0 | 1 => 6 * rng.range(1, 41) as usize,
            2 => (6 * rng.range(1, 41) as usize + rng.range(0, 2) as usize).saturating_sub(1),
            3 => rng.range(0, 250) as usize,
            4 => 6 * rng.range(1, 6) as usize,
            _ => rng.range(236, 250) as usize,
        };
        let base = if ci > 0 && rng.chance(2, 3) {
            // a neighbour of an earlier cluster: sibling page, same page, nested below, above
            let (b, ps) = bases[rng.below(bases.len() as u64) as usize];
            let lo = ps.saturating_sub(13);
            let hi = (ps + 13).min(250);
            let shared = rng.range(lo as u64, hi as u64) as usize;
            sibling_base(rng, &b, shared)
        } else {
            match rng.below(12) {
                0 => [0u8; 32],
                1 => [0xff; 32],
                _ => rng.key(),
            }
        };
        let kind = rng.below(7);
        let m = match rng.below(6) {
            0 => rng.range(2, 8),
            1 | 2 => rng.range(21, 30),
            3 => rng.range(30, 70),
            4 => 64,
            _ => rng.range(18, 23),
        } as usize;
        label += &format!(" c{}:", ci);
        let pool = gen_pool(rng, &base, s, kind, m, &mut label);
        let m = pool.len();
        let traj = gen_traj(rng, m, nb, &mut label);
        bases.push((base, s));
        clusters.push(Cluster { pool, present: Vec::new(), traj, order: rng.below(3) });
    }
    // background keys
    let bg_m = match rng.below(5) {
        0 => 0,
        1 => rng.range(1, 3),
        2 => rng.range(10, 60),
        3 => {
            if thorough && rng.chance(1, 6) {
                rng.range(200, 1500)
            } else {
                rng.range(60, 200)
            }
        }
        _ => rng.range(3, 10),
    } as usize;
    if bg_m > 0 {
        label += " bg:";
        let base = rng.key();
        let pool = gen_pool(rng, &base, 0, 2, bg_m, &mut label);
        let traj = gen_traj(rng, pool.len(), nb, &mut label);
        clusters.push(Cluster { pool, present: Vec::new(), traj, order: 2 });
    }
    let p_over = [0u64, 5, 20][rng.below(3) as usize];
    let p_read = [0u64, 5, 25][rng.below(3) as usize];
    let p_delabs = [0u64, 5, 20][rng.below(3) as usize];
    let whole_clear = rng.chance(1, 4);
    let mut seedc = rng.range(2, 1 << 40);
    let mut batches = Vec::new();
    for bi in 0..nb {
        let mut b: BTreeMap<Key, Op> = BTreeMap::new();
        let clear_all = whole_clear && bi > 0 && rng.chance(1, 6);
        for c in clusters.iter_mut() {
            let target = if clear_all { 0 } else { c.traj[bi].min(c.pool.len()) };
            // removals
            while c.present.len() > target {
                let at = match c.order {
                    0 => c.present.len() - 1,
                    1 => 0,
                    _ => rng.below(c.present.len() as u64) as usize,
                };
                let i = c.present.remove(at);
                b.entry(c.pool[i]).or_insert(Op::Del);
            }
            // insertions
            if c.present.len() < target {
                let mut absent: Vec<usize> = (0..c.pool.len()).filter(|i| !c.present.contains(i)).collect();
                if c.order == 2 {
                    for i in (1..absent.len()).rev() {
                        let j = rng.below(i as u64 + 1) as usize;
                        absent.swap(i, j);
                    }
                }
                for i in absent {
                    if c.present.len() >= target {
                        break;
                    }
                    // a key deleted in this very batch stays deleted
                    if b.contains_key(&c.pool[i]) {
                        continue;
                    }
                    seedc += 1;
                    let sd = if rng.chance(1, 200) { rng.below(2) } else { seedc };
                    b.insert(c.pool[i], Op::Put(sd));
                    c.present.push(i);
                }
            }
            // noise
            for i in 0..c.pool.len() {
                let k = c.pool[i];
                if b.contains_key(&k) {
                    continue;
                }
                let here = c.present.contains(&i);
                if here && rng.chance(p_over, 400) {
                    seedc += 1;
                    b.insert(k, Op::Put(seedc));
                } else if rng.chance(p_read, 400) {
                    b.insert(k, Op::Read);
                } else if !here && rng.chance(p_delabs, 400) {
                    b.insert(k, Op::Del);
                }
            }
        }
        if rng.chance(1, 8) {
            // a stray key: absent read / delete / a put that stays
            let k = rng.key();
            let op = match rng.below(3) {
                0 => Op::Read,
                1 => Op::Del,
                _ => {
                    seedc += 1;
                    Op::Put(seedc)
                }
            };
            b.entry(k).or_insert(op);
        }
        batches.push(b.into_iter().collect::<Vec<_>>());
    }
    // refill after a complete wipe
    if rng.chance(1, 5) {
        let mut all: BTreeSet<Key> = BTreeSet::new();
        for b in &batches {
            for (k, _) in b {
                all.insert(*k);
            }
        }
        batches.push(all.iter().map(|k| (*k, Op::Del)).collect());
        let mut refill = Vec::new();
        for k in &all {
            if rng.chance(2, 3) {
                seedc += 1;
                refill.push((*k, Op::Put(seedc)));
            }
        }
        batches.push(refill);
        label += " wipe+refill";
    }
    Item { hasher, garbage, batches, label: format!("{} nb={}", label.trim(), nb) }
}

// ------------------------------------------------------------------------------------------------
// minimisation

fn same_sig(item: &Item, sig: &str) -> bool {
    let r = catch_unwind(AssertUnwindSafe(|| run_item(item)));
    match r {
        Ok(o) => o.viol.iter().any(|v| v.0 == sig),
        Err(_) => false,
    }
}

pub fn minimise(item: &Item, sig: &str, budget: usize) -> Item {
    let mut cur = item.clone();
    let mut tries = 0;
    // cut behind the failing batch
    if let Ok(o) = catch_unwind(AssertUnwindSafe(|| run_item(&cur))) {
        if let Some(fb) = o.failed_batch {
            cur.batches.truncate(fb + 1);
        }
    }
    // merge / drop whole batches
    let mut progress = true;
    while progress && tries < budget {
        progress = false;
        let mut i = 0;
        while i < cur.batches.len() && tries < budget {
            let mut cand = cur.clone();
            cand.batches.remove(i);
            tries += 1;
            if !cand.batches.is_empty() && same_sig(&cand, sig) {
                cur = cand;
                progress = true;
            } else {
                i += 1;
            }
        }
    }
    // drop keys everywhere (a key's whole history), then single ops
    let mut keys: BTreeSet<Key> = BTreeSet::new();
    for b in &cur.batches {
        for (k, _) in b {
            keys.insert(*k);
        }
    }
    let mut chunk = (keys.len() / 2).max(1);
    let mut keyv: Vec<Key> = keys.into_iter().collect();
    while tries < budget {
        let mut i = 0;
        let mut progress = false;
        while i < keyv.len() && tries < budget {
            let drop: BTreeSet<Key> = keyv[i..(i + chunk).min(keyv.len())].iter().cloned().collect();
            let mut cand = cur.clone();
            for b in cand.batches.iter_mut() {
                b.retain(|(k, _)| !drop.contains(k));
            }
            tries += 1;
            if same_sig(&cand, sig) {
                cur = cand;
                keyv.retain(|k| !drop.contains(k));
                progress = true;
            } else {
                i += chunk;
            }
        }
        if !progress {
            if chunk == 1 {
                break;
            }
            chunk = (chunk / 2).max(1);
        }
    }
    // single ops
    let mut bi = 0;
    while bi < cur.batches.len() && tries < budget {
        let mut oi = 0;
        while oi < cur.batches[bi].len() && tries < budget {
            let mut cand = cur.clone();
            cand.batches[bi].remove(oi);
            tries += 1;
            if same_sig(&cand, sig) {
                cur = cand;
            } else {
                oi += 1;
            }
        }
        bi += 1;
    }
    cur.batches.retain(|b| !b.is_empty());
    if !same_sig(&cur, sig) {
        return item.clone();
    }
    cur.label = format!("minimised from [{}]", item.label);
    cur
}

// ------------------------------------------------------------------------------------------------
// engine

fn write_item(dir: &str, prop: &str, seed: u64, idx: usize, item: &Item, sigs: &BTreeSet<String>, detail: &str) -> String {
    std::fs::create_dir_all(dir).ok();
    let path = format!("{}/{}-pw-seed{}-{}.pw", dir, prop, seed, idx);
    let txt = format!("# {} [{}]\n# {}\n{}\n", sigs.iter().cloned().collect::<Vec<_>>().join(" "), item.label.trim(), detail.replace('\n', " "), item.to_line());
    std::fs::write(&path, txt).ok();
    path
}

fn replay(file: &str) -> i32 {
    let txt = std::fs::read_to_string(file).expect("replay file");
    let line = txt.lines().find(|l| l.starts_with("pw1 ")).expect("pw item line");
    let item = Item::from_line(line);
    let out = run_item(&item);
    if out.viol.is_empty() {
        println!("replay ok: {} batches, {} ops, {} stored pages checked, {} node slots compared", out.stats.batches, out.stats.ops, out.stats.pages_checked, out.stats.nodes_checked);
        0
    } else {
        for (sig, kind, detail) in &out.viol {
            println!("replay violation sig={} kind={}: {}", sig, kind, detail);
        }
        1
    }
}

pub fn cmd_pw(kv: &HashMap<String, String>) -> i32 {
    assert_eq!(PAGE_ELISION_THRESHOLD as usize, THRESHOLD, "PAGE_ELISION_THRESHOLD differs from the documented 20");
    let thorough = kv.get("tier").map(|t| t == "thorough").unwrap_or(false);
    if let Some(f) = kv.get("replay") {
        return replay(f);
    }
    let prop = kv.get("prop").cloned().unwrap_or_else(|| "C02".into());
    let seed: u64 = kv.get("seed").and_then(|s| s.parse().ok()).unwrap_or(1);
    let n: usize = kv.get("n").and_then(|s| s.parse().ok()).unwrap_or(if thorough { 60000 } else { 4000 });
    let out_file = kv.get("out").cloned().expect("--out");
    let replay_dir = kv.get("replays").cloned().unwrap_or_else(|| format!("/verif/replays/{}", prop));
    let corpus_out = kv.get("corpus-out").cloned().unwrap_or_else(|| format!("/verif/corpus/{}/pw", prop));
    let threads: usize = kv.get("threads").and_then(|s| s.parse().ok()).unwrap_or(12);
    std::fs::create_dir_all(&replay_dir).ok();
    let t0 = std::time::Instant::now();
    // corpus items (one item line per file, sub-directory `pw` of --corpus) run first
    let mut corpus: Vec<(String, Item)> = Vec::new();
    if let Some(c) = kv.get("corpus") {
        if let Ok(rd) = std::fs::read_dir(format!("{}/pw", c)) {
            let mut files: Vec<_> = rd.filter_map(|e| e.ok()).map(|e| e.path()).filter(|p| p.extension().map_or(false, |e| e == "pw")).collect();
            files.sort();
            for f in files {
                if let Ok(txt) = std::fs::read_to_string(&f) {
                    if let Some(line) = txt.lines().find(|l| l.starts_with("pw1 ")) {
                        let mut it = Item::from_line(line);
                        it.label = format!("corpus {}", f.display());
                        corpus.push((f.display().to_string(), it));
                    }
                }
            }
        }
    }
    let n_corpus = corpus.len();
    let corpus = Arc::new(corpus);
    let mut rng = Rng::new(seed ^ 0x9A6E);
    let seeds: Arc<Vec<u64>> = Arc::new((0..n).map(|_| rng.next()).collect());
    let next = Arc::new(Mutex::new(0usize));
    let results: Arc<Mutex<Vec<(usize, Item, Outcome)>>> = Arc::new(Mutex::new(Vec::new()));
    let mut hs = Vec::new();
    for _ in 0..threads.min(n + n_corpus).max(1) {
        let (seeds, next, results, corpus) = (seeds.clone(), next.clone(), results.clone(), corpus.clone());
        hs.push(
            std::thread::Builder::new()
                .stack_size(64 << 20)
                .spawn(move || loop {
                    let i = {
                        let mut g = next.lock().unwrap();
                        let i = *g;
                        *g += 1;
                        i
                    };
                    if i >= corpus.len() + seeds.len() {
                        break;
                    }
                    let item = if i < corpus.len() { corpus[i].1.clone() } else { gen_item(&mut Rng::new(seeds[i - corpus.len()]), thorough) };
                    let r = catch_unwind(AssertUnwindSafe(|| run_item(&item)));
                    let o = match r {
                        Ok(o) => o,
                        Err(e) => Outcome { viol: vec![("c02-pw-harness".into(), "harness".into(), format!("harness panic: {}", panic_msg(e)))], stats: PwStats::default(), nontrivial: false, failed_batch: None },
                    };
                    results.lock().unwrap().push((i, item, o));
                })
                .unwrap(),
        );
    }
    for h in hs {
        h.join().unwrap();
    }
    let mut results = std::mem::take(&mut *results.lock().unwrap());
    results.sort_by_key(|r| r.0);
    let mut total = PwStats::default();
    let mut violations = Vec::new();
    let mut distinct = BTreeSet::new();
    let mut nontrivial = 0usize;
    let mut by_sig: BTreeMap<String, usize> = BTreeMap::new();
    let mut minimised = 0;
    for (i, item, o) in &results {
        total.merge(&o.stats);
        if o.nontrivial {
            nontrivial += 1;
            distinct.insert(crate::model::digest(item.to_line().as_bytes()));
        }
        if !o.viol.is_empty() {
            let sigs: BTreeSet<String> = o.viol.iter().map(|v| v.0.clone()).collect();
            // minimise the first few failing items of a run
            let first_sig = o.viol[0].0.clone();
            let (small, detail) = if minimised < 4 && first_sig != "c02-pw-harness" {
                minimised += 1;
                let s = minimise(item, &first_sig, 600);
                let d = run_item(&s).viol.iter().find(|v| v.0 == first_sig).map(|v| v.2.clone()).unwrap_or_default();
                (s, d)
            } else {
                (item.clone(), o.viol[0].2.clone())
            };
            let path = write_item(&replay_dir, &prop, seed, *i, &small, &sigs, &detail);
            if *i >= n_corpus && corpus_out != "-" && !sigs.contains("c02-pw-harness") {
                write_item(&corpus_out, &prop, seed, *i, &small, &sigs, &detail);
            }
            let mut seen = BTreeSet::new();
            for (sig, kind, detail) in &o.viol {
                *by_sig.entry(sig.clone()).or_default() += 1;
                if seen.insert(sig.clone()) && violations.len() < 60 {
                    violations.push(J::obj(vec![
                        ("replay", J::s(path.clone())),
                        ("sig", J::s(sig.clone())),
                        ("kind", J::s(kind.clone())),
                        ("detail", J::s(format!("{} [{}]", detail, item.label.trim()))),
                        ("ops", J::Int(small.n_ops() as i64)),
                    ]));
                }
            }
        }
    }
    let samples: Vec<J> = results
        .iter()
        .skip(n_corpus)
        .take(3)
        .map(|(_, it, _)| {
            let l = it.to_line();
            J::obj(vec![("label", J::s(it.label.trim())), ("batches", J::Int(it.batches.len() as i64)), ("ops", J::Int(it.n_ops() as i64)), ("line_prefix", J::s(l.chars().take(200).collect::<String>()))])
        })
        .collect();
    let j = J::obj(vec![
        ("engine", J::s("pw")),
        ("property", J::s(prop.clone())),
        ("evaluations", J::Int(results.len() as i64)),
        ("corpus_cases", J::Int(n_corpus as i64)),
        ("distinct_nontrivial", J::Int(distinct.len().min(nontrivial) as i64)),
        ("rule", J::s("one evaluation = one generated history (3-40 batches of puts / deletes / reads over 1-5 neighbouring key clusters + background keys) run through the real PageWalker / reconstruct_pages on an in-memory page store (hook H6); after every batch the root, every reachable slot of every stored page, the presence of every needed page against its parent's elided bit and the stored set predicted by the elision rule (from the model's own history) are compared with a canonical trie built by plain recursion; non-trivial = some batch changed the key set; distinct = distinct item line")),
        ("elision_rule", J::s("a page is needed iff the node above its two top slots is internal (>= 2 leaves below); a needed page is stored after a batch iff depth <= 1, or it was stored before the batch, or its sub-trie has >= 20 leaves; pages that are not needed are not stored (a stored page that becomes empty is cleared)")),
        ("violations_by_sig", J::Obj(by_sig.iter().map(|(k, v)| (k.clone(), J::Int(*v as i64))).collect())),
        ("stats", total.json()),
        ("samples", J::Arr(samples)),
        ("violations", J::Arr(violations.clone())),
        ("wall_s", J::Num(t0.elapsed().as_secs_f64())),
    ]);
    std::fs::write(&out_file, j.to_string()).unwrap();
    if violations.is_empty() {
        0
    } else {
        1
    }
}
