//! E-sys: drive the real `Nomt` API with a script of operations and compare every observable
//! with the extracted Coq specification (`Store`, `Trie`).

use crate::model::{eval_table, parse_proof, MTerminal, Model, Table};
use crate::util::{hex, key_from_hex, value_bytes, Key};
use bitvec::prelude::*;
use nomt::hasher::{Blake3Hasher, Sha2Hasher};
use nomt::proof::{self, PathProof, PathProofTerminal};
use nomt::trie::LeafData;
use nomt::{
    FinishedSession, HashAlgorithm, KeyReadWrite, Nomt, Options, Overlay, Session, SessionParams,
    Witness, WitnessMode,
};
use std::collections::{BTreeMap, BTreeSet, HashMap};
use std::panic::{catch_unwind, AssertUnwindSafe};
use std::path::PathBuf;

#[derive(Clone, Debug, PartialEq)]
pub struct Cfg {
    pub cc: usize,
    pub warm: bool,
    pub io: usize,
    pub pc: usize,
    pub lc: usize,
    pub ht: u32,
    pub seed: u64,
    pub rollback: bool,
    pub max_len: u32,
    pub prepop: bool,
    pub upper: usize,
    pub prealloc: bool,
    pub sha2: bool,
    /// 0 = none, 1 = PanicOnSyncMode::PostWal, 2 = PostMeta: every sync of this handle panics there
    pub panic: u8,
    /// rollback segment size override (hook H2); 0 = the default 64 MiB
    pub segsz: u64,
}

impl Default for Cfg {
    fn default() -> Self {
        Cfg {
            cc: 1,
            warm: false,
            io: 3,
            pc: 256,
            lc: 256,
            ht: 64000,
            seed: 7,
            rollback: false,
            max_len: 100,
            prepop: false,
            upper: 2,
            prealloc: false,
            sha2: false,
            panic: 0,
            segsz: 0,
        }
    }
}

impl Cfg {
    pub fn to_line(&self) -> String {
        let mut s = format!(
            "cc={} warm={} io={} pc={} lc={} ht={} seed={} rb={} ml={} prepop={} upper={} prealloc={} sha2={}",
            self.cc, self.warm as u8, self.io, self.pc, self.lc, self.ht, self.seed,
            self.rollback as u8, self.max_len, self.prepop as u8, self.upper, self.prealloc as u8,
            self.sha2 as u8
        );
        if self.panic != 0 {
            s += &format!(" panic={}", self.panic);
        }
        if self.segsz != 0 {
            s += &format!(" segsz={}", self.segsz);
        }
        s
    }
    pub fn parse(s: &str) -> Cfg {
        let mut c = Cfg::default();
        for kv in s.split(' ').filter(|x| !x.is_empty()) {
            let (k, v) = kv.split_once('=').expect("cfg k=v");
            match k {
                "cc" => c.cc = v.parse().unwrap(),
                "warm" => c.warm = v == "1",
                "io" => c.io = v.parse().unwrap(),
                "pc" => c.pc = v.parse().unwrap(),
                "lc" => c.lc = v.parse().unwrap(),
                "ht" => c.ht = v.parse().unwrap(),
                "seed" => c.seed = v.parse().unwrap(),
                "rb" => c.rollback = v == "1",
                "ml" => c.max_len = v.parse().unwrap(),
                "prepop" => c.prepop = v == "1",
                "upper" => c.upper = v.parse().unwrap(),
                "prealloc" => c.prealloc = v == "1",
                "sha2" => c.sha2 = v == "1",
                "panic" => c.panic = v.parse().unwrap(),
                "segsz" => c.segsz = v.parse().unwrap(),
                _ => panic!("cfg key {}", k),
            }
        }
        c
    }
    pub fn options(&self, path: &PathBuf) -> Options {
        let mut o = Options::new();
        o.path(path.clone());
        o.commit_concurrency(self.cc);
        o.warm_up(self.warm);
        o.io_workers(self.io);
        o.page_cache_size(self.pc);
        o.leaf_cache_size(self.lc);
        o.hashtable_buckets(self.ht);
        let mut seed = [0u8; 16];
        seed[..8].copy_from_slice(&self.seed.to_le_bytes());
        seed[8..].copy_from_slice(&self.seed.wrapping_mul(31).to_le_bytes());
        o.bitbox_seed(seed);
        o.rollback(self.rollback);
        o.max_rollback_log_len(self.max_len);
        o.prepopulate_page_cache(self.prepop);
        o.page_cache_upper_levels(self.upper);
        o.preallocate_ht(self.prealloc);
        // thread-local: the rollback log opened next on this thread uses this segment size
        nomt::verif_api::set_rollback_segment_size(if self.segsz == 0 { None } else { Some(self.segsz) });
        match self.panic {
            1 => o.panic_on_sync(nomt::PanicOnSyncMode::PostWal),
            2 => o.panic_on_sync(nomt::PanicOnSyncMode::PostMeta),
            _ => {}
        }
        o
    }
}

pub type ValDesc = (usize, u64); // (length, seed) -> util::value_bytes

#[derive(Clone, Debug, PartialEq)]
pub enum Acc {
    Read,
    Write(Option<ValDesc>),
    ReadWrite(Option<ValDesc>),
}

#[derive(Clone, Debug, PartialEq)]
pub enum Op {
    Open(Cfg),
    Close,
    /// close the handle but keep the finished sessions and overlays (they do not borrow it)
    CloseKeep,
    Begin { s: u32, chain: Vec<u32>, witness: bool },
    SRead { s: u32, key: Key },
    SProve { s: u32, key: Key },
    SWarm { s: u32, key: Key },
    SPreserve { s: u32, key: Key },
    Finish { s: u32, c: u32, batch: Vec<(Key, Acc)> },
    DropS { s: u32 },
    Overlay { c: u32 },
    Commit { c: u32, nb: bool },
    DropC { c: u32 },
    Rollback(usize),
    Read(Key),
    CheckAll { proofs: usize },
    Arm,    // E-io: start counting I/O events (observer loaded with LD_PRELOAD)
    Disarm, // E-io: stop counting
}

fn acc_str(a: &Acc) -> String {
    let v = |d: &Option<ValDesc>| match d {
        None => "d".to_string(),
        Some((l, s)) => format!("w{}.{}", l, s),
    };
    match a {
        Acc::Read => "r".into(),
        Acc::Write(d) => v(d),
        Acc::ReadWrite(d) => format!("R{}", v(d)),
    }
}

fn parse_acc(s: &str) -> Acc {
    let pv = |s: &str| -> Option<ValDesc> {
        if s == "d" {
            None
        } else {
            let (l, sd) = s[1..].split_once('.').unwrap();
            Some((l.parse().unwrap(), sd.parse().unwrap()))
        }
    };
    if s == "r" {
        Acc::Read
    } else if let Some(rest) = s.strip_prefix('R') {
        Acc::ReadWrite(pv(rest))
    } else {
        Acc::Write(pv(s))
    }
}

impl Op {
    pub fn to_line(&self) -> String {
        let ids = |v: &Vec<u32>| v.iter().map(|x| x.to_string()).collect::<Vec<_>>().join(",");
        match self {
            Op::Open(c) => format!("open {}", c.to_line()),
            Op::Close => "close".into(),
            Op::CloseKeep => "closekeep".into(),
            Op::Begin { s, chain, witness } => format!("begin {} [{}] {}", s, ids(chain), *witness as u8),
            Op::SRead { s, key } => format!("sread {} {}", s, hex(key)),
            Op::SProve { s, key } => format!("sprove {} {}", s, hex(key)),
            Op::SWarm { s, key } => format!("swarm {} {}", s, hex(key)),
            Op::SPreserve { s, key } => format!("spreserve {} {}", s, hex(key)),
            Op::Finish { s, c, batch } => format!(
                "finish {} {} {}",
                s,
                c,
                batch.iter().map(|(k, a)| format!("{}:{}", hex(k), acc_str(a))).collect::<Vec<_>>().join(" ")
            ),
            Op::DropS { s } => format!("drops {}", s),
            Op::Overlay { c } => format!("overlay {}", c),
            Op::Commit { c, nb } => format!("commit {} {}", c, if *nb { "nb" } else { "b" }),
            Op::DropC { c } => format!("dropc {}", c),
            Op::Rollback(n) => format!("rollback {}", n),
            Op::Read(k) => format!("read {}", hex(k)),
            Op::CheckAll { proofs } => format!("checkall {}", proofs),
            Op::Arm => "arm".into(),
            Op::Disarm => "disarm".into(),
        }
    }
    pub fn parse(line: &str) -> Op {
        let (cmd, rest) = line.split_once(' ').unwrap_or((line, ""));
        let t: Vec<&str> = rest.split(' ').filter(|x| !x.is_empty()).collect();
        let ids = |s: &str| -> Vec<u32> {
            let s = s.trim_start_matches('[').trim_end_matches(']');
            if s.is_empty() { vec![] } else { s.split(',').map(|x| x.parse().unwrap()).collect() }
        };
        match cmd {
            "open" => Op::Open(Cfg::parse(rest)),
            "close" => Op::Close,
            "closekeep" => Op::CloseKeep,
            "begin" => Op::Begin { s: t[0].parse().unwrap(), chain: ids(t[1]), witness: t[2] == "1" },
            "sread" => Op::SRead { s: t[0].parse().unwrap(), key: key_from_hex(t[1]) },
            "sprove" => Op::SProve { s: t[0].parse().unwrap(), key: key_from_hex(t[1]) },
            "swarm" => Op::SWarm { s: t[0].parse().unwrap(), key: key_from_hex(t[1]) },
            "spreserve" => Op::SPreserve { s: t[0].parse().unwrap(), key: key_from_hex(t[1]) },
            "finish" => Op::Finish {
                s: t[0].parse().unwrap(),
                c: t[1].parse().unwrap(),
                batch: t[2..]
                    .iter()
                    .map(|e| {
                        let (k, a) = e.split_once(':').unwrap();
                        (key_from_hex(k), parse_acc(a))
                    })
                    .collect(),
            },
            "drops" => Op::DropS { s: t[0].parse().unwrap() },
            "overlay" => Op::Overlay { c: t[0].parse().unwrap() },
            "commit" => Op::Commit { c: t[0].parse().unwrap(), nb: t[1] == "nb" },
            "dropc" => Op::DropC { c: t[0].parse().unwrap() },
            "rollback" => Op::Rollback(t[0].parse().unwrap()),
            "read" => Op::Read(key_from_hex(t[0])),
            "checkall" => Op::CheckAll { proofs: t[0].parse().unwrap() },
            "arm" => Op::Arm,
            "disarm" => Op::Disarm,
            _ => panic!("bad op line {:?}", line),
        }
    }
}

pub fn script_to_text(ops: &[Op]) -> String {
    ops.iter().map(|o| o.to_line()).collect::<Vec<_>>().join("\n") + "\n"
}

pub fn script_from_text(s: &str) -> Vec<Op> {
    s.lines().filter(|l| !l.trim().is_empty() && !l.starts_with('#')).map(Op::parse).collect()
}

/// which comparisons are armed (each check arms what its property speaks about)
#[derive(Clone, Copy, Debug, Default)]
pub struct Mask {
    pub reads: bool,
    pub roots: bool,
    pub proofs: bool,
    pub witness: bool,
    pub results: bool, // commit / rollback / chain acceptance outcomes
    pub seqn: bool,
    pub open: bool,
    pub util: bool, // hash table occupancy across reopen
}

impl Mask {
    pub fn all() -> Mask {
        Mask { reads: true, roots: true, proofs: true, witness: true, results: true, seqn: true, open: true, util: true }
    }
}

#[derive(Clone, Debug)]
pub struct Mismatch {
    pub kind: &'static str,
    pub op_index: usize,
    pub detail: String,
}

#[derive(Default, Clone, Debug)]
pub struct Stats {
    pub ops: usize,
    pub commits: usize,
    pub reads: usize,
    pub proofs: usize,
    pub roots: usize,
    pub witnesses: usize,
    pub witness_paths: usize,
    pub rollbacks: usize,
    pub reopens: usize,
    pub rejected: usize,
    pub deferred: usize,
    pub refused_chains: usize,
    pub stale_chains: usize,
    pub cross_handle_commits: usize,
    pub lock_retries: usize,
    pub max_keys: usize,
    pub value_len_classes: BTreeMap<&'static str, usize>,
    pub proof_term_depths: BTreeSet<usize>,
    pub elided_crossings: usize,
}

impl Stats {
    pub fn merge(&mut self, o: &Stats) {
        self.ops += o.ops;
        self.commits += o.commits;
        self.reads += o.reads;
        self.proofs += o.proofs;
        self.roots += o.roots;
        self.witnesses += o.witnesses;
        self.witness_paths += o.witness_paths;
        self.rollbacks += o.rollbacks;
        self.reopens += o.reopens;
        self.rejected += o.rejected;
        self.deferred += o.deferred;
        self.refused_chains += o.refused_chains;
        self.stale_chains += o.stale_chains;
        self.cross_handle_commits += o.cross_handle_commits;
        self.lock_retries += o.lock_retries;
        self.max_keys = self.max_keys.max(o.max_keys);
        for (k, v) in &o.value_len_classes {
            *self.value_len_classes.entry(k).or_default() += v;
        }
        self.proof_term_depths.extend(o.proof_term_depths.iter().copied());
    }
}

pub fn len_class(l: usize) -> &'static str {
    match l {
        0 => "0",
        1..=32 => "1-32",
        33..=1331 => "33-1331",
        1332 => "1332",
        1333..=4092 => "1333-4092",
        4093..=61380 => "4093-15pages",
        61381..=65536 => "15pages-64KiB",
        _ => ">64KiB",
    }
}

#[derive(Clone, Debug, PartialEq)]
enum ViewTag {
    None,
    Cur,
    Session(Vec<u32>),
    Cset(u32),
}

pub struct Runner<H: HashAlgorithm> {
    pub dir: PathBuf,
    pub cfg: Option<Cfg>,
    pub db: Option<Nomt<H>>,
    sessions: HashMap<u32, (Session<H>, Vec<u32>, bool)>,
    finished: HashMap<u32, FinishedSession>,
    overlays: HashMap<u32, Overlay>,
    /// change sets kept across a `closekeep`: id -> number of applied commits/rollbacks when prepared
    foreign: HashMap<u32, u64>,
    prep_at: HashMap<u32, u64>,
    applied: u64,
    pub model: Model,
    vals: HashMap<[u8; 32], u32>,
    descs: Vec<ValDesc>,
    vhashes: HashMap<u32, [u8; 32]>,
    pub touched: BTreeSet<Key>,
    pub mask: Mask,
    pub stats: Stats,
    view: ViewTag,
    table: Option<Table>,
    opened_once: bool,
    last_util: Option<(usize, usize)>,
    pub keep_dir: bool,
    _h: std::marker::PhantomData<H>,
}

type R = Result<(), Mismatch>;

fn guarded<T>(f: impl FnOnce() -> T) -> Result<T, String> {
    catch_unwind(AssertUnwindSafe(f)).map_err(|e| {
        if let Some(s) = e.downcast_ref::<String>() {
            s.clone()
        } else if let Some(s) = e.downcast_ref::<&str>() {
            s.to_string()
        } else {
            "panic".to_string()
        }
    })
}

impl<H: HashAlgorithm> Runner<H> {
    pub fn new(tag: &str, mask: Mask) -> Self {
        Runner {
            dir: crate::util::fresh_dir(tag),
            cfg: None,
            db: None,
            sessions: HashMap::new(),
            finished: HashMap::new(),
            overlays: HashMap::new(),
            foreign: HashMap::new(),
            prep_at: HashMap::new(),
            applied: 0,
            model: Model::spawn(),
            vals: HashMap::new(),
            descs: Vec::new(),
            vhashes: HashMap::new(),
            touched: BTreeSet::new(),
            mask,
            stats: Stats::default(),
            view: ViewTag::None,
            table: None,
            opened_once: false,
            last_util: None,
            keep_dir: false,
            _h: std::marker::PhantomData,
        }
    }

    fn intern(&mut self, d: ValDesc) -> (u32, Vec<u8>) {
        let bytes = value_bytes(d.0, d.1);
        let dg = crate::model::digest(&bytes);
        if let Some(id) = self.vals.get(&dg) {
            return (*id, bytes);
        }
        self.descs.push(d);
        let id = self.descs.len() as u32;
        self.vals.insert(dg, id);
        self.vhashes.insert(id, H::hash_value(&bytes));
        *self.stats.value_len_classes.entry(len_class(d.0)).or_default() += 1;
        (id, bytes)
    }

    fn vid_of_bytes(&self, b: &[u8]) -> Option<u32> {
        self.vals.get(&crate::model::digest(b)).copied()
    }

    fn invalidate(&mut self) {
        self.view = ViewTag::None;
        self.table = None;
    }

    fn set_view(&mut self, v: ViewTag) {
        if self.view == v {
            return;
        }
        match &v {
            ViewTag::Cur => self.model.expect_ok("viewcur"),
            ViewTag::Cset(c) => self.model.expect_ok(&format!("viewcset {}", c)),
            ViewTag::Session(chain) => {
                let r = self.model.ask(&format!(
                    "session {}",
                    chain.iter().map(|x| x.to_string()).collect::<Vec<_>>().join(" ")
                ));
                assert!(r.starts_with("ok"), "model refused a chain the run accepted earlier: {}", r);
            }
            ViewTag::None => {}
        }
        self.view = v;
        self.table = None;
    }

    fn ensure_table(&mut self) {
        if self.table.is_none() {
            let lines = self.model.ask_multi("table");
            let vh = &self.vhashes;
            let t = eval_table::<H>(&lines, &|vid| vh[&vid]);
            self.stats.max_keys = self.stats.max_keys.max(t.leaves);
            self.table = Some(t);
        }
    }

    fn model_get(&mut self, key: &Key) -> Option<u32> {
        let r = self.model.ask(&format!("get {}", hex(key)));
        if r == "none" {
            None
        } else {
            Some(r[5..].parse().unwrap())
        }
    }

    fn mm(&self, kind: &'static str, i: usize, detail: String) -> Mismatch {
        Mismatch { kind, op_index: i, detail }
    }

    fn cmp_value(&mut self, i: usize, what: &str, key: &Key, got: &Option<Vec<u8>>) -> R {
        let exp = self.model_get(key);
        let got_id = match got {
            None => None,
            Some(b) => Some(self.vid_of_bytes(b).unwrap_or(u32::MAX)),
        };
        self.stats.reads += 1;
        if self.mask.reads && exp != got_id {
            return Err(self.mm(
                "read",
                i,
                format!(
                    "{} key {}: model value id {:?} (len {:?}), implementation returned {:?} (len {:?})",
                    what,
                    hex(key),
                    exp,
                    exp.map(|e| self.descs[e as usize - 1].0),
                    got_id,
                    got.as_ref().map(|b| b.len())
                ),
            ));
        }
        Ok(())
    }

    fn cmp_root(&mut self, i: usize, what: &str, got: [u8; 32]) -> R {
        self.ensure_table();
        self.stats.roots += 1;
        let exp = self.table.as_ref().unwrap().root;
        if self.mask.roots && exp != got {
            return Err(self.mm(
                "root",
                i,
                format!("{}: canonical root {} but implementation reports {}", what, hex(&exp), hex(&got)),
            ));
        }
        Ok(())
    }

    fn cmp_proof(&mut self, i: usize, key: &Key, p: &PathProof, root: [u8; 32]) -> R {
        self.ensure_table();
        let r = self.model.ask(&format!("prove {}", hex(key)));
        let (term, ids) = parse_proof(&r);
        self.stats.proofs += 1;
        self.stats.proof_term_depths.insert(ids.len());
        if !self.mask.proofs {
            return Ok(());
        }
        let t = self.table.as_ref().unwrap();
        let exp_sibs: Vec<[u8; 32]> = ids.iter().map(|id| t.nodes[id]).collect();
        if exp_sibs != p.siblings {
            return Err(self.mm(
                "proof",
                i,
                format!(
                    "proof for {}: {} canonical siblings, implementation gave {} (first difference at depth {:?})",
                    hex(key),
                    exp_sibs.len(),
                    p.siblings.len(),
                    exp_sibs.iter().zip(p.siblings.iter()).position(|(a, b)| a != b)
                ),
            ));
        }
        let ok = match (&term, &p.terminal) {
            (MTerminal::Leaf(k, vid), PathProofTerminal::Leaf(ld)) => {
                &ld.key_path == k && ld.value_hash == self.vhashes[vid]
            }
            (MTerminal::Term(d), PathProofTerminal::Terminator(pos)) => {
                pos.depth() as usize == *d && pos.path() == &key.view_bits::<Msb0>()[..*d]
            }
            _ => false,
        };
        if !ok {
            return Err(self.mm(
                "proof",
                i,
                format!("proof for {}: terminal differs: model {:?}, implementation {:?}", hex(key), term, p.terminal),
            ));
        }
        // the property's own wording: it verifies and confirms the view
        let exp_val = self.model_get(key);
        let verified = match p.verify::<H>(key.view_bits::<Msb0>(), root) {
            Ok(v) => v,
            Err(e) => {
                return Err(self.mm("proof", i, format!("proof for {} does not verify: {:?}", hex(key), e)))
            }
        };
        let confirmed = match exp_val {
            None => verified.confirm_nonexistence(key).ok() == Some(true),
            Some(vid) => {
                verified
                    .confirm_value(&LeafData { key_path: *key, value_hash: self.vhashes[&vid] })
                    .ok()
                    == Some(true)
            }
        };
        if !confirmed {
            return Err(self.mm("proof", i, format!("proof for {} verifies but does not confirm the view", hex(key))));
        }
        Ok(())
    }

    fn check_witness(
        &mut self,
        i: usize,
        w: &Witness,
        prev_root: [u8; 32],
        new_root: [u8; 32],
        batch: &[(Key, Acc)],
    ) -> R {
        self.stats.witnesses += 1;
        self.stats.witness_paths += w.path_proofs.len();
        if !self.mask.witness {
            return Ok(());
        }
        let mut verified = Vec::new();
        for (pi, wp) in w.path_proofs.iter().enumerate() {
            match wp.inner.verify::<H>(wp.path.path(), prev_root) {
                Ok(v) => verified.push(v),
                Err(e) => {
                    return Err(self.mm("witness", i, format!("witness path {} does not verify against the previous root: {:?}", pi, e)))
                }
            }
        }
        // reads: exactly the read keys, each confirmed with the value the view holds
        let exp_reads: BTreeSet<Key> =
            batch.iter().filter(|(_, a)| !matches!(a, Acc::Write(_))).map(|(k, _)| *k).collect();
        let exp_writes: BTreeMap<Key, Option<u32>> = batch
            .iter()
            .filter_map(|(k, a)| match a {
                Acc::Read => None,
                Acc::Write(d) | Acc::ReadWrite(d) => Some((*k, d.map(|d| self.intern(d).0))),
            })
            .collect();
        let got_reads: BTreeSet<Key> = w.operations.reads.iter().map(|r| r.key).collect();
        if got_reads != exp_reads || w.operations.reads.len() != exp_reads.len() {
            return Err(self.mm("witness", i, format!("witness attests {} reads, batch has {} read keys", w.operations.reads.len(), exp_reads.len())));
        }
        for r in &w.operations.reads {
            let exp = self.model_get(&r.key);
            let exp_h = exp.map(|v| self.vhashes[&v]);
            if r.value != exp_h {
                return Err(self.mm("witness", i, format!("witnessed read of {} attests a value hash different from the session's view", hex(&r.key))));
            }
            let Some(vp) = verified.get(r.path_index) else {
                return Err(self.mm("witness", i, format!("read path_index {} out of range", r.path_index)));
            };
            let ok = match r.value {
                None => vp.confirm_nonexistence(&r.key).ok() == Some(true),
                Some(vh) => vp.confirm_value(&LeafData { key_path: r.key, value_hash: vh }).ok() == Some(true),
            };
            if !ok {
                return Err(self.mm("witness", i, format!("witnessed read of {} is not confirmed by the path its path_index {} names", hex(&r.key), r.path_index)));
            }
        }
        let got_writes: BTreeMap<Key, Option<[u8; 32]>> = w.operations.writes.iter().map(|x| (x.key, x.value)).collect();
        if got_writes.len() != exp_writes.len() || w.operations.writes.len() != exp_writes.len() {
            return Err(self.mm("witness", i, format!("witness covers {} writes, batch has {}", w.operations.writes.len(), exp_writes.len())));
        }
        for (k, v) in &exp_writes {
            let eh = v.map(|v| self.vhashes[&v]);
            if got_writes.get(k) != Some(&eh) {
                return Err(self.mm("witness", i, format!("written key {} missing from the witness or with a wrong value hash", hex(k))));
            }
        }
        // group writes by path, verify the update
        let mut by_path: BTreeMap<usize, Vec<(Key, Option<[u8; 32]>)>> = BTreeMap::new();
        for x in &w.operations.writes {
            by_path.entry(x.path_index).or_default().push((x.key, x.value));
        }
        let mut updates = Vec::new();
        for (pi, mut ops) in by_path {
            let Some(vp) = verified.get(pi) else {
                return Err(self.mm("witness", i, format!("write path_index {} out of range", pi)));
            };
            ops.sort();
            updates.push(proof::PathUpdate { inner: vp.clone(), ops });
        }
        updates.sort_by(|a, b| a.inner.path().cmp(b.inner.path()));
        match guarded(|| proof::verify_update::<H>(prev_root, &updates)) {
            Ok(Ok(r)) if r == new_root => Ok(()),
            Ok(Ok(r)) => Err(self.mm("witness", i, format!("verify_update over the witnessed writes gives {} but the session reports root {}", hex(&r), hex(&new_root)))),
            Ok(Err(e)) => Err(self.mm("witness", i, format!("verify_update over the witnessed writes fails: {:?}", e))),
            Err(p) => Err(self.mm("witness", i, format!("verify_update panicked: {}", p))),
        }
    }

    fn light_check(&mut self, i: usize, what: &str) -> R {
        let Some(db) = self.db.as_ref() else { return Ok(()) };
        let root = db.root().into_inner();
        let seq = db.sync_seqn();
        self.set_view(ViewTag::Cur);
        self.cmp_root(i, what, root)?;
        let ms: u32 = self.model.ask("seqn").parse().unwrap();
        if self.mask.seqn && ms != seq {
            return Err(self.mm("seqn", i, format!("{}: sync sequence number {} but the model has {}", what, seq, ms)));
        }
        Ok(())
    }

    pub fn step(&mut self, i: usize, op: &Op) -> R {
        self.stats.ops += 1;
        match op {
            Op::Arm | Op::Disarm => Ok(()),
            Op::Open(cfg) => {
                assert!(self.db.is_none(), "script: open while open");
                // A handle's background threads may release the directory lock shortly after the
                // handle is dropped; that is C20's business, so here a refused lock is retried.
                let mut r = guarded(|| Nomt::<H>::open(cfg.options(&self.dir)));
                let mut tries = 0;
                while let Ok(Err(e)) = &r {
                    if tries >= 200 || !(format!("{:#}", e).contains("lock") || crate::util::dir_lock_busy(&self.dir)) {
                        break;
                    }
                    tries += 1;
                    self.stats.lock_retries += 1;
                    std::thread::sleep(std::time::Duration::from_millis(10));
                    r = guarded(|| Nomt::<H>::open(cfg.options(&self.dir)));
                }
                let db = match r {
                    Ok(Ok(db)) => db,
                    Ok(Err(e)) => {
                        return if self.mask.open {
                            Err(self.mm("open", i, format!("open failed: {:#}", e)))
                        } else {
                            Err(self.mm("skip", i, format!("open failed: {:#}", e)))
                        }
                    }
                    Err(p) => return Err(self.mm(if self.mask.open { "open" } else { "skip" }, i, format!("open panicked: {}", p))),
                };
                if !self.opened_once {
                    self.model.expect_ok(&format!("init {}", if cfg.rollback { cfg.max_len as i64 } else { -1 }));
                    self.opened_once = true;
                } else {
                    self.model.expect_ok("reopen");
                    self.stats.reopens += 1;
                }
                self.invalidate();
                let u = db.hash_table_utilization();
                if let Some(prev) = self.last_util {
                    if self.mask.util && prev.0 != u.occupied {
                        return Err(self.mm("util", i, format!("hash table occupancy {} before close, {} after reopen", prev.0, u.occupied)));
                    }
                }
                self.db = Some(db);
                self.cfg = Some(cfg.clone());
                self.light_check(i, "after open")
            }
            Op::Close => {
                self.sessions.clear();
                self.finished.clear();
                self.overlays.clear();
                self.foreign.clear();
                if let Some(db) = self.db.take() {
                    let u = db.hash_table_utilization();
                    self.last_util = Some((u.occupied, u.capacity));
                    drop(db);
                }
                Ok(())
            }
            Op::CloseKeep => {
                self.sessions.clear();
                for c in self.finished.keys().chain(self.overlays.keys()) {
                    let at = self.prep_at.get(c).copied().unwrap_or(0);
                    self.foreign.entry(*c).or_insert(at);
                }
                if let Some(db) = self.db.take() {
                    let u = db.hash_table_utilization();
                    self.last_util = Some((u.occupied, u.capacity));
                    drop(db);
                }
                Ok(())
            }
            Op::Begin { chain, .. } if chain.iter().any(|c| !self.overlays.contains_key(c) || self.foreign.contains_key(c)) => Ok(()),
            Op::Begin { s, chain, witness } => {
                let r = self.model.ask(&format!(
                    "session {}",
                    chain.iter().map(|x| x.to_string()).collect::<Vec<_>>().join(" ")
                ));
                self.view = ViewTag::None;
                self.table = None;
                let refs: Vec<&Overlay> = chain.iter().map(|c| self.overlays.get(c).expect("script: chain overlay not held")).collect();
                let params = SessionParams::default()
                    .witness_mode(if *witness { WitnessMode::read_write() } else { WitnessMode::disabled() })
                    .overlay(refs);
                let stale = r.starts_with("stale");
                match (r.starts_with("ok") || stale, params) {
                    (true, Ok(_)) if stale => {
                        // the chain sits on an abandoned fork: nothing is specified about it
                        self.stats.stale_chains += 1;
                        Ok(())
                    }
                    (true, Ok(p)) => {
                        let matched: Vec<u32> = r[2..].split(' ').filter(|x| !x.is_empty()).map(|x| x.parse().unwrap()).collect();
                        let db = self.db.as_ref().expect("script: begin while closed");
                        let sess = db.begin_session(p);
                        self.view = ViewTag::Session(matched.clone());
                        self.sessions.insert(*s, (sess, matched, *witness));
                        Ok(())
                    }
                    (false, Err(e)) => {
                        self.stats.refused_chains += 1;
                        let want = if r == "notancestor" { "NotAncestor" } else { "Incomplete" };
                        if self.mask.results && format!("{:?}", e) != want {
                            return Err(self.mm("chain", i, format!("chain {:?}: model refuses with {}, implementation with {:?}", chain, want, e)));
                        }
                        Ok(())
                    }
                    (true, Err(e)) => {
                        if self.mask.results {
                            Err(self.mm("chain", i, format!("chain {:?}: valid in the model, refused by the implementation ({:?})", chain, e)))
                        } else {
                            Err(self.mm("skip", i, "chain disagreement".into()))
                        }
                    }
                    (false, Ok(_)) => {
                        if self.mask.results {
                            Err(self.mm("chain", i, format!("chain {:?}: model refuses ({}), implementation accepts", chain, r)))
                        } else {
                            Err(self.mm("skip", i, "chain disagreement".into()))
                        }
                    }
                }
            }
            Op::SRead { s, .. } | Op::SProve { s, .. } | Op::SWarm { s, .. } | Op::SPreserve { s, .. } | Op::Finish { s, .. }
                if !self.sessions.contains_key(s) =>
            {
                Ok(())
            }
            Op::Overlay { c } if !self.finished.contains_key(c) || self.foreign.contains_key(c) => Ok(()),
            Op::Commit { c, .. } if !self.finished.contains_key(c) && !self.overlays.contains_key(c) => Ok(()),
            Op::DropC { c } if !self.finished.contains_key(c) && !self.overlays.contains_key(c) => Ok(()),
            Op::SRead { s, key } => {
                let chain = self.sessions[s].1.clone();
                self.set_view(ViewTag::Session(chain));
                self.touched.insert(*key);
                let got = guarded(|| self.sessions[s].0.read(*key));
                match got {
                    Ok(Ok(v)) => self.cmp_value(i, "session read", key, &v),
                    Ok(Err(e)) => Err(self.mm("read", i, format!("session read failed: {:#}", e))),
                    Err(p) => Err(self.mm("panic", i, format!("session read panicked: {}", p))),
                }
            }
            Op::SProve { s, key } => {
                let chain = self.sessions[s].1.clone();
                self.set_view(ViewTag::Session(chain));
                let root = self.sessions[s].0.prev_root().into_inner();
                let got = guarded(|| self.sessions[s].0.prove(*key));
                match got {
                    Ok(Ok(p)) => {
                        self.cmp_root(i, "session base root", root)?;
                        self.cmp_proof(i, key, &p, root)
                    }
                    Ok(Err(e)) => Err(self.mm("proof", i, format!("prove failed: {:#}", e))),
                    Err(p) => Err(self.mm("panic", i, format!("prove panicked: {}", p))),
                }
            }
            Op::SWarm { s, key } => {
                self.sessions[s].0.warm_up(*key);
                Ok(())
            }
            Op::SPreserve { s, key } => {
                self.sessions[s].0.preserve_prior_value(*key);
                Ok(())
            }
            Op::Finish { s, c, batch } => {
                let (sess, chain, witness) = self.sessions.remove(s).expect("script: finish unknown session");
                self.set_view(ViewTag::Session(chain.clone()));
                let prev_root = sess.prev_root().into_inner();
                let mut actuals = Vec::new();
                let mut entries = Vec::new();
                for (k, a) in batch {
                    self.touched.insert(*k);
                    match a {
                        Acc::Read => {
                            let v = sess.read(*k).map_err(|e| self.mm("read", i, format!("read failed: {:#}", e)))?;
                            actuals.push((*k, KeyReadWrite::Read(v)));
                            entries.push(format!("{}:r", hex(k)));
                        }
                        Acc::Write(d) => {
                            let v = d.map(|d| self.intern(d));
                            entries.push(match &v { None => format!("{}:d", hex(k)), Some((id, _)) => format!("{}:w{}", hex(k), id) });
                            actuals.push((*k, KeyReadWrite::Write(v.map(|x| x.1))));
                        }
                        Acc::ReadWrite(d) => {
                            let prior = sess.read(*k).map_err(|e| self.mm("read", i, format!("read failed: {:#}", e)))?;
                            let v = d.map(|d| self.intern(d));
                            entries.push(match &v { None => format!("{}:d", hex(k)), Some((id, _)) => format!("{}:w{}", hex(k), id) });
                            actuals.push((*k, KeyReadWrite::ReadThenWrite(prior, v.map(|x| x.1))));
                        }
                    }
                }
                let fin = guarded(move || sess.finish(actuals));
                let mut fs = match fin {
                    Ok(Ok(f)) => f,
                    Ok(Err(e)) => return Err(self.mm("finish", i, format!("finish failed: {:#}", e))),
                    Err(p) => return Err(self.mm("panic", i, format!("finish panicked: {}", p))),
                };
                if witness {
                    let w = fs.take_witness().expect("witness requested");
                    // view is still the session's base here
                    self.check_witness(i, &w, prev_root, fs.root().into_inner(), batch)?;
                }
                self.model.expect_ok(&format!(
                    "finish {} {} -- {}",
                    c,
                    chain.iter().map(|x| x.to_string()).collect::<Vec<_>>().join(" "),
                    entries.join(" ")
                ));
                self.set_view(ViewTag::Cset(*c));
                let r = fs.root().into_inner();
                self.finished.insert(*c, fs);
                self.prep_at.insert(*c, self.applied);
                self.cmp_root(i, "finished session root", r)
            }
            Op::DropS { s } => {
                self.sessions.remove(s);
                Ok(())
            }
            Op::Overlay { c } => {
                let fs = self.finished.remove(c).expect("script: overlay of unknown finished session");
                let o = fs.into_overlay();
                self.model.expect_ok(&format!("overlay {}", c));
                self.set_view(ViewTag::Cset(*c));
                let r = o.root().into_inner();
                self.overlays.insert(*c, o);
                self.cmp_root(i, "overlay root", r)
            }
            Op::Commit { c, .. } if self.foreign.get(c) == Some(&self.applied) || (self.foreign.contains_key(c) && !self.sessions.is_empty()) => {
                // kept across a close, but nothing was applied since it was prepared (its base IS
                // the current state), or a session is alive (hand-back comes first): nothing is
                // specified about the outcome; the change set is dropped uncommitted
                self.finished.remove(c);
                self.overlays.remove(c);
                self.foreign.remove(c);
                Ok(())
            }
            Op::Commit { c, nb } => {
                let foreign_at = self.foreign.remove(c);
                let busy = *nb && !self.sessions.is_empty();
                assert!(*nb || self.sessions.is_empty(), "script: blocking commit with a live session would deadlock");
                let db = self.db.as_ref().expect("script: commit while closed");
                // outcome classes: ok / err / deferred
                let got: Result<&'static str, String>;
                if let Some(fs) = self.finished.remove(c) {
                    if *nb {
                        match guarded(|| fs.try_commit_nonblocking(db)) {
                            Ok(Ok(None)) => got = Ok("ok"),
                            Ok(Ok(Some(back))) => {
                                self.finished.insert(*c, back);
                                got = Ok("deferred")
                            }
                            Ok(Err(_)) => got = Ok("err"),
                            Err(p) => got = Err(p),
                        }
                    } else {
                        match guarded(|| fs.commit(db)) {
                            Ok(Ok(())) => got = Ok("ok"),
                            Ok(Err(_)) => got = Ok("err"),
                            Err(p) => got = Err(p),
                        }
                    }
                } else if let Some(o) = self.overlays.remove(c) {
                    if *nb {
                        match guarded(|| o.try_commit_nonblocking(db)) {
                            Ok(Ok(None)) => got = Ok("ok"),
                            Ok(Ok(Some(back))) => {
                                self.overlays.insert(*c, back);
                                got = Ok("deferred")
                            }
                            Ok(Err(_)) => got = Ok("err"),
                            Err(p) => got = Err(p),
                        }
                    } else {
                        match guarded(|| o.commit(db)) {
                            Ok(Ok(())) => got = Ok("ok"),
                            Ok(Err(_)) => got = Ok("err"),
                            Err(p) => got = Err(p),
                        }
                    }
                } else {
                    panic!("script: commit of unknown changeset {}", c);
                }
                let crash_mode = self.cfg.as_ref().map(|c| c.panic).unwrap_or(0);
                if crash_mode != 0 {
                    // a handle opened with panic_on_sync: the commit "crashes" inside sync, before
                    // (PostWal) or after (PostMeta) the manifest is durable; the handle is dropped
                    // and the script must reopen the directory (recovery) next
                    match &got {
                        Err(p) if p.contains("panic_on_sync") => {}
                        other => return Err(self.mm("skip", i, format!("crash commit: expected the panic_on_sync panic, got {:?}", other))),
                    }
                    if crash_mode == 2 {
                        let m = self.model.ask(&format!("commit {} 0", c));
                        if m != "ok" {
                            return Err(self.mm("skip", i, format!("crash commit: model says {}", m)));
                        }
                        self.stats.commits += 1;
                        self.applied += 1;
                    } else {
                        self.model.expect_ok(&format!("drop {}", c));
                    }
                    self.invalidate();
                    self.sessions.clear();
                    self.finished.clear();
                    self.overlays.clear();
                    self.last_util = None;
                    drop(self.db.take());
                    return Ok(());
                }
                let m = self.model.ask(&format!("commit {} {}", c, busy as u8));
                self.invalidate();
                let got = match got {
                    Ok(g) => g,
                    Err(p) => return Err(self.mm("panic", i, format!("commit panicked: {}", p))),
                };
                let mclass = match m.as_str() {
                    "ok" => "ok",
                    "stale" | "parent" => "err",
                    "deferred" => "deferred",
                    // a change set kept across `closekeep`: the specification's reopen forgets every
                    // change set, so it is not a change set of this handle; the state moved since
                    // it was prepared (checked above), so its base is no longer the current state
                    "unknown" if foreign_at.is_some() => {
                        self.stats.cross_handle_commits += 1;
                        "err"
                    }
                    _ => panic!("script: model says {} for commit {}", m, c),
                };
                match mclass {
                    "ok" => {
                        self.stats.commits += 1;
                        self.applied += 1;
                    }
                    "err" => self.stats.rejected += 1,
                    _ => self.stats.deferred += 1,
                }
                if got != mclass {
                    return if self.mask.results {
                        Err(self.mm("commit", i, format!("commit of changeset {}: model outcome {} ({}), implementation outcome {}", c, mclass, m, got)))
                    } else {
                        Err(self.mm("skip", i, "commit outcome disagreement".into()))
                    };
                }
                self.light_check(i, "after commit")
            }
            Op::DropC { c } => {
                self.finished.remove(c);
                self.overlays.remove(c);
                self.model.expect_ok(&format!("drop {}", c));
                self.invalidate();
                Ok(())
            }
            Op::Rollback(n) => {
                assert!(self.sessions.is_empty(), "script: rollback with a live session would deadlock");
                let db = self.db.as_ref().expect("script: rollback while closed");
                let got = guarded(|| db.rollback(*n));
                let m = self.model.ask(&format!("rollback {}", n));
                self.invalidate();
                self.stats.rollbacks += 1;
                let got = match got {
                    Ok(Ok(())) => "ok",
                    Ok(Err(e)) => {
                        if std::env::var("VERIF_DEBUG").is_ok() {
                            eprintln!("rollback({}) failed: {:#}", n, e);
                        }
                        "err"
                    }
                    Err(p) => return Err(self.mm("panic", i, format!("rollback panicked: {}", p))),
                };
                if got != m {
                    return if self.mask.results {
                        Err(self.mm("rollback", i, format!("rollback({}): model {}, implementation {}", n, m, got)))
                    } else {
                        Err(self.mm("skip", i, "rollback outcome disagreement".into()))
                    };
                }
                if got == "ok" && *n > 0 {
                    self.applied += 1;
                }
                self.light_check(i, "after rollback")
            }
            Op::Read(key) => {
                self.set_view(ViewTag::Cur);
                self.touched.insert(*key);
                let db = self.db.as_ref().expect("script: read while closed");
                match guarded(|| db.read(*key)) {
                    Ok(Ok(v)) => self.cmp_value(i, "read", key, &v),
                    Ok(Err(e)) => Err(self.mm("read", i, format!("read failed: {:#}", e))),
                    Err(p) => Err(self.mm("panic", i, format!("read panicked: {}", p))),
                }
            }
            Op::CheckAll { proofs } => {
                self.light_check(i, "checkall")?;
                let keys: Vec<Key> = self.touched.iter().copied().collect();
                self.set_view(ViewTag::Cur);
                for k in &keys {
                    let db = self.db.as_ref().unwrap();
                    match guarded(|| db.read(*k)) {
                        Ok(Ok(v)) => self.cmp_value(i, "read", k, &v)?,
                        Ok(Err(e)) => return Err(self.mm("read", i, format!("read failed: {:#}", e))),
                        Err(p) => return Err(self.mm("panic", i, format!("read panicked: {}", p))),
                    }
                }
                if *proofs > 0 && self.sessions.is_empty() {
                    let db = self.db.as_ref().unwrap();
                    let sess = db.begin_session(SessionParams::default());
                    let root = sess.prev_root().into_inner();
                    let step = (keys.len() / proofs).max(1);
                    for k in keys.iter().step_by(step) {
                        // through a session begun afterwards
                        match guarded(|| sess.read(*k)) {
                            Ok(Ok(v)) => self.cmp_value(i, "read through a later session", k, &v)?,
                            Ok(Err(e)) => return Err(self.mm("read", i, format!("read failed: {:#}", e))),
                            Err(p) => return Err(self.mm("panic", i, format!("read panicked: {}", p))),
                        }
                        match guarded(|| sess.prove(*k)) {
                            Ok(Ok(p)) => self.cmp_proof(i, k, &p, root)?,
                            Ok(Err(e)) => return Err(self.mm("proof", i, format!("prove failed: {:#}", e))),
                            Err(p) => return Err(self.mm("panic", i, format!("prove panicked: {}", p))),
                        }
                    }
                }
                Ok(())
            }
        }
    }

    pub fn vhashes_snapshot(&self) -> HashMap<u32, [u8; 32]> {
        self.vhashes.clone()
    }

    pub fn vals_snapshot(&self) -> HashMap<[u8; 32], u32> {
        self.vals.clone()
    }

    /// Drive only the model through simple session/commit/rollback ops (no implementation calls).
    /// Read priors are irrelevant to the model. Used by E-io to compute the expected states.
    pub fn model_only(&mut self, ops: &[Op]) {
        let mut chains: HashMap<u32, Vec<u32>> = HashMap::new();
        for op in ops {
            match op {
                Op::Begin { s, chain, .. } => {
                    let r = self.model.ask(&format!("session {}", chain.iter().map(|x| x.to_string()).collect::<Vec<_>>().join(" ")));
                    assert!(r.starts_with("ok"), "model_only: chain refused: {}", r);
                    chains.insert(*s, r[2..].split(' ').filter(|x| !x.is_empty()).map(|x| x.parse().unwrap()).collect());
                }
                Op::Finish { s, c, batch } => {
                    let chain = chains.remove(s).unwrap_or_default();
                    let mut entries = Vec::new();
                    for (k, a) in batch {
                        self.touched.insert(*k);
                        match a {
                            Acc::Read => entries.push(format!("{}:r", hex(k))),
                            Acc::Write(d) | Acc::ReadWrite(d) => match d {
                                None => entries.push(format!("{}:d", hex(k))),
                                Some(d) => {
                                    let id = self.intern(*d).0;
                                    entries.push(format!("{}:w{}", hex(k), id))
                                }
                            },
                        }
                    }
                    self.model.expect_ok(&format!("finish {} {} -- {}", c, chain.iter().map(|x| x.to_string()).collect::<Vec<_>>().join(" "), entries.join(" ")));
                }
                Op::Overlay { c } => self.model.expect_ok(&format!("overlay {}", c)),
                Op::Commit { c, .. } => {
                    let r = self.model.ask(&format!("commit {} 0", c));
                    assert!(r == "ok", "model_only: commit {}", r);
                }
                Op::Rollback(n) => {
                    let _ = self.model.ask(&format!("rollback {}", n));
                }
                _ => {}
            }
        }
        self.invalidate();
    }

    pub fn run(&mut self, ops: &[Op]) -> R {
        for (i, op) in ops.iter().enumerate() {
            self.step(i, op)?;
        }
        Ok(())
    }
}

impl<H: HashAlgorithm> Drop for Runner<H> {
    fn drop(&mut self) {
        self.sessions.clear();
        self.finished.clear();
        self.overlays.clear();
        self.db.take();
        if !self.keep_dir {
            let _ = std::fs::remove_dir_all(&self.dir);
        }
    }
}

/// Run a script under the hasher its first `open` selects.
pub fn run_script(tag: &str, ops: &[Op], mask: Mask) -> (Result<(), Mismatch>, Stats) {
    let sha2 = ops.iter().find_map(|o| if let Op::Open(c) = o { Some(c.sha2) } else { None }).unwrap_or(false);
    if sha2 {
        let mut r = Runner::<Sha2Hasher>::new(tag, mask);
        let res = r.run(ops);
        (res, r.stats.clone())
    } else {
        let mut r = Runner::<Blake3Hasher>::new(tag, mask);
        let res = r.run(ops);
        (res, r.stats.clone())
    }
}
