//! Minimal JSON writer (no external crates).
#[derive(Clone, Debug)]
pub enum J {
    Null,
    Bool(bool),
    Int(i64),
    Num(f64),
    Str(String),
    Arr(Vec<J>),
    Obj(Vec<(String, J)>),
}

pub fn esc(s: &str) -> String {
    let mut o = String::with_capacity(s.len() + 2);
    o.push('"');
    for c in s.chars() {
        match c {
            '"' => o.push_str("\\\""),
            '\\' => o.push_str("\\\\"),
            '\n' => o.push_str("\\n"),
            '\r' => o.push_str("\\r"),
            '\t' => o.push_str("\\t"),
            c if (c as u32) < 0x20 => o.push_str(&format!("\\u{:04x}", c as u32)),
            c => o.push(c),
        }
    }
    o.push('"');
    o
}

impl J {
    pub fn s(x: impl Into<String>) -> J {
        J::Str(x.into())
    }
    pub fn obj(v: Vec<(&str, J)>) -> J {
        J::Obj(v.into_iter().map(|(k, v)| (k.to_string(), v)).collect())
    }
    pub fn to_string(&self) -> String {
        match self {
            J::Null => "null".into(),
            J::Bool(b) => b.to_string(),
            J::Int(i) => i.to_string(),
            J::Num(f) => format!("{:.3}", f),
            J::Str(s) => esc(s),
            J::Arr(v) => format!("[{}]", v.iter().map(|x| x.to_string()).collect::<Vec<_>>().join(",")),
            J::Obj(v) => format!(
                "{{{}}}",
                v.iter().map(|(k, x)| format!("{}:{}", esc(k), x.to_string())).collect::<Vec<_>>().join(",")
            ),
        }
    }
}
