//! PRNG, hex and key helpers. Every random choice of the harness derives from one `Rng`.

pub type Key = [u8; 32];

#[derive(Clone)]
pub struct Rng(pub u64);

impl Rng {
    pub fn new(seed: u64) -> Self {
        Rng(seed ^ 0x9E37_79B9_7F4A_7C15)
    }
    pub fn next(&mut self) -> u64 {
        // splitmix64
        self.0 = self.0.wrapping_add(0x9E37_79B9_7F4A_7C15);
        let mut z = self.0;
        z = (z ^ (z >> 30)).wrapping_mul(0xBF58_476D_1CE4_E5B9);
        z = (z ^ (z >> 27)).wrapping_mul(0x94D0_49BB_1331_11EB);
        z ^ (z >> 31)
    }
    pub fn below(&mut self, n: u64) -> u64 {
        if n == 0 {
            0
        } else {
            self.next() % n
        }
    }
    pub fn range(&mut self, lo: u64, hi: u64) -> u64 {
        lo + self.below(hi - lo + 1)
    }
    pub fn chance(&mut self, num: u64, den: u64) -> bool {
        self.below(den) < num
    }
    pub fn pick<'a, T>(&mut self, xs: &'a [T]) -> &'a T {
        &xs[self.below(xs.len() as u64) as usize]
    }
    pub fn key(&mut self) -> Key {
        let mut k = [0u8; 32];
        for c in k.chunks_mut(8) {
            c.copy_from_slice(&self.next().to_le_bytes());
        }
        k
    }
    pub fn fork(&mut self) -> Rng {
        Rng::new(self.next())
    }
}

pub fn hex(b: &[u8]) -> String {
    let mut s = String::with_capacity(b.len() * 2);
    for x in b {
        s.push_str(&format!("{:02x}", x));
    }
    s
}

pub fn unhex(s: &str) -> Vec<u8> {
    (0..s.len() / 2)
        .map(|i| u8::from_str_radix(&s[2 * i..2 * i + 2], 16).expect("hex"))
        .collect()
}

pub fn key_from_hex(s: &str) -> Key {
    let v = unhex(s);
    let mut k = [0u8; 32];
    k.copy_from_slice(&v);
    k
}

pub fn get_bit(k: &Key, i: usize) -> bool {
    (k[i / 8] >> (7 - (i % 8))) & 1 == 1
}

pub fn set_bit(k: &mut Key, i: usize, b: bool) {
    if b {
        k[i / 8] |= 1 << (7 - (i % 8));
    } else {
        k[i / 8] &= !(1 << (7 - (i % 8)));
    }
}

pub fn flip_bit(k: &mut Key, i: usize) {
    k[i / 8] ^= 1 << (7 - (i % 8));
}

/// key sharing exactly the first `n` bits with `base` (differs at bit n), random afterwards
pub fn diverge_at(rng: &mut Rng, base: &Key, n: usize) -> Key {
    let mut k = rng.key();
    for i in 0..n.min(256) {
        set_bit(&mut k, i, get_bit(base, i));
    }
    if n < 256 {
        set_bit(&mut k, n, !get_bit(base, n));
    }
    k
}

/// deterministic value bytes from a descriptor
pub fn value_bytes(len: usize, seed: u64) -> Vec<u8> {
    let mut r = Rng::new(seed.wrapping_mul(0x1000_0000_01B3) ^ len as u64);
    let mut v = Vec::with_capacity(len + 8);
    while v.len() < len {
        v.extend_from_slice(&r.next().to_le_bytes());
    }
    v.truncate(len);
    v
}

pub fn scratch_root() -> std::path::PathBuf {
    if let Ok(p) = std::env::var("VERIF_SCRATCH") {
        return p.into();
    }
    let shm = std::path::Path::new("/dev/shm");
    if shm.is_dir() {
        return shm.join("nomt-verif");
    }
    "/verif/.cache/scratch".into()
}

pub fn fresh_dir(tag: &str) -> std::path::PathBuf {
    use std::sync::atomic::{AtomicU64, Ordering};
    static CTR: AtomicU64 = AtomicU64::new(0);
    let n = CTR.fetch_add(1, Ordering::Relaxed);
    let p = scratch_root().join(format!("{}-{}-{}", tag, std::process::id(), n));
    let _ = std::fs::remove_dir_all(&p);
    std::fs::create_dir_all(p.parent().unwrap()).expect("scratch root");
    p
}

/// Is the directory lock of a NOMT directory held by some open file description right now?  (asked of
/// the kernel, not read off an error message: a refused `Nomt::open` is retried only when this says yes)
pub fn dir_lock_busy(dir: &std::path::Path) -> bool {
    use std::os::unix::io::AsRawFd;
    let Ok(f) = std::fs::OpenOptions::new().read(true).write(true).open(dir.join(".lock")) else { return false };
    let fd = f.as_raw_fd();
    let r = unsafe { libc::flock(fd, libc::LOCK_EX | libc::LOCK_NB) };
    if r == 0 {
        unsafe { libc::flock(fd, libc::LOCK_UN) };
        false
    } else {
        true
    }
}
