//! Per-property scenario generators for the E-sys engine.

use crate::gen::*;
use crate::sys::{Acc, Cfg, Mask, Op};
use crate::util::{diverge_at, Key, Rng};

pub struct Scenario {
    pub ops: Vec<Op>,
    pub label: String,
}

pub fn mask_for(prop: &str) -> Mask {
    if std::env::var("VERIF_MASK_ALL").is_ok() {
        return Mask::all();
    }
    let mut m = Mask::default();
    match prop {
        "C01" => m.reads = true,
        "C02" => m.roots = true,
        "C05" => m.proofs = true,
        "C06" => m.witness = true,
        "C09" => {
            m.reads = true;
            m.roots = true;
            m.results = true;
            m.open = true;
        }
        "C10" => {
            m.reads = true;
            m.roots = true;
            m.proofs = true;
            m.seqn = true;
            m.util = true;
            m.results = true;
            m.open = true;
        }
        "C11" => {
            m.reads = true;
            m.roots = true;
            m.proofs = true;
            m.results = true;
        }
        "C12" => {
            m.reads = true;
            m.roots = true;
            m.results = true;
            m.seqn = true;
            m.proofs = true;
        }
        "C13" => {
            m.reads = true;
            m.roots = true;
            m.proofs = true;
            m.witness = true;
        }
        // corpus histories of C14 / C15 (operations that used to hang or that exhaust the table): only
        // "it returns" and "it does not panic" are judged, the outcome classes belong to other engines
        "C14" | "C15" => {}
        _ => m = Mask::all(),
    }
    m
}

struct Ids {
    s: u32,
    c: u32,
}
impl Ids {
    fn new() -> Self {
        Ids { s: 0, c: 0 }
    }
    fn s(&mut self) -> u32 {
        self.s += 1;
        self.s
    }
    fn c(&mut self) -> u32 {
        self.c += 1;
        self.c
    }
}

fn absent_probes(rng: &mut Rng, live: &Live, n: usize) -> Vec<Key> {
    let mut out = Vec::new();
    for _ in 0..n {
        if let Some(k) = live.pick_live(rng) {
            let d = KeyGen::prefix_len(rng);
            out.push(diverge_at(rng, &k, d));
        } else {
            out.push(rng.key());
        }
    }
    out
}

pub fn c01(rng: &mut Rng, thorough: bool) -> Scenario {
    let mut ops = Vec::new();
    let mut ids = Ids::new();
    let mut kg = KeyGen::new(rng);
    let mut live = Live::default();
    let mut cfg = gen_cfg(rng);
    cfg.rollback = false;
    ops.push(Op::Open(cfg.clone()));
    let commits = rng.range(3, if thorough { 14 } else { 7 });
    let big = thorough && rng.chance(1, 6);
    for _ in 0..commits {
        let spec = BatchSpec {
            size: if big { rng.range(500, 3000) as usize } else { rng.range(1, 120) as usize },
            mix: if big { ValueMix::Mixed } else if rng.chance(2, 3) { ValueMix::Boundary } else { ValueMix::Mixed },
            p_delete: 25,
            p_read: 10,
            p_rw: 30,
            p_existing: 45,
        };
        let batch = gen_batch(rng, &mut kg, &live, &spec);
        live.apply(&batch);
        ops.extend(commit_ops(ids.s(), ids.c(), batch, false));
        for k in absent_probes(rng, &live, 3) {
            ops.push(Op::Read(k));
        }
        ops.push(Op::CheckAll { proofs: if rng.chance(1, 3) { 8 } else { 0 } });
    }
    Scenario { ops, label: format!("c01 commits={} cc={}", commits, cfg.cc) }
}

/// branch nodes with a long shared separator prefix followed by separators that do not share it
/// (prefix compression stops inside the node: an "uncompressed tail"), then sparse updates that
/// leave kept separators after updated ones inside such tails
pub fn c01_prefix_tail(rng: &mut Rng, thorough: bool) -> Scenario {
    let mut ops = Vec::new();
    let mut ids = Ids::new();
    let mut live = Live::default();
    let mut cfg = gen_cfg(rng);
    cfg.rollback = false;
    cfg.ht = 64000;
    ops.push(Op::Open(cfg.clone()));
    let plen = rng.range(12, 26) as usize; // bytes shared by the cluster
    let base = rng.key();
    let n1 = rng.range(300, if thorough { 900 } else { 650 }) as usize;
    let n2 = rng.range(300, if thorough { 1200 } else { 950 }) as usize;
    let vlen = |rng: &mut Rng| rng.range(600, 1300) as usize;
    let mut clustered: Vec<Key> = Vec::new();
    for i in 0..n1 {
        let mut k = rng.key();
        k[..plen].copy_from_slice(&base[..plen]);
        k[plen] = (i >> 8) as u8;
        k[plen + 1] = (i & 0xff) as u8;
        clustered.push(k);
    }
    // the other keys lie above or below the cluster, whichever side has room
    let above = base[0] < 0x80;
    let mut scattered: Vec<Key> = Vec::new();
    for j in 0..n2 {
        let mut k = rng.key();
        k[0] = if above { 0x80 | (j >> 8) as u8 } else { (j >> 8) as u8 & 0x3f };
        k[1] = (j & 0xff) as u8;
        if !above && k[..plen] >= base[..plen] {
            continue;
        }
        scattered.push(k);
    }
    let mut b: Vec<(Key, Acc)> = clustered.iter().chain(scattered.iter()).map(|k| (*k, Acc::Write(Some((vlen(rng), rng.next() % 1_000_000))))).collect();
    b.sort_by(|a, b| a.0.cmp(&b.0));
    b.dedup_by(|a, b| a.0 == b.0);
    live.apply(&b);
    ops.extend(commit_ops(ids.s(), ids.c(), b, false));
    ops.push(Op::CheckAll { proofs: 2 });
    let rounds = rng.range(3, if thorough { 12 } else { 6 });
    for _ in 0..rounds {
        // sparse: one to a dozen keys, mostly from one of the two families
        let fam = if rng.chance(2, 3) { &scattered } else { &clustered };
        let cnt = *rng.pick(&[1usize, 1, 2, 3, 5, 12]);
        let mut b: Vec<(Key, Acc)> = Vec::new();
        for _ in 0..cnt {
            let k = fam[rng.below(fam.len() as u64) as usize];
            let acc = match rng.below(4) {
                0 => Acc::Write(None),
                1 => Acc::ReadWrite(Some((vlen(rng), rng.next() % 1_000_000))),
                _ => Acc::Write(Some((vlen(rng), rng.next() % 1_000_000))),
            };
            b.push((k, acc));
        }
        // and sometimes a new key next to an old one
        if rng.chance(1, 3) {
            let mut k = fam[rng.below(fam.len() as u64) as usize];
            k[31] ^= 1;
            b.push((k, Acc::Write(Some((vlen(rng), 7)))));
        }
        b.sort_by(|a, b| a.0.cmp(&b.0));
        b.dedup_by(|a, b| a.0 == b.0);
        live.apply(&b);
        ops.extend(commit_ops(ids.s(), ids.c(), b, false));
        ops.push(Op::CheckAll { proofs: 2 });
    }
    Scenario { ops, label: format!("c01tail plen={} n1={} n2={} cc={}", plen, n1, n2, cfg.cc) }
}

/// several clusters of counter keys with different shared prefix lengths (branch nodes with and
/// without prefix compression, long and short separators), then contiguous range deletions, sparse
/// overwrites and whole new clusters: branch splits, merges and separator changes
pub fn c01_clusters(rng: &mut Rng, thorough: bool) -> Scenario {
    let mut ops = Vec::new();
    let mut ids = Ids::new();
    let mut live = Live::default();
    let mut cfg = gen_cfg(rng);
    cfg.rollback = false;
    cfg.ht = 64000;
    ops.push(Op::Open(cfg.clone()));
    let small_vals = rng.chance(1, 3);
    let vlen = |rng: &mut Rng| if small_vals { rng.range(0, 60) as usize } else { rng.range(150, 1330) as usize };
    let mk_cluster = |rng: &mut Rng| -> Vec<Key> {
        let plen = rng.range(1, 29) as usize;
        let base = rng.key();
        let n = rng.range(60, if thorough { 700 } else { 350 }) as usize;
        let step = *rng.pick(&[1usize, 1, 3, 257]);
        (0..n)
            .map(|i| {
                let mut k = if rng.chance(1, 2) { [0u8; 32] } else { rng.key() };
                k[..plen].copy_from_slice(&base[..plen]);
                let c = i * step;
                k[plen] = (c >> 16) as u8;
                k[plen + 1] = (c >> 8) as u8;
                k[plen + 2] = c as u8;
                k
            })
            .collect()
    };
    let mut clusters: Vec<Vec<Key>> = (0..rng.range(2, 5)).map(|_| mk_cluster(rng)).collect();
    let mut b: Vec<(Key, Acc)> = clusters.iter().flatten().map(|k| (*k, Acc::Write(Some((vlen(rng), rng.next() % 1_000_000))))).collect();
    b.sort_by(|a, b| a.0.cmp(&b.0));
    b.dedup_by(|a, b| a.0 == b.0);
    live.apply(&b);
    ops.extend(commit_ops(ids.s(), ids.c(), b, false));
    ops.push(Op::CheckAll { proofs: 2 });
    let rounds = rng.range(3, if thorough { 10 } else { 6 });
    for _ in 0..rounds {
        let mut b: Vec<(Key, Acc)> = Vec::new();
        match rng.below(4) {
            0 => {
                // delete a contiguous range of one cluster
                let c = &clusters[rng.below(clusters.len() as u64) as usize];
                let mut sorted = c.clone();
                sorted.sort();
                let a = rng.below(sorted.len() as u64) as usize;
                let z = (a + rng.range(1, sorted.len() as u64) as usize).min(sorted.len());
                b.extend(sorted[a..z].iter().map(|k| (*k, Acc::Write(None))));
            }
            1 => {
                // sparse overwrites everywhere
                for c in &clusters {
                    for k in c.iter() {
                        if rng.chance(1, 40) {
                            b.push((*k, Acc::Write(Some((vlen(rng), rng.next() % 1_000_000)))));
                        }
                    }
                }
            }
            2 => {
                // a new cluster
                let c = mk_cluster(rng);
                b.extend(c.iter().map(|k| (*k, Acc::Write(Some((vlen(rng), rng.next() % 1_000_000))))));
                clusters.push(c);
            }
            _ => {
                // re-insert a deleted range / rewrite a whole cluster with values of the other size class
                let c = &clusters[rng.below(clusters.len() as u64) as usize];
                b.extend(c.iter().map(|k| (*k, Acc::Write(Some((if small_vals { rng.range(900, 1330) } else { rng.range(0, 40) } as usize, rng.next() % 1_000_000))))));
            }
        }
        if b.is_empty() {
            continue;
        }
        b.sort_by(|a, b| a.0.cmp(&b.0));
        b.dedup_by(|a, b| a.0 == b.0);
        live.apply(&b);
        ops.extend(commit_ops(ids.s(), ids.c(), b, false));
        ops.push(Op::CheckAll { proofs: 2 });
    }
    Scenario { ops, label: format!("c01clusters n={} cc={}", clusters.len(), cfg.cc) }
}

/// the all-zero key (its separator is shorter than any prefix) plus a cluster with many leading zero
/// bits, sized so that the first branch node is nearly full; then a few far keys (the node is
/// rebuilt with a shorter prefix while its first chunk is kept), then sparse updates
pub fn c01_zero_prefix(rng: &mut Rng, thorough: bool) -> Scenario {
    let mut ops = Vec::new();
    let mut ids = Ids::new();
    let mut live = Live::default();
    let mut cfg = gen_cfg(rng);
    cfg.rollback = false;
    cfg.ht = 64000;
    ops.push(Op::Open(cfg.clone()));
    let zero_bytes = rng.range(16, 29) as usize;
    let n = rng.range(340, if thorough { 420 } else { 400 }) as usize;
    let vlen = *rng.pick(&[1300usize, 1300, 1250, 1000]);
    let mut keys: Vec<Key> = vec![[0u8; 32]];
    for i in 1..=n {
        let mut k = [0u8; 32];
        k[zero_bytes] = (i >> 8) as u8;
        k[zero_bytes + 1] = (i & 0xff) as u8;
        if rng.chance(1, 3) {
            k[31] = rng.below(256) as u8;
        }
        keys.push(k);
    }
    let mut b: Vec<(Key, Acc)> = keys.iter().map(|k| (*k, Acc::Write(Some((vlen, rng.next() % 1_000_000))))).collect();
    b.sort_by(|a, b| a.0.cmp(&b.0));
    b.dedup_by(|a, b| a.0 == b.0);
    live.apply(&b);
    ops.extend(commit_ops(ids.s(), ids.c(), b, false));
    ops.push(Op::CheckAll { proofs: 2 });
    // far keys whose mutual separators have a chosen length
    let sep = rng.range(2, 250) as usize;
    let mut o0 = [0u8; 32];
    o0[0] = 0x80;
    let mut o1 = o0;
    o1[(sep - 1) / 8] |= 1 << (7 - ((sep - 1) % 8));
    let mut o2 = o1;
    o2[sep / 8] |= 1 << (7 - (sep % 8));
    let mut far: Vec<(Key, Acc)> = [o0, o1, o2].iter().map(|k| (*k, Acc::Write(Some((vlen, rng.next() % 1_000_000))))).collect();
    far.sort_by(|a, b| a.0.cmp(&b.0));
    far.dedup_by(|a, b| a.0 == b.0);
    live.apply(&far);
    ops.extend(commit_ops(ids.s(), ids.c(), far, false));
    ops.push(Op::CheckAll { proofs: 2 });
    for _ in 0..rng.range(1, 4) {
        let mut b: Vec<(Key, Acc)> = Vec::new();
        for _ in 0..rng.range(1, 6) {
            let k = keys[rng.below(keys.len() as u64) as usize];
            b.push((k, if rng.chance(1, 4) { Acc::Write(None) } else { Acc::Write(Some((vlen, rng.next() % 1_000_000))) }));
        }
        b.push((rng.key(), Acc::Write(Some((vlen, 5)))));
        b.sort_by(|a, b| a.0.cmp(&b.0));
        b.dedup_by(|a, b| a.0 == b.0);
        live.apply(&b);
        ops.extend(commit_ops(ids.s(), ids.c(), b, false));
        ops.push(Op::CheckAll { proofs: 2 });
    }
    Scenario { ops, label: format!("c01zero zb={} n={} sep={}", zero_bytes, n, sep) }
}

/// the LEFT EDGE of the key space: commits that delete the smallest keys (emptying the first leaf or
/// the first few leaves exactly, while their right neighbour stays untouched) together with a change
/// far to the right; then changes to that neighbour, then inserts below everything
pub fn c01_first_leaf(rng: &mut Rng, thorough: bool) -> Scenario {
    let mut ops = Vec::new();
    let mut ids = Ids::new();
    let mut live = Live::default();
    let mut cfg = gen_cfg(rng);
    cfg.rollback = false;
    ops.push(Op::Open(cfg.clone()));
    let vlen = *rng.pick(&[1300usize, 1300, 900, 400]);
    let n = rng.range(12, if thorough { 400 } else { 120 }) as usize;
    let mut keys: Vec<Key> = (0..n).map(|_| rng.key()).collect();
    keys.sort();
    keys.dedup();
    let b: Vec<(Key, Acc)> = keys.iter().map(|k| (*k, Acc::Write(Some((vlen, rng.next() % 1_000_000))))).collect();
    live.apply(&b);
    ops.extend(commit_ops(ids.s(), ids.c(), b, false));
    ops.push(Op::CheckAll { proofs: 2 });
    let rounds = rng.range(3, if thorough { 10 } else { 6 });
    for _ in 0..rounds {
        let cur: Vec<Key> = live.map.keys().copied().collect();
        if cur.len() < 8 {
            break;
        }
        let mut b: Vec<(Key, Acc)> = Vec::new();
        match rng.below(4) {
            0 | 1 => {
                // delete the m smallest keys, touch one key far to the right, leave the ones in between
                let m = rng.range(1, 9.min(cur.len() as u64 - 4)) as usize;
                b.extend(cur[..m].iter().map(|k| (*k, Acc::Write(None))));
                let far = cur[rng.range((m + 3) as u64, cur.len() as u64 - 1) as usize];
                b.push((far, Acc::Write(Some((vlen, rng.next() % 1_000_000)))));
            }
            2 => {
                // rewrite the few smallest keys (the leaf that became the first one)
                for k in cur.iter().take(rng.range(1, 4) as usize) {
                    b.push((*k, Acc::Write(Some((vlen, rng.next() % 1_000_000)))));
                }
            }
            _ => {
                // a key below everything, and one just above the smallest
                let mut k = cur[0];
                for byte in k.iter_mut() {
                    if *byte > 0 {
                        *byte -= 1;
                        break;
                    }
                }
                b.push((k, Acc::Write(Some((vlen, 9)))));
                let mut k2 = cur[0];
                k2[31] ^= 1;
                b.push((k2, Acc::Write(Some((vlen, 10)))));
            }
        }
        b.sort_by(|a, b| a.0.cmp(&b.0));
        b.dedup_by(|a, b| a.0 == b.0);
        live.apply(&b);
        ops.extend(commit_ops(ids.s(), ids.c(), b, false));
        ops.push(Op::CheckAll { proofs: 2 });
    }
    Scenario { ops, label: format!("c01first n={} vlen={} cc={}", n, vlen, cfg.cc) }
}

/// "ABA": a change set is prepared, then other commits (or a commit and a rollback) change the state
/// and bring it back to EXACTLY the same key/value set - the root is the same, the pages behind it are
/// not (buckets cleared / reused, elision bits); the old change set must be refused, must leave no
/// trace, and everything must still be provable after a reopen
pub fn c12_aba(rng: &mut Rng, _thorough: bool) -> Scenario {
    let mut ops = Vec::new();
    let mut ids = Ids::new();
    let mut kg = KeyGen::new(rng);
    let mut live = Live::default();
    let mut cfg = gen_cfg(rng);
    cfg.rollback = true;
    cfg.max_len = 100;
    cfg.ht = *rng.pick(&[2048u32, 64000]);
    ops.push(Op::Open(cfg.clone()));
    let sz0 = rng.range(1, 30) as usize;
    let b = gen_batch(rng, &mut kg, &live, &BatchSpec { size: sz0, mix: ValueMix::Small, p_delete: 0, p_read: 0, p_rw: 0, p_existing: 0 });
    live.apply(&b);
    ops.extend(commit_ops(ids.s(), ids.c(), b, false));
    // a dense group under one page, above or below the elision threshold
    let bits = *rng.pick(&[12usize, 12, 18]);
    let dense = kg.dense(rng, bits, 26);
    let n0 = *rng.pick(&[2usize, 5, 19, 20, 21, 24]);
    let mut g: Vec<(Key, Acc)> = dense[..n0].iter().map(|k| (*k, Acc::Write(Some(gen_value(rng, ValueMix::Small))))).collect();
    g.sort_by(|a, b| a.0.cmp(&b.0));
    live.apply(&g);
    ops.extend(commit_ops(ids.s(), ids.c(), g.clone(), false));
    // sometimes shrink the group first, so that its page is stored with few leaves (hysteresis)
    if n0 >= 20 && rng.chance(1, 2) {
        let mut d: Vec<(Key, Acc)> = dense[2..n0].iter().map(|k| (*k, Acc::Write(None))).collect();
        d.sort_by(|a, b| a.0.cmp(&b.0));
        live.apply(&d);
        ops.extend(commit_ops(ids.s(), ids.c(), d, false));
    }
    // cross-handle variant: the change set is prepared on a fresh handle (no change set applied
    // by it yet), kept across a close, and committed into a later handle that has not applied any either
    let cross_handle = rng.chance(1, 3);
    if cross_handle {
        ops.push(Op::Close);
        ops.push(Op::Open(cfg.clone()));
    }
    // the change set that will go stale: touches the group
    let cur: Vec<Key> = dense.iter().filter(|k| live.map.contains_key(*k)).copied().collect();
    let (s0, c0) = (ids.s(), ids.c());
    let mut stale_batch: Vec<(Key, Acc)> = vec![(cur[rng.below(cur.len() as u64) as usize], Acc::Write(Some(gen_value(rng, ValueMix::Small))))];
    if rng.chance(1, 2) {
        stale_batch.push((dense[25], Acc::Write(Some((7, 7)))));
    }
    stale_batch.sort_by(|a, b| a.0.cmp(&b.0));
    stale_batch.dedup_by(|a, b| a.0 == b.0);
    ops.push(Op::Begin { s: s0, chain: vec![], witness: false });
    ops.push(Op::Finish { s: s0, c: c0, batch: stale_batch });
    let as_overlay = rng.chance(1, 2);
    if as_overlay {
        ops.push(Op::Overlay { c: c0 });
    }
    // away and back
    let back_by_rollback = rng.chance(1, 3);
    let away: Vec<(Key, Acc)> = match rng.below(3) {
        0 => cur.iter().map(|k| (*k, Acc::Write(None))).collect(),
        1 => dense[n0.min(25)..26].iter().map(|k| (*k, Acc::Write(Some((9, 9))))).collect(),
        _ => cur.iter().take(1).map(|k| (*k, Acc::Write(Some((11, 11))))).collect(),
    };
    let mut away = away;
    away.sort_by(|a, b| a.0.cmp(&b.0));
    let before = live.clone();
    live.apply(&away);
    ops.extend(commit_ops(ids.s(), ids.c(), away.clone(), false));
    if back_by_rollback {
        ops.push(Op::Rollback(1));
    } else {
        let mut back: Vec<(Key, Acc)> = away.iter().map(|(k, _)| (*k, Acc::Write(before.map.get(k).copied()))).collect();
        back.sort_by(|a, b| a.0.cmp(&b.0));
        ops.extend(commit_ops(ids.s(), ids.c(), back, false));
    }
    live = before;
    ops.push(Op::CheckAll { proofs: 4 });
    // sometimes the handle is closed and the directory reopened while the change set is held
    // (finished sessions and overlays do not borrow the handle): still stale on the new handle
    if cross_handle {
        ops.push(Op::CloseKeep);
        ops.push(Op::Open(cfg.clone()));
    }
    // the stale change set: refused, no effect
    ops.push(Op::Commit { c: c0, nb: rng.chance(1, 2) });
    ops.push(Op::CheckAll { proofs: 4 });
    // life goes on, also after a reopen (damage of an accepted stale change set shows only then)
    let sz2 = rng.range(1, 10) as usize;
    let b2 = gen_batch(rng, &mut kg, &live, &BatchSpec { size: sz2, mix: ValueMix::Small, p_delete: 30, p_read: 0, p_rw: 30, p_existing: 70 });
    live.apply(&b2);
    ops.extend(commit_ops(ids.s(), ids.c(), b2, false));
    ops.push(Op::Close);
    ops.push(Op::Open(cfg.clone()));
    ops.push(Op::CheckAll { proofs: 30 });
    for k in dense.iter().take(8) {
        ops.push(Op::Read(*k));
    }
    let mut g2: Vec<(Key, Acc)> = dense[..6].iter().map(|k| (*k, Acc::Write(Some((13, 13))))).collect();
    g2.sort_by(|a, b| a.0.cmp(&b.0));
    ops.extend(commit_ops(ids.s(), ids.c(), g2, false));
    ops.push(Op::CheckAll { proofs: 30 });
    Scenario { ops, label: format!("c12aba n0={} ov={} rb={}", n0, as_overlay as u8, back_by_rollback as u8) }
}

/// small trees of FULL leaves (values at the in-leaf limit, three per leaf) changed at leaf boundaries by
/// 2..4 workers: deletions that make neighbouring leaves underfull so that workers extend their ranges,
/// merge across worker boundaries and split again
pub fn c01_worker_edges(rng: &mut Rng, thorough: bool) -> Scenario {
    let mut ops = Vec::new();
    let mut ids = Ids::new();
    let mut live = Live::default();
    let mut cfg = gen_cfg(rng);
    cfg.rollback = false;
    cfg.cc = *rng.pick(&[2usize, 2, 3, 3, 4, 5, 8]);
    ops.push(Op::Open(cfg.clone()));
    let n = rng.range(9, if thorough { 120 } else { 40 }) as usize;
    let mut keys: Vec<Key> = (0..n)
        .map(|i| {
            let mut k = [0u8; 32];
            k[0] = (i >> 4) as u8;
            k[1] = ((i & 15) << 4) as u8 | rng.below(16) as u8;
            k
        })
        .collect();
    keys.sort();
    keys.dedup();
    let sizes = [1332usize, 1332, 1300, 1000, 700, 300];
    let b: Vec<(Key, Acc)> = keys.iter().map(|k| (*k, Acc::Write(Some((*rng.pick(&sizes), rng.next() % 1_000_000))))).collect();
    live.apply(&b);
    ops.extend(commit_ops(ids.s(), ids.c(), b, false));
    ops.push(Op::CheckAll { proofs: 1 });
    for _ in 0..rng.range(2, if thorough { 8 } else { 5 }) {
        let cur: Vec<Key> = live.map.keys().copied().collect();
        if cur.len() < 4 {
            break;
        }
        let mut b: Vec<(Key, Acc)> = Vec::new();
        let p_del = *rng.pick(&[20u64, 35, 50, 70]);
        for k in &cur {
            if rng.chance(p_del, 100) {
                b.push((*k, Acc::Write(None)));
            } else if rng.chance(1, 6) {
                b.push((*k, Acc::Write(Some((*rng.pick(&sizes), rng.next() % 1_000_000)))));
            }
        }
        for _ in 0..rng.range(0, 4) {
            let mut k = cur[rng.below(cur.len() as u64) as usize];
            k[31] = rng.below(255) as u8 + 1;
            b.push((k, Acc::Write(Some((*rng.pick(&sizes), 3)))));
        }
        if b.is_empty() {
            continue;
        }
        b.sort_by(|a, b| a.0.cmp(&b.0));
        b.dedup_by(|a, b| a.0 == b.0);
        live.apply(&b);
        ops.extend(commit_ops(ids.s(), ids.c(), b, false));
        ops.push(Op::CheckAll { proofs: 1 });
    }
    Scenario { ops, label: format!("c01edges n={} cc={}", n, cfg.cc) }
}

pub fn c02(rng: &mut Rng, thorough: bool) -> Scenario {
    let mut ops = Vec::new();
    let mut ids = Ids::new();
    let mut kg = KeyGen::new(rng);
    let mut live = Live::default();
    let mut cfg = gen_cfg(rng);
    cfg.rollback = false;
    ops.push(Op::Open(cfg.clone()));
    let flavour = rng.below(4);
    let mut label = format!("c02 flavour={} cc={}", flavour, cfg.cc);
    if flavour == 0 {
        // sub-trie under one page growing / shrinking across the elision threshold
        let bits = *rng.pick(&[6usize, 12, 12, 18, 24]);
        let n = rng.range(19, 23) as usize;
        let dense = kg.dense(rng, bits, n + 3);
        label += &format!(" dense bits={} n={}", bits, n);
        let mut some: Vec<(Key, Acc)> = dense[..n].iter().map(|k| (*k, Acc::Write(Some(gen_value(rng, ValueMix::Small))))).collect();
        some.sort_by(|a, b| a.0.cmp(&b.0));
        live.apply(&some);
        ops.extend(commit_ops(ids.s(), ids.c(), some, false));
        // a few unrelated keys
        let b = gen_batch(rng, &mut kg, &live, &BatchSpec { size: 10, mix: ValueMix::Small, p_delete: 0, p_read: 0, p_rw: 0, p_existing: 0 });
        live.apply(&b);
        ops.extend(commit_ops(ids.s(), ids.c(), b, false));
        // shrink one by one through the threshold, then regrow
        let mut cur: Vec<Key> = dense[..n].to_vec();
        while cur.len() > 17 {
            let k = cur.pop().unwrap();
            let b = vec![(k, Acc::Write(None))];
            live.apply(&b);
            ops.extend(commit_ops(ids.s(), ids.c(), b, false));
        }
        for k in &dense[n..] {
            cur.push(*k);
        }
        let mut b: Vec<(Key, Acc)> = dense[17..].iter().map(|k| (*k, Acc::Write(Some(gen_value(rng, ValueMix::Small))))).collect();
        b.sort_by(|a, b| a.0.cmp(&b.0));
        live.apply(&b);
        ops.extend(commit_ops(ids.s(), ids.c(), b, false));
        ops.push(Op::Close);
        ops.push(Op::Open(cfg.clone()));
        // delete everything under the page in one batch
        let mut b: Vec<(Key, Acc)> = cur.iter().map(|k| (*k, Acc::Write(None))).collect();
        b.sort_by(|a, b| a.0.cmp(&b.0));
        b.dedup_by(|a, b| a.0 == b.0);
        live.apply(&b);
        ops.extend(commit_ops(ids.s(), ids.c(), b, false));
    } else {
        let commits = rng.range(3, if thorough { 12 } else { 7 });
        for j in 0..commits {
            let spec = BatchSpec {
                size: rng.range(1, if thorough { 400 } else { 90 }) as usize,
                mix: ValueMix::Small,
                p_delete: if flavour == 2 { 55 } else { 25 },
                p_read: 5,
                p_rw: 20,
                p_existing: if flavour == 2 { 70 } else { 40 },
            };
            let batch = gen_batch(rng, &mut kg, &live, &spec);
            live.apply(&batch);
            if flavour == 3 && j % 2 == 1 {
                // through an overlay
                let (s, c) = (ids.s(), ids.c());
                ops.push(Op::Begin { s, chain: vec![], witness: false });
                ops.push(Op::Finish { s, c, batch });
                ops.push(Op::Overlay { c });
                ops.push(Op::Commit { c, nb: false });
            } else {
                ops.extend(commit_ops(ids.s(), ids.c(), batch, false));
            }
            if rng.chance(1, 4) {
                ops.push(Op::Close);
                ops.push(Op::Open(cfg.clone()));
            }
        }
        if flavour == 2 {
            // delete everything: must come back to the terminator
            let b: Vec<(Key, Acc)> = live.map.keys().map(|k| (*k, Acc::Write(None))).collect();
            live.apply(&b);
            ops.extend(commit_ops(ids.s(), ids.c(), b, false));
        }
    }
    Scenario { ops, label }
}

pub fn c05(rng: &mut Rng, thorough: bool) -> Scenario {
    let mut ops = Vec::new();
    let mut ids = Ids::new();
    let mut kg = KeyGen::new(rng);
    let mut live = Live::default();
    let mut cfg = gen_cfg(rng);
    cfg.rollback = false;
    if rng.chance(1, 5) {
        cfg.ht = *rng.pick(&[96u32, 128, 192, 256]);
        ops.push(Op::Open(cfg.clone()));
        tombstone_history(rng, &mut ops, &mut ids, &mut live, &cfg);
        return Scenario { ops, label: format!("c05 tombstones ht={}", cfg.ht) };
    }
    if rng.chance(1, 5) {
        // tiny stores: zero to three keys with values of every form (the root is a terminator, a single
        // leaf or one internal node), reached directly or by deleting almost everything, proofs taken
        // right after a cold reopen
        ops.push(Op::Open(cfg.clone()));
        let n = rng.below(4) as usize;
        let keep: Vec<Key> = (0..n).map(|_| if rng.chance(1, 2) { rng.key() } else { kg.key(rng) }).collect();
        let mut b: Vec<(Key, Acc)> = keep.iter().map(|k| (*k, Acc::Write(Some(gen_value(rng, ValueMix::Boundary))))).collect();
        let via_delete = rng.chance(1, 2);
        let extra: Vec<Key> = if via_delete { (0..rng.range(1, 40)).map(|_| kg.key(rng)).collect() } else { vec![] };
        b.extend(extra.iter().map(|k| (*k, Acc::Write(Some(gen_value(rng, ValueMix::Small))))));
        b.sort_by(|a, b| a.0.cmp(&b.0));
        b.dedup_by(|a, b| a.0 == b.0);
        if !b.is_empty() {
            live.apply(&b);
            ops.extend(commit_ops(ids.s(), ids.c(), b, false));
        }
        if via_delete {
            let mut d: Vec<(Key, Acc)> = extra.iter().filter(|k| !keep.contains(k)).map(|k| (*k, Acc::Write(None))).collect();
            d.sort_by(|a, b| a.0.cmp(&b.0));
            d.dedup_by(|a, b| a.0 == b.0);
            if !d.is_empty() {
                live.apply(&d);
                ops.extend(commit_ops(ids.s(), ids.c(), d, false));
            }
        }
        ops.push(Op::Close);
        ops.push(Op::Open(cfg.clone()));
        let s = ids.s();
        ops.push(Op::Begin { s, chain: vec![], witness: false });
        for k in keep.iter() {
            ops.push(Op::SProve { s, key: *k });
            for bit in [0usize, 7, 100, 255] {
                let mut a = *k;
                crate::util::flip_bit(&mut a, bit);
                ops.push(Op::SProve { s, key: a });
            }
        }
        for _ in 0..4 {
            ops.push(Op::SProve { s, key: rng.key() });
        }
        ops.push(Op::DropS { s });
        ops.push(Op::CheckAll { proofs: 4 });
        return Scenario { ops, label: format!("c05 tiny n={} via_delete={}", n, via_delete as u8) };
    }
    if rng.chance(1, 3) {
        cfg.ht = 2048;
    }
    ops.push(Op::Open(cfg.clone()));
    let commits = rng.range(1, 4);
    // pairs of keys (lo < hi) that are ALONE under a trie node (they share 12..60 bits with each other
    // and with nothing else); one of the two carries a multi-page value.  An overlay deletes it later:
    // the survivor's leaf moves up to that node, and the seeker that lands there must skip the deleted
    // key's on-disk entry (an overflow cell) when it looks for the leaf's key
    let mut pairs: Vec<(Key, Key, bool)> = Vec::new();
    if rng.chance(1, 2) {
        for _ in 0..rng.range(1, 5) {
            let base = rng.key();
            let l = rng.range(12, 60) as usize;
            let mut lo = diverge_at(rng, &base, l);
            let mut hi = lo;
            crate::util::flip_bit(&mut hi, l);
            if lo > hi {
                std::mem::swap(&mut lo, &mut hi);
            }
            pairs.push((lo, hi, rng.chance(2, 3)));
        }
    }
    // a long run of prefix-sharing keys (several b-tree leaf pages of them) followed by one survivor:
    // an overlay deletes the whole run, so the seeker that looks for the survivor's leaf has to skip
    // hundreds of deleted on-disk entries across leaf-page boundaries
    let mut run: Vec<Key> = Vec::new();
    let mut run_survivor: Option<Key> = None;
    if rng.chance(1, 3) {
        let base = rng.key();
        let l = rng.range(8, 20) as usize;
        let nrun = rng.range(200, 700) as usize;
        let mut ks: Vec<Key> = (0..nrun + 1).map(|_| { let d = l + 1 + rng.below(4) as usize; diverge_at(rng, &base, d) }).collect();
        for k in ks.iter_mut() {
            // keep the first l bits of base
            for bit in 0..l {
                let want = crate::util::get_bit(&base, bit);
                if crate::util::get_bit(k, bit) != want {
                    crate::util::flip_bit(k, bit);
                }
            }
        }
        ks.sort();
        ks.dedup();
        run_survivor = ks.pop();
        run = ks;
    }
    for ci in 0..commits {
        let spec = BatchSpec { size: rng.range(1, if thorough { 600 } else { 150 }) as usize, mix: ValueMix::Small, p_delete: 20, p_read: 0, p_rw: 0, p_existing: 40 };
        let mut batch = gen_batch(rng, &mut kg, &live, &spec);
        if ci == 0 && !run.is_empty() {
            for k in run.iter().chain(run_survivor.iter()) {
                batch.push((*k, Acc::Write(Some(gen_value(rng, ValueMix::Small)))));
            }
            batch.sort_by(|a, b| a.0.cmp(&b.0));
            batch.dedup_by(|a, b| a.0 == b.0);
        }
        if ci == 0 && !pairs.is_empty() {
            for (lo, hi, big_is_lo) in &pairs {
                let big = (*rng.pick(&[1333usize, 2000, 4093, 40000, 70000]), rng.next() % 1_000_000);
                let small = gen_value(rng, ValueMix::Small);
                batch.push((*lo, Acc::Write(Some(if *big_is_lo { big } else { small }))));
                batch.push((*hi, Acc::Write(Some(if *big_is_lo { small } else { big }))));
            }
            batch.sort_by(|a, b| a.0.cmp(&b.0));
            batch.dedup_by(|a, b| a.0 == b.0);
        }
        if rng.chance(1, 3) {
            // a dense sub-trie so that some paths cross elided pages / the threshold
            let n = rng.range(15, 26) as usize;
            for k in kg.dense(rng, 12, n) {
                batch.push((k, Acc::Write(Some(gen_value(rng, ValueMix::Small)))));
            }
            batch.sort_by(|a, b| a.0.cmp(&b.0));
            batch.dedup_by(|a, b| a.0 == b.0);
        }
        live.apply(&batch);
        ops.extend(commit_ops(ids.s(), ids.c(), batch, false));
    }
    if rng.chance(1, 2) {
        // cold caches
        let mut cold = cfg.clone();
        cold.pc = 1;
        cold.prepop = false;
        ops.push(Op::Close);
        ops.push(Op::Open(cold));
    }
    let mut chain = vec![];
    let mut pair_probes: Vec<Key> = Vec::new();
    if rng.chance(1, 2) || !pairs.is_empty() || !run.is_empty() {
        // layer one or two uncommitted overlays
        for li in 0..rng.range(1, 2) {
            let spec = BatchSpec { size: rng.range(1, 40) as usize, mix: ValueMix::Small, p_delete: 30, p_read: 0, p_rw: 0, p_existing: 50 };
            let mut batch = gen_batch(rng, &mut kg, &live, &spec);
            if li == 0 && !run.is_empty() {
                let sv = run_survivor.unwrap();
                batch.retain(|e| e.0 != sv && !run.contains(&e.0));
                for k in run.iter().filter(|k| live.map.contains_key(*k)) {
                    batch.push((*k, Acc::Write(None)));
                }
                pair_probes.push(sv);
                pair_probes.push(run[0]);
                pair_probes.push(run[run.len() / 2]);
                pair_probes.push(run[run.len() - 1]);
                let d1 = 30 + rng.below(100) as usize;
                pair_probes.push(diverge_at(rng, &sv, d1));
            }
            if li == 0 {
                // the overlay deletes the multi-page member of every pair that is still whole
                for (lo, hi, big_is_lo) in &pairs {
                    if live.map.contains_key(lo) && live.map.contains_key(hi) {
                        let (del, keep) = if *big_is_lo { (*lo, *hi) } else { (*hi, *lo) };
                        batch.retain(|e| e.0 != del && e.0 != keep);
                        batch.push((del, Acc::Write(None)));
                        pair_probes.push(keep);
                        pair_probes.push(del);
                        let (d1, d2) = (80 + rng.below(100) as usize, 80 + rng.below(100) as usize);
                        pair_probes.push(diverge_at(rng, &keep, d1));
                        pair_probes.push(diverge_at(rng, &del, d2));
                    }
                }
                batch.sort_by(|a, b| a.0.cmp(&b.0));
                batch.dedup_by(|a, b| a.0 == b.0);
            }
            live.apply(&batch);
            let (s, c) = (ids.s(), ids.c());
            ops.push(Op::Begin { s, chain: chain.clone(), witness: false });
            ops.push(Op::Finish { s, c, batch });
            ops.push(Op::Overlay { c });
            chain.insert(0, c);
        }
    }
    let s = ids.s();
    ops.push(Op::Begin { s, chain, witness: false });
    let n_present = live.map.len().min(if thorough { 200 } else { 50 });
    let step = (live.map.len() / n_present.max(1)).max(1);
    let present: Vec<Key> = live.map.keys().step_by(step).copied().collect();
    for k in present {
        ops.push(Op::SProve { s, key: k });
    }
    for k in absent_probes(rng, &live, if thorough { 150 } else { 40 }) {
        ops.push(Op::SProve { s, key: k });
    }
    for _ in 0..5 {
        ops.push(Op::SProve { s, key: rng.key() });
    }
    for k in pair_probes {
        ops.push(Op::SProve { s, key: k });
        ops.push(Op::SRead { s, key: k });
    }
    // deleted keys
    for k in live.ever.iter().filter(|k| !live.map.contains_key(*k)).take(10) {
        ops.push(Op::SProve { s, key: *k });
    }
    ops.push(Op::DropS { s });
    Scenario { ops, label: format!("c05 keys={} pc={}", live.map.len(), cfg.pc) }
}

pub fn c06(rng: &mut Rng, thorough: bool) -> Scenario {
    let mut ops = Vec::new();
    let mut ids = Ids::new();
    let mut kg = KeyGen::new(rng);
    let mut live = Live::default();
    let mut cfg = gen_cfg(rng);
    cfg.rollback = false;
    cfg.cc = *rng.pick(&[1usize, 2, 3, 4, 5, 6, 7, 8, 64]);
    ops.push(Op::Open(cfg.clone()));
    let rounds = rng.range(2, if thorough { 8 } else { 4 });
    for r in 0..rounds {
        let spec = BatchSpec {
            size: rng.range(1, if thorough { 500 } else { 160 }) as usize,
            mix: ValueMix::Small,
            p_delete: 25,
            p_read: if r == 0 { 0 } else { 30 },
            p_rw: 30,
            p_existing: if r == 0 { 0 } else { 55 },
        };
        let mut batch = gen_batch(rng, &mut kg, &live, &spec);
        if r > 0 && rng.chance(1, 2) {
            // several keys under one terminal: keys diverging deep from a live key
            if let Some(k) = live.pick_live(rng) {
                for _ in 0..rng.range(1, 4) {
                    let d = 200 + rng.below(56) as usize;
                    batch.push((diverge_at(rng, &k, d), Acc::Write(Some(gen_value(rng, ValueMix::Small)))));
                }
                batch.sort_by(|a, b| a.0.cmp(&b.0));
                batch.dedup_by(|a, b| a.0 == b.0);
            }
        }
        live.apply(&batch);
        ops.extend(commit_ops(ids.s(), ids.c(), batch, true));
    }
    Scenario { ops, label: format!("c06 cc={} rounds={}", cfg.cc, rounds) }
}

pub fn c09(rng: &mut Rng, thorough: bool) -> Scenario {
    let mut ops = Vec::new();
    let mut ids = Ids::new();
    let mut kg = KeyGen::new(rng);
    let mut live = Live::default();
    let mut cfg = gen_cfg(rng);
    cfg.rollback = true;
    cfg.max_len = *rng.pick(&[1u32, 2, 2, 3, 3, 5, 100]);
    ops.push(Op::Open(cfg.clone()));
    let steps = rng.range(4, if thorough { 30 } else { 12 });
    let mut depth = 0usize; // generator's guess of log length
    if rng.chance(1, 3) {
        // multi-page values (more than 15 overflow pages) that later plain writes overwrite
        let mut b: Vec<(Key, Acc)> = (0..rng.range(1, 3)).map(|_| (kg.key(rng), Acc::Write(Some((*rng.pick(&[61381usize, 65472, 65536, 70000, 130000]), rng.next() % 1000))))).collect();
        b.sort_by(|a, b| a.0.cmp(&b.0));
        b.dedup_by(|a, b| a.0 == b.0);
        live.apply(&b);
        ops.extend(commit_ops(ids.s(), ids.c(), b, false));
        depth = 1;
    }
    if rng.chance(1, 4) {
        // a rollback record that ends exactly on (or one byte around) a 4 KiB boundary of the segment
        // file: the delta of a commit that overwrites ONE key is 44 bytes + the prior value, the
        // record header 12 bytes; sometimes the record is exactly as large as a small segment
        let k = kg.key(rng);
        let pages = *rng.pick(&[1usize, 1, 2, 3, 4, 16]);
        let v = (4096 * pages - 56) as i64 + *rng.pick(&[-1i64, 0, 0, 1]);
        let b1 = vec![(k, Acc::Write(Some((v as usize, rng.next() % 1000))))];
        live.apply(&b1);
        ops.extend(commit_ops(ids.s(), ids.c(), b1, false));
        let b2 = vec![(k, if rng.chance(1, 2) { Acc::Write(Some((3, 3))) } else { Acc::Write(None) })];
        live.apply(&b2);
        ops.extend(commit_ops(ids.s(), ids.c(), b2, false));
        ops.push(Op::CheckAll { proofs: 0 });
        depth = (depth + 2).min(cfg.max_len as usize);
        if rng.chance(1, 2) {
            ops.push(Op::Close);
            ops.push(Op::Open(cfg.clone()));
        }
        if rng.chance(1, 2) && depth >= 1 {
            ops.push(Op::Rollback(1));
            ops.push(Op::CheckAll { proofs: 0 });
            depth -= 1;
        }
    }
    for _ in 0..steps {
        match rng.below(10) {
            0..=5 => {
                // now and then a commit that writes nothing (empty or read-only batch): it still is a
                // commit that rollback must count
                let nothing = rng.chance(1, 6);
                let spec = BatchSpec { size: if nothing { rng.below(3) as usize } else { rng.range(1, 40) as usize }, mix: if rng.chance(1, 4) { ValueMix::Boundary } else { ValueMix::Small }, p_delete: 30, p_read: if nothing { 100 } else { 10 }, p_rw: 40, p_existing: 50 };
                let batch = gen_batch(rng, &mut kg, &live, &spec);
                live.apply(&batch);
                if rng.chance(1, 4) {
                    let (s, c) = (ids.s(), ids.c());
                    ops.push(Op::Begin { s, chain: vec![], witness: false });
                    if rng.chance(1, 2) {
                        for (k, _) in batch.iter().take(3) {
                            ops.push(Op::SPreserve { s, key: *k });
                        }
                    }
                    ops.push(Op::Finish { s, c, batch });
                    ops.push(Op::Overlay { c });
                    ops.push(Op::Commit { c, nb: false });
                } else {
                    ops.extend(commit_ops(ids.s(), ids.c(), batch, false));
                }
                depth = (depth + 1).min(cfg.max_len as usize);
            }
            6..=7 => {
                let n = rng.range(0, depth as u64 + 1) as usize;
                ops.push(Op::Rollback(n));
                if n <= depth {
                    depth -= n;
                }
            }
            _ => {
                ops.push(Op::Close);
                ops.push(Op::Open(cfg.clone()));
            }
        }
        ops.push(Op::CheckAll { proofs: 0 });
    }
    // k then m equals k+m is implied by comparing every step with the model; end with a full unwind
    ops.push(Op::Rollback(depth.max(1)));
    ops.push(Op::CheckAll { proofs: 0 });
    ops.push(Op::Rollback(1));
    ops.push(Op::CheckAll { proofs: 0 });
    ops.push(Op::Close);
    ops.push(Op::Open(cfg.clone()));
    ops.push(Op::CheckAll { proofs: 0 });
    Scenario { ops, label: format!("c09 ml={} steps={}", cfg.max_len, steps) }
}

/// Prior values that must be fetched COLD: with rollback enabled a plain write (no read) makes the
/// delta builder look the prior value up itself.  A b-tree larger than the smallest leaf cache
/// (1 MiB = 32 shards of 8 leaves) is rewritten in one batch, among it keys whose prior values span
/// more than 15 overflow pages (the cell lists 15 page numbers, the rest is only known once the first
/// pages have been read): their leaves are no longer cached when the lookup starts, so the value is
/// read through the asynchronous leaf-then-overflow path.  Then roll back: every prior must return.
pub fn c09_cold_prior(rng: &mut Rng, _thorough: bool) -> Scenario {
    let mut ops = Vec::new();
    let mut ids = Ids::new();
    let mut live = Live::default();
    let mut cfg = gen_cfg(rng);
    cfg.rollback = true;
    cfg.max_len = *rng.pick(&[2u32, 3, 100]);
    cfg.lc = 1;
    cfg.ht = 64000;
    cfg.cc = *rng.pick(&[1usize, 2, 4]);
    ops.push(Op::Open(cfg.clone()));
    let n = rng.range(1100, 1500) as usize;
    let mut keys: Vec<Key> = (0..n).map(|_| rng.key()).collect();
    keys.sort();
    keys.dedup();
    let nbig = rng.range(2, 5) as usize;
    let big: Vec<Key> = (0..nbig).map(|_| keys[rng.below(keys.len() as u64) as usize]).collect();
    let mut first: Vec<(Key, Acc)> = keys
        .iter()
        .map(|k| {
            let len = if big.contains(k) { *rng.pick(&[61381usize, 65536, 70000, 130000, 300000]) } else { rng.range(700, 1200) as usize };
            (*k, Acc::Write(Some((len, rng.next() % 1_000_000))))
        })
        .collect();
    first.dedup_by(|a, b| a.0 == b.0);
    live.apply(&first);
    ops.extend(commit_ops(ids.s(), ids.c(), first, false));
    ops.push(Op::CheckAll { proofs: 2 });
    if rng.chance(1, 2) {
        ops.push(Op::Close);
        ops.push(Op::Open(cfg.clone()));
    }
    // rewrite (nearly) everything blind; the keys with the large values are overwritten or deleted
    let mut second: Vec<(Key, Acc)> = Vec::new();
    for k in &keys {
        if big.contains(k) {
            second.push((*k, if rng.chance(1, 2) { Acc::Write(None) } else { Acc::Write(Some((rng.range(1, 2000) as usize, rng.next() % 1_000_000))) }));
        } else if rng.chance(9, 10) {
            second.push((*k, Acc::Write(Some((rng.range(700, 1200) as usize, rng.next() % 1_000_000)))));
        }
    }
    live.apply(&second);
    ops.extend(commit_ops(ids.s(), ids.c(), second, false));
    ops.push(Op::CheckAll { proofs: 2 });
    ops.push(Op::Rollback(1));
    ops.push(Op::CheckAll { proofs: 2 });
    ops.push(Op::Close);
    ops.push(Op::Open(cfg.clone()));
    ops.push(Op::CheckAll { proofs: 2 });
    Scenario { ops, label: format!("c09cold n={} big={} cc={}", n, nbig, cfg.cc) }
}

/// tiny hash table, one stored page per root child, whole sub-tries deleted again (tombstones on
/// other pages' probe paths), then a cold reopen: every page must still be found
fn tombstone_history(rng: &mut Rng, ops: &mut Vec<Op>, ids: &mut Ids, live: &mut Live, cfg: &Cfg) {
    let mut by_child: Vec<Vec<Key>> = vec![vec![]; 64];
    for c in 0..64usize {
        for _ in 0..rng.range(1, 3) {
            let mut k = rng.key();
            k[0] = ((c as u8) << 2) | (k[0] & 3);
            by_child[c].push(k);
        }
    }
    let (mut a, mut b): (Vec<(Key, Acc)>, Vec<(Key, Acc)>) = (vec![], vec![]);
    for c in 0..64 {
        for k in &by_child[c] {
            let e = (*k, Acc::Write(Some(gen_value(rng, ValueMix::Small))));
            if c % 2 == 0 { a.push(e) } else { b.push(e) }
        }
    }
    a.sort_by(|x, y| x.0.cmp(&y.0));
    b.sort_by(|x, y| x.0.cmp(&y.0));
    live.apply(&a);
    ops.extend(commit_ops(ids.s(), ids.c(), a.clone(), false));
    live.apply(&b);
    ops.extend(commit_ops(ids.s(), ids.c(), b, false));
    // delete every key of the first group: their pages are released
    let del: Vec<(Key, Acc)> = a.iter().map(|(k, _)| (*k, Acc::Write(None))).collect();
    live.apply(&del);
    ops.extend(commit_ops(ids.s(), ids.c(), del, false));
    ops.push(Op::CheckAll { proofs: 200 });
    ops.push(Op::Close);
    let mut c2 = cfg.clone();
    c2.pc = 1;
    c2.prepop = rng.chance(1, 2);
    ops.push(Op::Open(c2));
    ops.push(Op::CheckAll { proofs: 200 });
    // and the store keeps working
    let more: Vec<(Key, Acc)> = live.map.keys().take(8).map(|k| (*k, Acc::Write(Some(gen_value(rng, ValueMix::Small))))).collect();
    live.apply(&more);
    ops.extend(commit_ops(ids.s(), ids.c(), more, false));
    ops.push(Op::CheckAll { proofs: 50 });
}

pub fn c10(rng: &mut Rng, thorough: bool) -> Scenario {
    let mut ops = Vec::new();
    let mut ids = Ids::new();
    let mut kg = KeyGen::new(rng);
    let mut live = Live::default();
    let mut cfg = gen_cfg(rng);
    if rng.chance(1, 3) {
        cfg.rollback = false;
        cfg.ht = *rng.pick(&[96u32, 128, 192, 256]);
        ops.push(Op::Open(cfg.clone()));
        tombstone_history(rng, &mut ops, &mut ids, &mut live, &cfg);
        return Scenario { ops, label: format!("c10 tombstones ht={}", cfg.ht) };
    }
    cfg.rollback = rng.chance(2, 3);
    cfg.max_len = *rng.pick(&[2u32, 3, 100]);
    cfg.ht = *rng.pick(&[1024u32, 4096, 64000]);
    ops.push(Op::Open(cfg.clone()));
    let steps = rng.range(3, if thorough { 20 } else { 8 });
    let mut depth = 0usize;
    for _ in 0..steps {
        let spec = BatchSpec { size: rng.range(1, if thorough { 300 } else { 80 }) as usize, mix: ValueMix::Mixed, p_delete: 30, p_read: 5, p_rw: 30, p_existing: 50 };
        let batch = gen_batch(rng, &mut kg, &live, &spec);
        live.apply(&batch);
        ops.extend(commit_ops(ids.s(), ids.c(), batch, false));
        depth = (depth + 1).min(cfg.max_len as usize);
        if cfg.rollback && rng.chance(1, 5) {
            let n = rng.range(1, depth as u64 + 1) as usize;
            ops.push(Op::Rollback(n));
            if n <= depth {
                depth -= n;
            }
        }
        if rng.chance(1, 2) {
            // reopen under a different configuration (same rollback settings and hasher)
            let mut c2 = gen_cfg(rng);
            c2.rollback = cfg.rollback;
            c2.max_len = cfg.max_len;
            c2.ht = cfg.ht;
            c2.seed = cfg.seed;
            if rng.chance(1, 2) {
                // the hash-table seed and size are fixed when the directory is created: a later open
                // that passes other values (Options::new() draws a fresh random seed every time) must
                // behave - and leave the files - exactly like one that passes the original ones
                c2.seed = cfg.seed.wrapping_add(1 + rng.below(1000));
                if rng.chance(1, 2) {
                    c2.ht = *rng.pick(&[1024u32, 4096, 64000, 30000]);
                }
            }
            ops.push(Op::Close);
            ops.push(Op::Open(c2));
            ops.push(Op::CheckAll { proofs: 6 });
            if cfg.rollback && rng.chance(1, 3) {
                // a rollback request right after reopening: servable or not as if never closed
                let n = rng.range(1, depth as u64 + 1) as usize;
                ops.push(Op::Rollback(n));
                if n <= depth {
                    depth -= n;
                }
                ops.push(Op::CheckAll { proofs: 0 });
            }
        }
    }
    Scenario { ops, label: format!("c10 rb={} ml={} ht={}", cfg.rollback, cfg.max_len, cfg.ht) }
}

#[derive(Clone)]
struct Ov {
    id: u32,
    parent: Option<u32>,
    held: bool,
    committed: bool,
    live: Live,
}

pub fn c11(rng: &mut Rng, thorough: bool) -> Scenario {
    let mut ops = Vec::new();
    let mut ids = Ids::new();
    let mut kg = KeyGen::new(rng);
    let mut base = Live::default();
    let mut cfg = gen_cfg(rng);
    cfg.rollback = rng.chance(1, 2);
    cfg.max_len = 100;
    ops.push(Op::Open(cfg.clone()));
    // committed base
    let sz0 = rng.range(1, 80) as usize;
    let b = gen_batch(rng, &mut kg, &base, &BatchSpec { size: sz0, mix: ValueMix::Small, p_delete: 0, p_read: 0, p_rw: 0, p_existing: 0 });
    base.apply(&b);
    ops.extend(commit_ops(ids.s(), ids.c(), b, false));
    let mut ovs: Vec<Ov> = Vec::new();
    let mut marker: Option<u32> = None;
    let mut rb_depth = 1usize;
    if cfg.rollback && rng.chance(1, 2) {
        // a chain A <- B where B blindly rewrites keys that A deleted (and deletes keys A wrote), committed
        // in order, then rolled back one commit at a time: the rollback history of a chain must equal the
        // one of direct commits
        let existing: Vec<Key> = base.map.keys().copied().collect();
        if existing.len() >= 2 {
            let n = (existing.len() / 2).min(6).max(1);
            let mut a: Vec<(Key, Acc)> = existing.iter().take(n).map(|k| (*k, Acc::Write(None))).collect();
            let fresh: Vec<Key> = (0..3).map(|_| kg.key(rng)).collect();
            for k in &fresh {
                a.push((*k, Acc::Write(Some(gen_value(rng, ValueMix::Small)))));
            }
            a.sort_by(|x, y| x.0.cmp(&y.0));
            a.dedup_by(|x, y| x.0 == y.0);
            let mut b: Vec<(Key, Acc)> = existing.iter().take(n).step_by(2).map(|k| (*k, Acc::Write(Some(gen_value(rng, ValueMix::Small))))).collect();
            b.push((fresh[0], Acc::Write(None)));
            b.push((fresh[1], Acc::Write(Some(gen_value(rng, ValueMix::Small)))));
            b.sort_by(|x, y| x.0.cmp(&y.0));
            b.dedup_by(|x, y| x.0 == y.0);
            let (sa, ca, sb, cb) = (ids.s(), ids.c(), ids.s(), ids.c());
            ops.push(Op::Begin { s: sa, chain: vec![], witness: false });
            ops.push(Op::Finish { s: sa, c: ca, batch: a.clone() });
            ops.push(Op::Overlay { c: ca });
            ops.push(Op::Begin { s: sb, chain: vec![ca], witness: false });
            ops.push(Op::Finish { s: sb, c: cb, batch: b.clone() });
            ops.push(Op::Overlay { c: cb });
            ops.push(Op::Commit { c: ca, nb: false });
            ops.push(Op::Commit { c: cb, nb: false });
            ops.push(Op::CheckAll { proofs: 2 });
            ops.push(Op::Rollback(1));
            ops.push(Op::CheckAll { proofs: 2 });
            ops.push(Op::Rollback(1));
            ops.push(Op::CheckAll { proofs: 2 });
            rb_depth = 1;
        }
    }
    let steps = rng.range(4, if thorough { 30 } else { 14 });
    // chain of held, uncommitted ancestors starting at o (nearest first); None if a needed one is gone
    fn chain_of(ovs: &[Ov], o: u32) -> (Vec<u32>, bool) {
        let mut out = vec![];
        let mut cur = Some(o);
        let mut complete = true;
        while let Some(c) = cur {
            let ov = ovs.iter().find(|x| x.id == c).unwrap();
            if ov.committed {
                break;
            }
            if !ov.held {
                complete = false;
                break;
            }
            out.push(c);
            cur = ov.parent;
        }
        (out, complete)
    }
    for _ in 0..steps {
        let choice = rng.below(12);
        match choice {
            0..=5 => {
                // new overlay on a random held overlay (or on the committed state)
                let held: Vec<u32> = ovs.iter().filter(|o| o.held && !o.committed).map(|o| o.id).collect();
                let parent = if held.is_empty() || rng.chance(1, 4) { None } else { Some(*rng.pick(&held)) };
                let (mut chain, mut complete) = match parent {
                    None => (vec![], true),
                    Some(p) => chain_of(&ovs, p),
                };
                // sometimes sabotage the chain
                let sabotage = rng.below(8);
                if sabotage == 0 && chain.len() >= 2 {
                    chain.pop(); // incomplete: last one's parent is uncommitted
                    complete = false;
                } else if sabotage == 1 && chain.len() >= 2 {
                    // not an ancestor: replace an element by some other held overlay
                    let others: Vec<u32> = held.iter().copied().filter(|h| !chain.contains(h)).collect();
                    if let Some(o) = others.first() {
                        let n = chain.len();
                        chain[n - 1] = *o;
                        complete = false;
                    }
                }
                let plive = match parent {
                    None => base.clone(),
                    Some(p) => ovs.iter().find(|x| x.id == p).unwrap().live.clone(),
                };
                let s = ids.s();
                ops.push(Op::Begin { s, chain: chain.clone(), witness: false });
                if !complete {
                    // expected to be refused (the model decides); never leave a session behind
                    ops.push(Op::DropS { s });
                    continue;
                }
                let spec = BatchSpec { size: rng.range(1, 40) as usize, mix: ValueMix::Small, p_delete: 35, p_read: 10, p_rw: 30, p_existing: 60 };
                let batch = gen_batch(rng, &mut kg, &plive, &spec);
                for (k, _) in batch.iter().take(4) {
                    ops.push(Op::SRead { s, key: *k });
                }
                if let Some(k) = plive.pick_live(rng) {
                    ops.push(Op::SRead { s, key: k });
                    ops.push(Op::SProve { s, key: k });
                }
                if let Some(k) = plive.pick_ever(rng) {
                    ops.push(Op::SProve { s, key: k });
                }
                let c = ids.c();
                let mut nl = plive.clone();
                nl.apply(&batch);
                ops.push(Op::Finish { s, c, batch });
                ops.push(Op::Overlay { c });
                ovs.push(Ov { id: c, parent: if chain.is_empty() { None } else { Some(chain[0]) }, held: true, committed: false, live: nl });
            }
            6..=8 => {
                // commit an overlay: prefer a committable one, sometimes not
                let held: Vec<u32> = ovs.iter().filter(|o| o.held && !o.committed).map(|o| o.id).collect();
                if held.is_empty() {
                    continue;
                }
                let committable: Vec<u32> = held
                    .iter()
                    .copied()
                    .filter(|h| {
                        let o = ovs.iter().find(|x| x.id == *h).unwrap();
                        match o.parent {
                            None => true,
                            Some(p) => marker == Some(p),
                        }
                    })
                    .collect();
                let c = if !committable.is_empty() && rng.chance(3, 4) { *rng.pick(&committable) } else { *rng.pick(&held) };
                ops.push(Op::Commit { c, nb: rng.chance(1, 4) });
                let o = ovs.iter_mut().find(|x| x.id == c).unwrap();
                o.held = false;
                // whether it succeeded is for the model to say; track optimistically
                let ok_parent = match o.parent {
                    None => true,
                    Some(p) => marker == Some(p),
                };
                if ok_parent {
                    o.committed = true; // may still be stale: generator imprecision is harmless
                    base = o.live.clone();
                    marker = Some(c);
                    rb_depth += 1;
                }
                ops.push(Op::CheckAll { proofs: 3 });
            }
            9 => {
                let held: Vec<u32> = ovs.iter().filter(|o| o.held && !o.committed).map(|o| o.id).collect();
                if let Some(c) = held.first().copied().filter(|_| rng.chance(1, 2)).or(held.last().copied()) {
                    ops.push(Op::DropC { c });
                    ovs.iter_mut().find(|x| x.id == c).unwrap().held = false;
                    ops.push(Op::CheckAll { proofs: 0 });
                }
            }
            10 => {
                // a plain commit on the committed state (invalidates live overlays' bases)
                let spec = BatchSpec { size: rng.range(1, 20) as usize, mix: ValueMix::Small, p_delete: 30, p_read: 0, p_rw: 0, p_existing: 50 };
                let batch = gen_batch(rng, &mut kg, &base, &spec);
                base.apply(&batch);
                ops.extend(commit_ops(ids.s(), ids.c(), batch, false));
                marker = None;
                rb_depth += 1;
            }
            _ => {
                if cfg.rollback && rb_depth > 0 {
                    let n = rng.range(1, rb_depth as u64) as usize;
                    ops.push(Op::Rollback(n));
                    rb_depth = rb_depth.saturating_sub(n);
                    marker = None;
                    ops.push(Op::CheckAll { proofs: 0 });
                }
            }
        }
    }
    ops.push(Op::CheckAll { proofs: 5 });
    Scenario { ops, label: format!("c11 steps={} rb={}", steps, cfg.rollback) }
}

pub fn c12(rng: &mut Rng, _thorough: bool) -> Scenario {
    let mut ops = Vec::new();
    let mut ids = Ids::new();
    let mut kg = KeyGen::new(rng);
    let mut live = Live::default();
    let mut cfg = gen_cfg(rng);
    cfg.rollback = true;
    cfg.max_len = 100;
    ops.push(Op::Open(cfg.clone()));
    let sz0 = rng.range(1, 30) as usize;
    let b = gen_batch(rng, &mut kg, &live, &BatchSpec { size: sz0, mix: ValueMix::Small, p_delete: 0, p_read: 0, p_rw: 0, p_existing: 0 });
    live.apply(&b);
    ops.extend(commit_ops(ids.s(), ids.c(), b, false));
    let rounds = rng.range(1, 4);
    for _ in 0..rounds {
        // a set of competing change sets prepared on the same base
        let n = rng.range(2, 4) as usize;
        let mut cs: Vec<(u32, bool)> = Vec::new(); // (id, is_overlay)
        for _ in 0..n {
            let spec = BatchSpec { size: rng.range(1, 12) as usize, mix: ValueMix::Small, p_delete: 30, p_read: 10, p_rw: 40, p_existing: 60 };
            let batch = gen_batch(rng, &mut kg, &live, &spec);
            let (s, c) = (ids.s(), ids.c());
            ops.push(Op::Begin { s, chain: vec![], witness: false });
            ops.push(Op::Finish { s, c, batch });
            let ov = rng.chance(1, 2);
            if ov {
                ops.push(Op::Overlay { c });
            }
            cs.push((c, ov));
        }
        // sometimes a child overlay on one of the overlays (its fate depends on the parent's)
        let mut child: Option<(u32, u32)> = None;
        if let Some((p, _)) = cs.iter().find(|(_, ov)| *ov).copied() {
            if rng.chance(1, 2) {
                let spec = BatchSpec { size: rng.range(1, 6) as usize, mix: ValueMix::Small, p_delete: 20, p_read: 0, p_rw: 0, p_existing: 50 };
                let batch = gen_batch(rng, &mut kg, &live, &spec);
                let (s, c) = (ids.s(), ids.c());
                ops.push(Op::Begin { s, chain: vec![p], witness: false });
                ops.push(Op::Finish { s, c, batch });
                ops.push(Op::Overlay { c });
                child = Some((c, p));
            }
        }
        // commit them in a random order with random flavours; optionally a rollback in between;
        // optionally with a session alive so that the non-blocking flavour defers
        let mut order = cs.clone();
        for i in (1..order.len()).rev() {
            let j = rng.below(i as u64 + 1) as usize;
            order.swap(i, j);
        }
        let mut deferred: Vec<u32> = vec![];
        for (idx, (c, _)) in order.iter().enumerate() {
            let alive = rng.chance(1, 4);
            let mut sid = 0;
            if alive {
                sid = ids.s();
                ops.push(Op::Begin { s: sid, chain: vec![], witness: false });
            }
            let nb = alive || rng.chance(1, 2);
            ops.push(Op::Commit { c: *c, nb });
            if alive {
                ops.push(Op::DropS { s: sid });
                deferred.push(*c);
            }
            ops.push(Op::CheckAll { proofs: 2 });
            if idx == 0 && rng.chance(1, 4) {
                ops.push(Op::Rollback(1));
                ops.push(Op::CheckAll { proofs: 0 });
            }
        }
        // deferred ones were handed back: try again, blocking
        for c in deferred {
            ops.push(Op::Commit { c, nb: false });
            ops.push(Op::CheckAll { proofs: 0 });
        }
        if let Some((c, p)) = child {
            // a session on the child alone must still be refused unless its parent really committed
            let s = ids.s();
            ops.push(Op::Begin { s, chain: vec![c], witness: false });
            let _ = p;
            ops.push(Op::DropS { s });
            ops.push(Op::Commit { c, nb: false });
            ops.push(Op::CheckAll { proofs: 0 });
        }
        // what do later rollbacks restore?
        let n = rng.range(1, 3) as usize;
        ops.push(Op::Rollback(n));
        ops.push(Op::CheckAll { proofs: 2 });
        // generator does not track the outcome; continue from whatever state (keys by 'ever')
    }
    ops.push(Op::Close);
    ops.push(Op::Open(cfg.clone()));
    ops.push(Op::Rollback(1));
    ops.push(Op::CheckAll { proofs: 0 });
    Scenario { ops, label: format!("c12 rounds={}", rounds) }
}

/// C13: one history, to be run under several configurations (each compared with the model)
pub fn c13_history(rng: &mut Rng, thorough: bool) -> Vec<Op> {
    let mut ops = Vec::new();
    let mut ids = Ids::new();
    let mut kg = KeyGen::new(rng);
    let mut live = Live::default();
    let commits = rng.range(3, if thorough { 10 } else { 6 });
    for j in 0..commits {
        let spec = BatchSpec {
            size: rng.range(20, if thorough { 800 } else { 250 }) as usize,
            mix: ValueMix::Mixed,
            p_delete: 25,
            p_read: 15,
            p_rw: 30,
            p_existing: 50,
        };
        let batch = gen_batch(rng, &mut kg, &live, &spec);
        let (s, c) = (ids.s(), ids.c());
        ops.push(Op::Begin { s, chain: vec![], witness: true });
        // warm-up / preserve-prior hints on an arbitrary subset
        for (k, _) in batch.iter().filter(|_| rng.chance(1, 3)) {
            ops.push(Op::SWarm { s, key: *k });
        }
        for (k, _) in batch.iter().filter(|_| rng.chance(1, 5)) {
            ops.push(Op::SPreserve { s, key: *k });
        }
        live.apply(&batch);
        ops.push(Op::Finish { s, c, batch });
        ops.push(Op::Commit { c, nb: false });
        ops.push(Op::CheckAll { proofs: if j + 1 == commits { 12 } else { 3 } });
    }
    ops
}

/// a b-tree much larger than the smallest leaf cache (1 MiB = 32 shards of 8 leaves), rewritten
/// completely several times: leaf page numbers freed by one commit are reused two commits later,
/// so every cache keyed by page number must be refreshed by the writes
pub fn c13_big_history(rng: &mut Rng, thorough: bool) -> Vec<Op> {
    let mut ops = Vec::new();
    let mut ids = Ids::new();
    let n = rng.range(1100, if thorough { 2400 } else { 1500 }) as usize;
    let mut keys: Vec<Key> = (0..n).map(|_| rng.key()).collect();
    keys.sort();
    keys.dedup();
    let rounds = rng.range(4, if thorough { 8 } else { 5 });
    for j in 0..rounds {
        let mut batch: Vec<(Key, Acc)> = Vec::new();
        for k in &keys {
            if j == 0 || rng.chance(9, 10) {
                batch.push((*k, Acc::Write(Some((rng.range(700, 1200) as usize, rng.next() % 1_000_000)))));
            }
        }
        let (s, c) = (ids.s(), ids.c());
        ops.push(Op::Begin { s, chain: vec![], witness: false });
        // from the second round on, every key of the batch is warmed up first (more than 512 finished
        // warm-ups inside one worker's range: the cap of the queue of warmed-up results); a no-op
        // under configurations without warm-up
        if j >= 1 && j % 2 == 1 {
            for (k, _) in batch.iter() {
                ops.push(Op::SWarm { s, key: *k });
            }
        }
        ops.push(Op::Finish { s, c, batch });
        ops.push(Op::Commit { c, nb: false });
        ops.push(Op::CheckAll { proofs: 4 });
    }
    ops
}

/// xxh3 hash of a merkle page id under the hash-table seed of configuration seed `seed`
/// (Cfg::options puts `seed` little-endian into the first 8 bytes; bitbox reads them big-endian)
fn page_hash(seed: u64, label: &[u8; 32]) -> u64 {
    twox_hash::xxhash3_64::Hasher::oneshot_with_seed(seed.swap_bytes(), label)
}

/// A small hash table (half full) whose seed is chosen ADVERSARIALLY: the root page and one of its
/// 64 child pages (both always stored) start their probe walk at the same bucket and carry the same
/// 7-bit tag, so whichever of the two is allocated second sits behind a bucket that "possibly hits"
/// (sometimes two pairs).  The history reopens the directory twice: a new handle has to find the
/// root page and every other page again by probing.  The results must be those of every other
/// table size and seed (the specification knows neither).
pub fn c13_crowded(rng: &mut Rng, _thorough: bool) -> Scenario {
    use nomt_core::page_id::{ChildPageIndex, ROOT_PAGE_ID};
    // powers of two only: the triangular walk reaches every bucket of such a table, so the 65 pages
    // always fit (in a table of another size a walk covers only part of the buckets and a commit can
    // legitimately fail with bucket exhaustion well below 100 % load - that is C14's business)
    let n = *rng.pick(&[128u32, 128, 256]);
    let root_label = ROOT_PAGE_ID.encode();
    let child_labels: Vec<[u8; 32]> = (0..64u8)
        .map(|i| ROOT_PAGE_ID.child_page_id(ChildPageIndex::new(i).unwrap()).unwrap().encode())
        .collect();
    let start = rng.next() % 1_000_000_000;
    let mut seed = start;
    let mut best = (0usize, start);
    for t in 0..400_000u64 {
        let s = start + t;
        let hr = page_hash(s, &root_label);
        let hits = child_labels
            .iter()
            .filter(|l| {
                let h = page_hash(s, l);
                h >> 57 == hr >> 57 && h % n as u64 == hr % n as u64
            })
            .count();
        if hits > best.0 {
            best = (hits, s);
        }
        if hits >= 1 && (t > 50_000 || hits >= 2) {
            seed = s;
            break;
        }
        seed = best.1;
    }
    let mut cfg = gen_cfg(rng);
    cfg.ht = n;
    cfg.seed = seed;
    cfg.rollback = false;
    cfg.segsz = 0;
    cfg.cc = *rng.pick(&[1usize, 2, 4]);
    let mut ops = vec![Op::Open(cfg.clone())];
    let mut ids = Ids::new();
    // two to three keys under every child of the root: 65 stored pages, nothing below them
    let mut keys: Vec<Key> = Vec::new();
    for i in 0..64u8 {
        for _ in 0..rng.range(2, 3) {
            let mut k = rng.key();
            k[0] = (i << 2) | (k[0] & 3);
            keys.push(k);
        }
    }
    keys.sort();
    keys.dedup();
    let first: Vec<(Key, Acc)> = keys.iter().map(|k| (*k, Acc::Write(Some((rng.range(1, 40) as usize, rng.next() % 1_000_000))))).collect();
    ops.extend(commit_ops(ids.s(), ids.c(), first, false));
    ops.push(Op::CheckAll { proofs: 6 });
    ops.push(Op::Close);
    ops.push(Op::Open(cfg.clone()));
    ops.push(Op::CheckAll { proofs: 6 });
    let mut second: Vec<(Key, Acc)> = Vec::new();
    for k in &keys {
        if rng.chance(1, 3) {
            let w = if rng.chance(1, 4) { Acc::Write(None) } else { Acc::Write(Some((rng.range(1, 40) as usize, rng.next() % 1_000_000))) };
            second.push((*k, w));
        }
    }
    ops.extend(commit_ops(ids.s(), ids.c(), second, false));
    ops.push(Op::CheckAll { proofs: 6 });
    ops.push(Op::Close);
    ops.push(Op::Open(cfg.clone()));
    ops.push(Op::CheckAll { proofs: 6 });
    Scenario { ops, label: format!("c13crowded n={} seed={} collisions={}", n, seed, best.0) }
}

/// The reported hash-table occupancy must be the number of stored pages whatever path created and
/// cleared them: an overlay creates stored pages, a second overlay built on the still UNCOMMITTED first
/// one clears some or all of them again, both are committed in order; then close and reopen - the
/// driver compares the occupancy reported before the close with the recount of the new handle.
pub fn c19_overlay_occupancy(rng: &mut Rng, _thorough: bool) -> Scenario {
    let mut ops = Vec::new();
    let mut ids = Ids::new();
    let mut live = Live::default();
    let mut kg = KeyGen::new(rng);
    let mut cfg = gen_cfg(rng);
    cfg.rollback = rng.chance(1, 3);
    cfg.ht = *rng.pick(&[1024u32, 4096, 64000]);
    ops.push(Op::Open(cfg.clone()));
    if rng.chance(1, 2) {
        let sz = rng.range(1, 60) as usize;
        let b = gen_batch(rng, &mut kg, &live, &BatchSpec { size: sz, mix: ValueMix::Small, p_delete: 0, p_read: 0, p_rw: 0, p_existing: 0 });
        live.apply(&b);
        ops.extend(commit_ops(ids.s(), ids.c(), b, false));
    }
    let n = rng.range(20, 400) as usize;
    let mut keys: Vec<Key> = (0..n).map(|_| rng.key()).collect();
    if rng.chance(1, 2) {
        keys.extend(kg.dense(rng, 12, 26));
    }
    keys.sort();
    keys.dedup();
    let a: Vec<(Key, Acc)> = keys.iter().filter(|k| !live.map.contains_key(*k)).map(|k| (*k, Acc::Write(Some(gen_value(rng, ValueMix::Small))))).collect();
    live.apply(&a);
    let (s1, c1) = (ids.s(), ids.c());
    ops.push(Op::Begin { s: s1, chain: vec![], witness: false });
    ops.push(Op::Finish { s: s1, c: c1, batch: a.clone() });
    ops.push(Op::Overlay { c: c1 });
    let all = rng.chance(1, 2);
    let b: Vec<(Key, Acc)> = a.iter().filter(|_| all || rng.chance(2, 3)).map(|(k, _)| (*k, Acc::Write(None))).collect();
    live.apply(&b);
    let (s2, c2) = (ids.s(), ids.c());
    ops.push(Op::Begin { s: s2, chain: vec![c1], witness: false });
    ops.push(Op::Finish { s: s2, c: c2, batch: b });
    ops.push(Op::Overlay { c: c2 });
    ops.push(Op::Commit { c: c1, nb: false });
    ops.push(Op::Commit { c: c2, nb: false });
    ops.push(Op::CheckAll { proofs: 3 });
    ops.push(Op::Close);
    ops.push(Op::Open(cfg.clone()));
    ops.push(Op::CheckAll { proofs: 3 });
    Scenario { ops, label: format!("c19overlay n={} all={}", n, all as u8) }
}

/// Keys that are EXACTLY the smallest / greatest key of a commit worker's region (the regions the real
/// shard_regions reports for the chosen worker count), written, overwritten and deleted in batches
/// that also change unrelated keys on both sides: every key must reach the trie whichever worker's
/// range it closes.
pub fn c02_region_boundaries(rng: &mut Rng, _thorough: bool) -> Scenario {
    let mut ops = Vec::new();
    let mut ids = Ids::new();
    let mut live = Live::default();
    let mut kg = KeyGen::new(rng);
    let mut cfg = gen_cfg(rng);
    cfg.cc = *rng.pick(&[2usize, 2, 3, 4, 8, 64]);
    cfg.rollback = false;
    ops.push(Op::Open(cfg.clone()));
    let regions = nomt::verif_api::shard_regions(cfg.cc);
    let mut edges: Vec<Key> = Vec::new();
    for (lo, hi, _) in &regions {
        edges.push(*lo);
        edges.push(*hi);
    }
    edges.sort();
    edges.dedup();
    let sz0 = rng.range(3, 60) as usize;
    let b0 = gen_batch(rng, &mut kg, &live, &BatchSpec { size: sz0, mix: ValueMix::Small, p_delete: 0, p_read: 0, p_rw: 0, p_existing: 0 });
    live.apply(&b0);
    ops.extend(commit_ops(ids.s(), ids.c(), b0, false));
    ops.push(Op::CheckAll { proofs: 2 });
    for round in 0..3 {
        let sz = rng.range(0, 12) as usize;
        let mut b = gen_batch(rng, &mut kg, &live, &BatchSpec { size: sz, mix: ValueMix::Small, p_delete: 20, p_read: 0, p_rw: 30, p_existing: 40 });
        for e in &edges {
            if rng.chance(2, 3) {
                let w = if round == 2 && rng.chance(1, 2) { Acc::Write(None) } else { Acc::Write(Some(gen_value(rng, ValueMix::Small))) };
                b.retain(|x| x.0 != *e);
                b.push((*e, w));
            }
        }
        b.sort_by(|a, b| a.0.cmp(&b.0));
        b.dedup_by(|a, b| a.0 == b.0);
        if b.is_empty() {
            continue;
        }
        live.apply(&b);
        ops.extend(commit_ops(ids.s(), ids.c(), b, rng.chance(1, 3)));
        ops.push(Op::CheckAll { proofs: 4 });
    }
    Scenario { ops, label: format!("c02edges cc={} edges={}", cfg.cc, edges.len()) }
}

pub fn c13_cfgs(rng: &mut Rng, n: usize) -> Vec<Cfg> {
    let mut v = Vec::new();
    for i in 0..n {
        let mut c = gen_cfg(rng);
        c.cc = [1usize, 2, 3, 4, 8, 16, 64, 5][i % 8];
        c.sha2 = i % 4 == 3;
        c.rollback = i % 2 == 0;
        c.ht = *rng.pick(&[4096u32, 64000, 30000]);
        v.push(c);
    }
    v
}

pub fn generate(prop: &str, rng: &mut Rng, thorough: bool) -> Vec<Scenario> {
    match prop {
        "C01" => vec![match rng.below(8) {
            0 => c01_prefix_tail(rng, thorough),
            1 => c01_clusters(rng, thorough),
            2 => c01_zero_prefix(rng, thorough),
            3 => c01_first_leaf(rng, thorough),
            4 => c01_worker_edges(rng, thorough),
            _ => c01(rng, thorough),
        }],
        "C02" => vec![if rng.chance(1, 5) { c02_region_boundaries(rng, thorough) } else { c02(rng, thorough) }],
        "C05" => vec![c05(rng, thorough)],
        "C06" => vec![c06(rng, thorough)],
        "C09" => vec![if rng.chance(1, 10) { c09_cold_prior(rng, thorough) } else { c09(rng, thorough) }],
        "C10" => vec![if rng.chance(1, 6) { c13_crowded(rng, thorough) } else { c10(rng, thorough) }],
        "C11" => vec![c11(rng, thorough)],
        "C12" => vec![if rng.chance(1, 3) { c12_aba(rng, thorough) } else { c12(rng, thorough) }],
        "C19" => vec![c19_overlay_occupancy(rng, thorough)],
        "C13" => {
            let h = c13_history(rng, thorough);
            let mut v: Vec<Scenario> = c13_cfgs(rng, if thorough { 8 } else { 4 })
                .into_iter()
                .map(|c| {
                    let mut ops = vec![Op::Open(c.clone())];
                    ops.extend(h.iter().cloned());
                    Scenario { ops, label: format!("c13 {}", c.to_line()) }
                })
                .collect();
            // every third history: full leaves changed at leaf boundaries, under 2..8 workers
            if rng.chance(1, 3) {
                let sc = c01_worker_edges(rng, thorough);
                let hist: Vec<Op> = sc.ops.iter().skip(1).cloned().collect();
                for cc in [2usize, 3, 4, 8] {
                    let mut c = gen_cfg(rng);
                    c.cc = cc;
                    c.rollback = false;
                    let mut ops = vec![Op::Open(c.clone())];
                    ops.extend(hist.iter().cloned());
                    v.push(Scenario { ops, label: format!("c13edges {}", c.to_line()) });
                }
            }
            // every fourth history: keys that are exactly the edges of the workers' regions
            if rng.chance(1, 4) {
                v.push(c02_region_boundaries(rng, thorough));
            }
            // every third history: a crowded little hash table with an adversarial seed, reopened
            if rng.chance(1, 3) {
                v.push(c13_crowded(rng, thorough));
            }
            // every fourth history (every second in the thorough tier): the large-tree flavour
            // under the smallest caches
            if rng.chance(1, if thorough { 2 } else { 4 }) {
                let hb = c13_big_history(rng, thorough);
                for cc in [1usize, *rng.pick(&[2usize, 4, 8])] {
                    let mut c = gen_cfg(rng);
                    c.cc = cc;
                    c.lc = 1;
                    c.pc = *rng.pick(&[1usize, 2]);
                    c.ht = 64000;
                    c.rollback = cc == 1;
                    c.warm = cc == 1 || rng.chance(1, 2);
                    let mut ops = vec![Op::Open(c.clone())];
                    ops.extend(hb.iter().cloned());
                    v.push(Scenario { ops, label: format!("c13big {}", c.to_line()) });
                }
            }
            v
        }
        _ => panic!("no sys scenarios for {}", prop),
    }
}
