//! E-lock (C20): one directory has at most one live handle.
//!
//! In-process double opens, racing opens from several processes on missing / empty / existing
//! directories, and every way the first handle can end (drop, poisoned then drop, panic, kill).
//! Refused openers run with the observer preloaded: their event trace must not contain a mutating
//! event on anything but the lock file.

use crate::gen::*;
use crate::io::{copy_dir, parse_log, Event};
use crate::json::J;
use crate::sys::{Acc, Cfg};
use crate::util::{fresh_dir, hex, value_bytes, Key, Rng};
use nomt::hasher::Blake3Hasher;
use nomt::{KeyReadWrite, Nomt, SessionParams};
use std::collections::{BTreeMap, HashMap};
use std::path::{Path, PathBuf};
use std::process::{Command, Stdio};
use std::time::{Duration, SystemTime, UNIX_EPOCH};

type H = Blake3Hasher;

fn now_us() -> u128 {
    SystemTime::now().duration_since(UNIX_EPOCH).unwrap().as_micros()
}

fn digest_dir(dir: &Path) -> BTreeMap<String, (u64, [u8; 32])> {
    let mut m = BTreeMap::new();
    if let Ok(rd) = std::fs::read_dir(dir) {
        for e in rd.flatten() {
            let p = e.path();
            if p.is_file() {
                let name = e.file_name().to_string_lossy().to_string();
                if name == ".lock" {
                    continue;
                }
                let data = std::fs::read(&p).unwrap_or_default();
                m.insert(name, (data.len() as u64, crate::model::digest(&data)));
            }
        }
    }
    m
}

fn commit_some(db: &Nomt<H>, rng: &mut Rng, n: usize) -> anyhow::Result<()> {
    let sess = db.begin_session(SessionParams::default());
    let mut b: Vec<(Key, KeyReadWrite)> = (0..n).map(|_| (rng.key(), KeyReadWrite::Write(Some(value_bytes(rng.below(200) as usize, rng.next()))))).collect();
    b.sort_by(|a, b| a.0.cmp(&b.0));
    b.dedup_by(|a, b| a.0 == b.0);
    sess.finish(b)?.commit(db)
}

/// child: wait for the start time, try to open, hold, commit, drop. Prints one line.
pub fn lockchild_main(dir: &str, cfgline: &str, start_us: &str, hold_ms: &str, how: &str) -> i32 {
    let dir = PathBuf::from(dir);
    let cfg = Cfg::parse(cfgline);
    let start: u128 = start_us.parse().unwrap();
    while now_us() < start {
        std::hint::spin_loop();
    }
    let t0 = now_us();
    let r = std::panic::catch_unwind(|| Nomt::<H>::open(cfg.options(&dir)));
    let t1 = now_us();
    use std::io::Write;
    match r {
        Ok(Ok(db)) => {
            println!("WIN {} {}", t0, t1);
            std::io::stdout().flush().ok();
            let mut rng = Rng::new(t1 as u64);
            if how == "unwind" {
                // a commit that FAILS early (the 64-bucket hash table cannot take the pages) while the
                // value store still has tens of megabytes of page writes queued; the owner then
                // panics, the panic is caught: the handle is gone, the process lives on
                let prev = std::panic::take_hook();
                std::panic::set_hook(Box::new(|_| {}));
                let r = std::panic::catch_unwind(std::panic::AssertUnwindSafe(move || {
                    let sess = db.begin_session(SessionParams::default());
                    let mut b: Vec<(Key, KeyReadWrite)> = (0..400).map(|i| (rng.key(), KeyReadWrite::Write(Some(value_bytes(100_000, i as u64))))).collect();
                    b.sort_by(|a, b| a.0.cmp(&b.0));
                    let res = sess.finish(b).and_then(|f| f.commit(&db));
                    println!("UNWIND commit={}", if res.is_ok() { "ok" } else { "err" });
                    std::io::stdout().flush().ok();
                    if res.is_err() {
                        panic!("{}", "the owner of the handle gives up");
                    }
                    drop(db);
                }));
                std::panic::set_hook(prev);
                println!("UNWOUND {} panicked={}", now_us(), r.is_err() as u8);
                std::io::stdout().flush().ok();
                std::thread::sleep(Duration::from_millis(400));
                return 0;
            }
            let c = commit_some(&db, &mut rng, 5);
            std::thread::sleep(Duration::from_millis(hold_ms.parse().unwrap()));
            match how {
                "panic" => {
                    println!("PANICKING {}", now_us());
                    std::io::stdout().flush().ok();
                    panic!("holder panics");
                }
                "hang" => {
                    println!("READY {}", now_us());
                    std::io::stdout().flush().ok();
                    std::thread::sleep(Duration::from_secs(30));
                }
                _ => {}
            }
            let poisoned = db.is_poisoned();
            drop(db);
            println!("RELEASED {} commit={} poisoned={}", now_us(), if c.is_ok() { "ok" } else { "err" }, poisoned as u8);
            if how == "reopen" {
                // the same process opens again right after the drop
                let r2 = Nomt::<H>::open(cfg.options(&dir));
                println!("REOPEN {}", if r2.is_ok() { "ok".to_string() } else { format!("err {:#}", r2.err().unwrap()).replace('\n', " ") });
            }
            0
        }
        Ok(Err(e)) => {
            println!("LOSE {} {} {}", t0, t1, format!("{:#}", e).replace('\n', " "));
            0
        }
        Err(_) => {
            println!("PANIC {} {}", t0, t1);
            0
        }
    }
}

struct Child {
    out: String,
    code: Option<i32>,
    events: Vec<Event>,
}

fn spawn_children(dir: &Path, cfg: &Cfg, n: usize, hold_ms: u64, hows: &[&str], modes: &[(&str, i64)], tag: &str) -> Vec<Child> {
    let exe = std::env::current_exe().unwrap();
    let start = now_us() + 120_000; // 120 ms from now
    let logs: Vec<PathBuf> = (0..n).map(|i| fresh_dir(&format!("locklog-{}-{}", tag, i))).collect();
    let mut kids = Vec::new();
    for i in 0..n {
        std::fs::create_dir_all(&logs[i]).unwrap();
        let mut c = Command::new("timeout");
        c.arg("60")
            .arg(&exe)
            .arg("lockchild")
            .arg(dir)
            .arg(cfg.to_line())
            .arg(start.to_string())
            .arg(hold_ms.to_string())
            .arg(hows.get(i).copied().unwrap_or("drop"))
            .env("LD_PRELOAD", "/verif/.cache/shim.so")
            .env("NOMT_VERIF_DIR", dir)
            .env("NOMT_VERIF_LOG", logs[i].join("ev.log"))
            .env("NOMT_VERIF_ARMED", "1")
            .env("NOMT_VERIF_MODE", modes.get(i).map(|m| m.0).unwrap_or("record"))
            .env("NOMT_VERIF_AT", modes.get(i).map(|m| m.1).unwrap_or(-1).to_string())
            .env("RUST_BACKTRACE", "0")
            .stdout(Stdio::piped())
            .stderr(Stdio::null());
        kids.push(c.spawn().expect("spawn lockchild"));
    }
    let mut res = Vec::new();
    for (i, k) in kids.into_iter().enumerate() {
        let o = k.wait_with_output().unwrap();
        res.push(Child { out: String::from_utf8_lossy(&o.stdout).to_string(), code: o.status.code(), events: parse_log(&logs[i].join("ev.log")) });
        let _ = std::fs::remove_dir_all(&logs[i]);
    }
    res
}

fn mutating_non_lock(evs: &[Event]) -> Vec<String> {
    evs.iter()
        .filter(|e| ["W", "UW", "T", "A", "S", "D", "U", "N", "C"].contains(&e.kind.as_str()))
        .filter(|e| e.path != ".lock")
        .map(|e| format!("{} {} {}", e.kind, e.path, e.off))
        .collect()
}

pub struct LockOut {
    pub cases: usize,
    pub nontrivial: usize,
    pub violations: Vec<(String, String, String)>,
    pub stats: BTreeMap<String, usize>,
    pub samples: Vec<String>,
}

fn prepare_existing(dir: &Path, cfg: &Cfg, rng: &mut Rng) {
    let db = Nomt::<H>::open(cfg.options(&dir.to_path_buf())).expect("prepare");
    for _ in 0..2 {
        commit_some(&db, rng, 20).unwrap();
    }
    drop(db);
}

/// number of threads of this process whose name is `name` (the I/O workers of a handle are named
/// "io-worker"; a handle joins them before it lets go of the directory lock)
fn threads_named(name: &str) -> usize {
    let mut n = 0;
    if let Ok(rd) = std::fs::read_dir("/proc/self/task") {
        for e in rd.filter_map(|e| e.ok()) {
            if let Ok(c) = std::fs::read_to_string(e.path().join("comm")) {
                if c.trim() == name {
                    n += 1;
                }
            }
        }
    }
    n
}

/// A handle that ends inside this process - dropped normally, or by a panic that unwinds through its
/// owner - must have stopped its background I/O workers by the time it is gone: none of them may be
/// left, and the directory opens again at once.
fn run_ending_in_process(rng: &mut Rng, dir: &PathBuf, cfg: &Cfg, out: &mut LockOut) {
    std::fs::create_dir_all(dir).unwrap();
    prepare_existing(dir, cfg, rng);
    for by_panic in [false, true] {
        let base = threads_named("io-worker");
        let mut r2 = rng.fork();
        let (d2, c2) = (dir.clone(), cfg.clone());
        let prev = std::panic::take_hook();
        std::panic::set_hook(Box::new(|_| {}));
        let res = std::panic::catch_unwind(std::panic::AssertUnwindSafe(move || {
            let db = Nomt::<H>::open(c2.options(&d2)).expect("open");
            let during = threads_named("io-worker");
            commit_some(&db, &mut r2, 30).unwrap();
            if by_panic {
                panic!("the owner of the handle panics");
            }
            drop(db);
            during
        }));
        std::panic::set_hook(prev);
        // a store can outlive its handle by a few milliseconds (a background thread of the handle may hold
        // the last reference: the known finding of this property); workers that are still there after
        // two seconds are not going to finish
        let mut after = threads_named("io-worker");
        let t0 = std::time::Instant::now();
        while after > base && t0.elapsed() < Duration::from_secs(2) {
            std::thread::sleep(Duration::from_millis(20));
            after = threads_named("io-worker");
        }
        *out.stats.entry(if by_panic { "end-in-process-panic".to_string() } else { "end-in-process-drop".to_string() }).or_default() += 1;
        if res.is_ok() == by_panic {
            out.violations.push(("harness".into(), format!("in-process ending: unexpected outcome (panic expected: {})", by_panic), String::new()));
        }
        if after > base {
            out.violations.push((
                "c20-io-workers-outlive-handle".into(),
                format!("{} I/O worker thread(s) of a handle that ended by {} are still alive two seconds after the handle is gone (before the open: {}, after: {}): background writers of the old handle have not finished", after - base, if by_panic { "an unwinding panic" } else { "drop" }, base, after),
                format!("cfg {}", cfg.to_line()),
            ));
        }
        match Nomt::<H>::open(cfg.options(dir)) {
            Ok(db) => {
                out.nontrivial += 1;
                drop(db);
            }
            Err(e) => out.violations.push(("c20-reopen-after-in-process-ending".into(), format!("the directory cannot be opened after its handle ended by {}: {:#}", if by_panic { "a panic" } else { "drop" }, e), format!("cfg {}", cfg.to_line()))),
        }
    }
}

pub fn run_lock_case(rng: &mut Rng, idx: usize, out: &mut LockOut) {
    let mut cfg = gen_cfg(rng);
    cfg.ht = 1024;
    cfg.rollback = rng.chance(1, 2);
    let kind = idx % 8;
    let dir = fresh_dir(&format!("lock-{}", idx));
    let bump = |o: &mut LockOut, k: &str| *o.stats.entry(k.to_string()).or_default() += 1;
    out.cases += 1;
    match kind {
        6 => run_ending_in_process(rng, &dir, &cfg, out),
        7 => {
            // the handle ends by a CAUGHT panic right after a commit that failed early with page writes
            // still queued: nothing may be written to the store files after the directory lock is let go
            let mut c2 = cfg.clone();
            c2.ht = 64;
            c2.rollback = false;
            let kids = spawn_children(&dir, &c2, 1, 0, &["unwind"], &[], &format!("{}", idx));
            let k = &kids[0];
            bump(out, "end-caught-panic-with-queued-writes");
            if !k.out.contains("UNWOUND") {
                out.violations.push(("c20-child".into(), format!("the holder did not finish: {:?} {}", k.code, k.out.replace('\n', " | ")), String::new()));
            } else if k.out.contains("commit=err") {
                let unlock = k.events.iter().rposition(|e| e.kind == "K" && e.path == ".lock");
                match unlock {
                    None => out.violations.push(("c20-child".into(), "the holder's trace has no close of the lock file".into(), String::new())),
                    Some(u) => {
                        let late: Vec<String> = k.events[u + 1..].iter().filter(|e| ["W", "UW", "T", "A"].contains(&e.kind.as_str()) && e.path != ".lock").map(|e| format!("{} {} {}", e.kind, e.path, e.off)).collect();
                        let before = k.events[..u].iter().filter(|e| e.kind == "UW").count();
                        bump(out, if before > 0 { "end-caught-panic-page-writes-before-unlock" } else { "end-caught-panic-no-page-writes" });
                        if !late.is_empty() {
                            out.violations.push((
                                "c20-writes-after-lock-release".into(),
                                format!("a handle that ended by a caught panic after a failed commit let go of the directory lock while its background writers were still at work: {} write event(s) on the store files AFTER the lock file was closed, the first: {:?}", late.len(), &late[..late.len().min(3)]),
                                format!("cfg {}", c2.to_line()),
                            ));
                        } else {
                            out.nontrivial += 1;
                        }
                    }
                }
            }
        }
        0 => {
            // in-process: second open while the first is alive, then reopen after drop
            std::fs::create_dir_all(&dir).unwrap();
            prepare_existing(&dir, &cfg, rng);
            let a = Nomt::<H>::open(cfg.options(&dir)).expect("first open");
            let flavour = rng.below(4);
            let label = ["no-session", "finished-session", "dropped-session", "dropped-session-warmup"][flavour as usize];
            let mut cfg2 = cfg.clone();
            match flavour {
                1 => commit_some(&a, rng, 4).unwrap(),
                2 | 3 => {}
                _ => {}
            }
            let a = if flavour == 3 && !cfg.warm {
                drop(a);
                cfg2.warm = true;
                Nomt::<H>::open(cfg2.options(&dir)).expect("first open (warm)")
            } else {
                a
            };
            let before = digest_dir(&dir);
            let mut refused = 0;
            for _ in 0..3 {
                match std::panic::catch_unwind(|| Nomt::<H>::open(cfg.options(&dir))) {
                    Ok(Err(_)) => refused += 1,
                    Ok(Ok(_)) => out.violations.push(("c20-two-handles-in-process".into(), format!("a second open of {} in the same process succeeded while the first handle was alive ({})", dir.display(), label), format!("in-process double open, cfg {}", cfg.to_line()))),
                    Err(_) => out.violations.push(("c20-refused-open-panics".into(), "second open panicked".into(), format!("cfg {}", cfg.to_line()))),
                }
            }
            if digest_dir(&dir) != before {
                out.violations.push(("c20-refused-open-modifies".into(), "a refused open in the same process modified a file of the directory".into(), format!("cfg {}", cfg.to_line())));
            }
            if flavour >= 2 {
                // a session that is dropped without being finished, right before the handle
                let s = a.begin_session(SessionParams::default());
                let _ = s.read(rng.key());
                s.warm_up(rng.key());
                let _ = s.prove(rng.key());
                drop(s);
            }
            drop(a);
            // the directory can be opened again at once
            let r = Nomt::<H>::open(cfg.options(&dir));
            bump(out, &format!("inproc-{}", label));
            if refused == 3 {
                out.nontrivial += 1;
            }
            if let Err(e) = r {
                let msg = format!("{:#}", e);
                // how long does it stay busy?
                let t0 = std::time::Instant::now();
                let mut ok = false;
                while t0.elapsed() < Duration::from_secs(3) {
                    if Nomt::<H>::open(cfg.options(&dir)).is_ok() {
                        ok = true;
                        break;
                    }
                    std::thread::sleep(Duration::from_millis(2));
                }
                // the handle that was dropped had warm-up enabled either by the generated configuration
                // or by flavour 3: same situation, same signature
                let warm_handle = cfg.warm || (flavour == 3);
                let sig = if flavour >= 2 && warm_handle { "c20-reopen-busy-after-dropped-warmup-session" } else { "c20-reopen-busy-after-drop" };
                out.violations.push((sig.into(), format!("after dropping the session ({}) and then the handle, an immediate open in the same process fails: {}; it {} after {} ms", label, msg, if ok { "succeeds" } else { "still fails" }, t0.elapsed().as_millis()), format!("in-process: open (warm_up={}), begin_session, read, warm_up, drop(session), drop(handle), open  -- cfg {}", cfg2.warm, cfg2.to_line())));
            }
        }
        1 | 2 | 3 => {
            // racing processes on a missing / empty / existing directory
            let state = ["missing", "empty", "existing"][kind - 1];
            match kind {
                2 => std::fs::create_dir_all(&dir).unwrap(),
                3 => {
                    std::fs::create_dir_all(&dir).unwrap();
                    prepare_existing(&dir, &cfg, rng);
                }
                _ => {}
            }
            let n = rng.range(2, 6) as usize;
            let kids = spawn_children(&dir, &cfg, n, 150, &[], &[], &format!("{}", idx));
            let mut intervals: Vec<(u128, u128)> = Vec::new();
            let mut wins = 0;
            for k in &kids {
                let mut open_end = None;
                for l in k.out.lines() {
                    let t: Vec<&str> = l.split(' ').collect();
                    match t[0] {
                        "WIN" => {
                            wins += 1;
                            open_end = Some(t[2].parse::<u128>().unwrap());
                        }
                        "RELEASED" => {
                            if let Some(s) = open_end {
                                intervals.push((s, t[1].parse().unwrap()));
                            }
                        }
                        "LOSE" => {
                            let m = mutating_non_lock(&k.events);
                            if !m.is_empty() {
                                out.violations.push(("c20-refused-open-modifies".into(), format!("a refused opener ({} directory) performed mutating file operations: {:?}", state, &m[..m.len().min(6)]), format!("{} racing processes on a {} directory, cfg {}", n, state, cfg.to_line())));
                            }
                        }
                        "PANIC" => out.violations.push(("c20-open-panics".into(), format!("an opener panicked on a {} directory", state), format!("{} racing processes, cfg {}", n, cfg.to_line()))),
                        _ => {}
                    }
                }
                if k.code != Some(0) {
                    out.violations.push(("c20-child".into(), format!("racing child exit {:?}: {}", k.code, k.out.replace('\n', " | ")), format!("{} racing processes on a {} directory, cfg {}", n, state, cfg.to_line())));
                }
            }
            intervals.sort();
            for w in intervals.windows(2) {
                if w[1].0 < w[0].1 {
                    out.violations.push(("c20-two-live-handles".into(), format!("two processes held a handle on the {} directory at the same time: [{}..{}] and [{}..{}] (us)", state, w[0].0, w[0].1, w[1].0, w[1].1), format!("{} racing processes on a {} directory, cfg {}", n, state, cfg.to_line())));
                }
            }
            if wins == 0 {
                out.violations.push(("c20-nobody-wins".into(), format!("none of {} racing openers of a {} directory succeeded: {}", n, state, kids.iter().map(|k| k.out.replace('\n', " | ")).collect::<Vec<_>>().join(" || ")), format!("cfg {}", cfg.to_line())));
            }
            bump(out, &format!("race-{}-{}procs-{}wins", state, n, wins));
            if wins >= 1 && kids.len() - wins >= 1 {
                out.nontrivial += 1;
            }
            // afterwards the directory opens and holds what the winners committed
            if let Err(e) = Nomt::<H>::open(cfg.options(&dir)) {
                out.violations.push(("c20-open-after-race".into(), format!("after the race on a {} directory it cannot be opened: {:#}", state, e), format!("cfg {}", cfg.to_line())));
            }
        }
        _ => {
            // how the first handle ends: panic, kill, poisoned-then-drop, drop-then-reopen in the same process
            std::fs::create_dir_all(&dir).unwrap();
            prepare_existing(&dir, &cfg, rng);
            let how = *rng.pick(&["panic", "kill", "poison", "reopen"]);
            bump(out, &format!("end-{}", how));
            let exe = std::env::current_exe().unwrap();
            match how {
                "kill" => {
                    let mut c = Command::new(&exe)
                        .arg("lockchild").arg(&dir).arg(cfg.to_line()).arg("0").arg("0").arg("hang")
                        .stdout(Stdio::piped()).stderr(Stdio::null()).spawn().unwrap();
                    // wait for READY
                    use std::io::{BufRead, BufReader};
                    let mut rd = BufReader::new(c.stdout.take().unwrap());
                    let mut l = String::new();
                    let mut ready = false;
                    for _ in 0..6 {
                        l.clear();
                        if rd.read_line(&mut l).unwrap_or(0) == 0 { break; }
                        if l.starts_with("READY") { ready = true; break; }
                    }
                    // while it is alive, we must be refused
                    let refused = Nomt::<H>::open(cfg.options(&dir)).is_err();
                    unsafe { libc::kill(c.id() as i32, libc::SIGKILL) };
                    let _ = c.wait();
                    if ready && !refused {
                        out.violations.push(("c20-two-live-handles".into(), "opened the directory while another process held a live handle".into(), format!("cfg {}", cfg.to_line())));
                    }
                    if let Err(e) = Nomt::<H>::open(cfg.options(&dir)) {
                        out.violations.push(("c20-reopen-after-kill".into(), format!("after the holder was killed the directory cannot be opened: {:#}", e), format!("cfg {}", cfg.to_line())));
                    } else if ready {
                        out.nontrivial += 1;
                    }
                }
                _ => {
                    let modes: Vec<(&str, i64)> = if how == "poison" { vec![("fail", rng.range(12, 40) as i64)] } else { vec![] };
                    let kids = spawn_children(&dir, &cfg, 1, 20, &[if how == "poison" { "reopen" } else { how }], &modes, &format!("{}", idx));
                    let k = &kids[0];
                    if how == "panic" && !k.out.contains("PANICKING") {
                        out.violations.push(("c20-child".into(), format!("holder did not reach its panic: {}", k.out.replace('\n', " | ")), String::new()));
                    }
                    if (how == "reopen" || how == "poison") && k.out.contains("REOPEN err") {
                        let poisoned = k.out.contains("poisoned=1");
                        out.violations.push((if poisoned { "c20-reopen-busy-after-poisoned-drop".into() } else { "c20-reopen-busy-after-drop".into() }, format!("the process that dropped its handle{} cannot reopen the directory at once: {}", if poisoned { " (poisoned by a failed commit)" } else { "" }, k.out.replace('\n', " | ")), format!("cfg {}", cfg.to_line())));
                    }
                    if let Err(e) = Nomt::<H>::open(cfg.options(&dir)) {
                        out.violations.push(("c20-reopen-after-end".into(), format!("after the holder ended by {} the directory cannot be opened: {:#}", how, e), format!("cfg {}", cfg.to_line())));
                    } else {
                        out.nontrivial += 1;
                    }
                    if out.samples.len() < 3 {
                        out.samples.push(format!("{}: {}", how, k.out.replace('\n', " | ")));
                    }
                }
            }
        }
    }
    let _ = std::fs::remove_dir_all(&dir);
}

pub fn cmd_lock(kv: &HashMap<String, String>) -> i32 {
    let prop = kv.get("prop").cloned().unwrap_or_else(|| "C20".into());
    let seed: u64 = kv.get("seed").and_then(|s| s.parse().ok()).unwrap_or(1);
    let n: usize = kv.get("n").and_then(|s| s.parse().ok()).unwrap_or(24);
    let out_path = kv.get("out").cloned().expect("--out");
    let replay_dir = kv.get("replays").cloned().unwrap_or_else(|| format!("/verif/replays/{}", prop));
    // stale replays are removed by tools/check before the engines of a run start
    std::fs::create_dir_all(&replay_dir).ok();
    let t0 = std::time::Instant::now();
    let mut rng = Rng::new(seed);
    let mut out = LockOut { cases: 0, nontrivial: 0, violations: vec![], stats: BTreeMap::new(), samples: vec![] };
    // racing cases use wall-clock rendez-vous, so they run one after another
    for i in 0..n {
        let mut r = rng.fork();
        let res = std::panic::catch_unwind(std::panic::AssertUnwindSafe(|| run_lock_case(&mut r, i, &mut out)));
        if res.is_err() {
            out.violations.push(("harness".into(), format!("harness panic in lock case {}", i), String::new()));
        }
    }
    let mut viol = Vec::new();
    for (i, (sig, detail, replay)) in out.violations.iter().enumerate() {
        let path = format!("{}/{}-lock-seed{}-{}.txt", replay_dir, prop, seed, i);
        std::fs::write(&path, format!("# property {} sig {}\n# {}\n{}\n", prop, sig, detail, replay)).unwrap();
        viol.push(J::obj(vec![("replay", J::s(path)), ("sig", J::s(sig.clone())), ("kind", J::s(sig.clone())), ("detail", J::s(detail.clone()))]));
    }
    let j = J::obj(vec![
        ("engine", J::s("lock")),
        ("property", J::s(prop)),
        ("evaluations", J::Int(out.cases as i64)),
        ("distinct_nontrivial", J::Int(out.nontrivial as i64)),
        ("rule", J::s("one evaluation = one scenario: in-process double open (4 session flavours), 2-6 processes racing to open a missing / empty / existing directory at a common start time (handle lifetimes must be disjoint, refused openers' I/O traces must not mutate anything but the lock file), or a holder ending by panic / SIGKILL / poisoned-then-drop / drop followed by an immediate reopen; non-trivial = at least one refusal and one success observed, or the reopen after the ending succeeded")),
        ("stats", J::Obj(out.stats.iter().map(|(k, v)| (k.clone(), J::Int(*v as i64))).collect())),
        ("samples", J::Arr(out.samples.iter().map(|s| J::s(s.clone())).chain(std::iter::once(J::s("race: N children spin until a common start time, then Nomt::open; WIN/LOSE lines with microsecond timestamps"))).collect())),
        ("violations", J::Arr(viol.clone())),
        ("wall_s", J::Num(t0.elapsed().as_secs_f64())),
    ]);
    std::fs::write(&out_path, j.to_string()).unwrap();
    if viol.is_empty() { 0 } else { 1 }
}

#[allow(dead_code)]
fn _unused(_: Acc, _: &dyn Fn(&Path, &Path)) {
    let _ = (copy_dir as fn(&Path, &Path), hex as fn(&[u8]) -> String);
}
