//! E-trace (C17, C03, C04): evaluate the proved sync-protocol monitor on the I/O traces of the real
//! implementation.
//!
//! A generated history (several commits / rollbacks / reopenings in ONE child process) runs under the
//! observer (tools/shim.c) with payload spooling; every commit / rollback is an armed window. The
//! event log is translated into the event alphabet of coq/theories/SyncProto.v and written, together
//! with one instance description per window, into a history file; the extracted Coq code
//! (ocaml/sync_cmds.ml: `synccheck`) replays the whole file through `dstep` and evaluates, for every
//! window, `SyncGlue.explain` (= `SyncProto.discipline` with a verdict), `start_okb`, `inst_okb` and
//! `wal_safeb`: the hypotheses of `powerloss_atomic`, `crash_atomic`, `old_image_intact`.
//!
//! Translation (this file, deliberately free of any knowledge about the protocol):
//!   * files meta wal ht ln bbn are tracked, everything else (lock, rollback segments, directory) is
//!     dropped;
//!   * `W` (write/pwrite that returned n > 0) -> one `EW` per 4 KiB page touched, placed where the call
//!     RETURNED; `UW` (io_uring submission) -> `ES` where it was submitted; `UC` -> `EC`;
//!     `T` (ftruncate returned 0) -> `ET` with the length in pages rounded up; `S`/`D` (returned 0) ->
//!     `EF` where the call returned;
//!   * content ids: one id per distinct 4 KiB content, interned exactly (no hashing); 0 = zero page;
//!   * the pre-window contents of the files are reconstructed from the (empty) starting directory
//!     plus the trace; the reconstruction is compared with the real files when the child has exited.

use crate::gen::*;
use crate::io::{gen_io_scenario, IoScenario};
use crate::json::J;
use crate::model::Model;
use crate::sys::{script_to_text, Acc, Cfg, Op};
use crate::util::{fresh_dir, Key, Rng};
use std::collections::{BTreeMap, HashMap};
use std::path::{Path, PathBuf};

const PAGE: u64 = 4096;
const FILES: [&str; 5] = ["meta", "wal", "ht", "ln", "bbn"];

fn tracked(path: &str) -> bool {
    FILES.contains(&path)
}

// ------------------------------------------------------------------------------------------
// histories
// ------------------------------------------------------------------------------------------

pub struct History {
    pub label: String,
    pub ops: Vec<Op>, // every Commit / Rollback wrapped in Arm / Disarm
}

fn arm_wrap(ops: Vec<Op>) -> Vec<Op> {
    let mut out = Vec::with_capacity(ops.len() + 16);
    for o in ops {
        match o {
            Op::Commit { .. } | Op::Rollback(_) => {
                out.push(Op::Arm);
                out.push(o);
                out.push(Op::Disarm);
            }
            o => out.push(o),
        }
    }
    out
}

/// the single-target scenarios of the crash / power-loss engines, as one history in one process
fn history_of_scenario(sc: IoScenario) -> History {
    let mut ops = sc.prefix.clone(); // open .. commits .. close
    ops.push(Op::Open(sc.cfg.clone()));
    ops.extend(sc.prep.iter().cloned());
    ops.extend(sc.target.iter().cloned());
    ops.push(Op::Close);
    History { label: format!("single:{}", sc.label), ops: arm_wrap(ops) }
}

/// 4-10 commits in one process: plain, overlay chains, rollbacks, reopenings
fn gen_multi(rng: &mut Rng, thorough: bool, idx: usize) -> History {
    let mut kg = KeyGen::new(rng);
    let mut live = Live::default();
    let mut cfg = gen_cfg(rng);
    cfg.cc = *rng.pick(&[1usize, 2, 3, 4, 5, 6, 7, 8]);
    cfg.rollback = idx % 2 == 0;
    cfg.max_len = *rng.pick(&[2u32, 3, 100]);
    cfg.ht = *rng.pick(&[1024u32, 4096]);
    cfg.prepop = false;
    let mut ops = vec![Op::Open(cfg.clone())];
    let (mut s, mut c) = (0u32, 0u32);
    let n = rng.range(4, 10);
    let mut committed = 0u32;
    let max_batch = if thorough { 260 } else { 70 };
    let mut kinds: Vec<&str> = Vec::new();
    let batch = |rng: &mut Rng, kg: &mut KeyGen, live: &mut Live| -> Vec<(Key, Acc)> {
        let sz = if rng.chance(1, 6) { rng.range(1, 3) } else { rng.range(1, max_batch) } as usize;
        let mix = if rng.chance(1, 4) { ValueMix::Boundary } else { ValueMix::Mixed };
        let b = gen_batch(rng, kg, live, &BatchSpec { size: sz, mix, p_delete: 25, p_read: 5, p_rw: 25, p_existing: 55 });
        live.apply(&b);
        b
    };
    for _ in 0..n {
        let k = rng.below(10);
        if k < 6 || committed == 0 {
            let b = batch(rng, &mut kg, &mut live);
            s += 1;
            c += 1;
            ops.extend(commit_ops(s, c, b, false));
            committed += 1;
            kinds.push("commit");
        } else if k < 7 || (k == 7 && !cfg.rollback) {
            // a chain of two or three overlays, committed oldest first
            let depth = rng.range(2, 3) as usize;
            let mut chain: Vec<u32> = vec![];
            let mut ids = vec![];
            for _ in 0..depth {
                let b = batch(rng, &mut kg, &mut live);
                s += 1;
                c += 1;
                ops.push(Op::Begin { s, chain: chain.clone(), witness: false });
                ops.push(Op::Finish { s, c, batch: b });
                ops.push(Op::Overlay { c });
                chain.insert(0, c);
                ids.push(c);
            }
            for id in ids {
                ops.push(Op::Commit { c: id, nb: false });
                committed += 1;
            }
            kinds.push("overlay-chain");
        } else if (k == 8 || (k == 7 && rng.chance(1, 2))) && cfg.rollback {
            let m = rng.range(1, committed.min(cfg.max_len).min(3) as u64) as usize;
            ops.push(Op::Rollback(m));
            kinds.push("rollback");
        } else {
            ops.push(Op::Close);
            ops.push(Op::Open(cfg.clone()));
            kinds.push("reopen");
        }
    }
    ops.push(Op::Close);
    History { label: format!("multi:cc{}:rb{}:{}", cfg.cc, cfg.rollback as u8, kinds.join(",")), ops: arm_wrap(ops) }
}

pub fn gen_history(rng: &mut Rng, thorough: bool, idx: usize) -> History {
    if idx % 2 == 0 {
        gen_multi(rng, thorough, idx / 2)
    } else {
        history_of_scenario(gen_io_scenario(rng, thorough, idx / 2))
    }
}

// ------------------------------------------------------------------------------------------
// the observer's log, in the order in which the operations took effect
// ------------------------------------------------------------------------------------------

#[derive(Clone, Debug)]
enum Item {
    Arm,
    Disarm,
    Ev { seq: u64, kind: String, path: String, off: u64, len: u64, ret: i64 },
}

struct Parsed {
    items: Vec<Item>,
    fsync_overlaps: usize, // operations on a tracked file that took effect while an fsync of that file was running
    unreturned: usize,     // synchronous operations on tracked files without a result line
}

fn parse_log_ordered(path: &Path) -> Parsed {
    let txt = std::fs::read_to_string(path).unwrap_or_default();
    let mut items = Vec::new();
    let mut waiting: HashMap<u64, (String, String, u64, u64)> = HashMap::new();
    let mut fsync_open: HashMap<String, u64> = HashMap::new();
    let mut overlaps = 0;
    for l in txt.lines() {
        let t: Vec<&str> = l.split(' ').collect();
        match t[0] {
            "C" => match t.get(1) {
                Some(&"arm") => items.push(Item::Arm),
                Some(&"disarm") => items.push(Item::Disarm),
                _ => {}
            },
            "E" if t.len() >= 8 => {
                let seq: u64 = t[1].parse().unwrap();
                let (kind, path) = (t[4].to_string(), t[5].to_string());
                let off = t[6].parse::<i64>().unwrap_or(0).max(0) as u64;
                let len = t[7].parse::<i64>().unwrap_or(0).max(0) as u64;
                if kind == "UW" || kind == "UC" || kind == "UE" {
                    if tracked(&path) && fsync_open.contains_key(&path) {
                        overlaps += 1;
                    }
                    items.push(Item::Ev { seq, kind, path, off, len, ret: 0 });
                } else {
                    if (kind == "S" || kind == "D") && tracked(&path) {
                        fsync_open.insert(path.clone(), seq);
                    }
                    waiting.insert(seq, (kind, path, off, len));
                }
            }
            "R" if t.len() >= 3 => {
                let seq: u64 = t[1].parse().unwrap();
                if let Some((kind, path, off, len)) = waiting.remove(&seq) {
                    let ret: i64 = t[2].parse().unwrap_or(-1);
                    if fsync_open.get(&path) == Some(&seq) {
                        fsync_open.remove(&path);
                    } else if tracked(&path) && fsync_open.contains_key(&path) && ["W", "T", "A"].contains(&kind.as_str()) {
                        overlaps += 1;
                    }
                    items.push(Item::Ev { seq, kind, path, off, len, ret });
                }
            }
            _ => {}
        }
    }
    let unreturned = waiting.values().filter(|w| tracked(&w.1) && ["W", "T", "S", "D", "A"].contains(&w.0.as_str())).count();
    Parsed { items, fsync_overlaps: overlaps, unreturned }
}

// ------------------------------------------------------------------------------------------
// contents and files
// ------------------------------------------------------------------------------------------

#[derive(Default)]
struct Contents {
    ids: HashMap<Vec<u8>, u32>,
    bytes: Vec<Vec<u8>>, // id - 1 -> content
}

impl Contents {
    fn intern(&mut self, page: &[u8]) -> u32 {
        debug_assert!(page.len() == PAGE as usize);
        if page.iter().all(|b| *b == 0) {
            return 0;
        }
        if let Some(id) = self.ids.get(page) {
            return *id;
        }
        self.bytes.push(page.to_vec());
        let id = self.bytes.len() as u32;
        self.ids.insert(page.to_vec(), id);
        id
    }
    fn get(&self, id: u32) -> Vec<u8> {
        if id == 0 { vec![0u8; PAGE as usize] } else { self.bytes[id as usize - 1].clone() }
    }
}

/// what the page cache holds of one file: its non-zero pages and its length
#[derive(Clone, Default)]
pub struct FileView {
    pages: BTreeMap<u64, u32>,
    len: u64, // bytes
}

impl FileView {
    fn cid(&self, pn: u64) -> u32 {
        self.pages.get(&pn).copied().unwrap_or(0)
    }
    fn len_pages(&self) -> u64 {
        (self.len + PAGE - 1) / PAGE
    }
    fn set(&mut self, pn: u64, cid: u32) {
        if cid == 0 {
            self.pages.remove(&pn);
        } else {
            self.pages.insert(pn, cid);
        }
    }
    fn truncate(&mut self, len: u64, cs: &mut Contents) {
        let keep = (len + PAGE - 1) / PAGE;
        let gone: Vec<u64> = self.pages.range(keep..).map(|(k, _)| *k).collect();
        for k in gone {
            self.pages.remove(&k);
        }
        if len % PAGE != 0 && len < self.len {
            // the tail of the last page is cut
            let pn = len / PAGE;
            let mut b = cs.get(self.cid(pn));
            for x in b[(len % PAGE) as usize..].iter_mut() {
                *x = 0;
            }
            let c = cs.intern(&b);
            self.set(pn, c);
        }
        self.len = len;
    }
    /// apply a byte range; returns the (page, new content id) pairs in page order
    fn write(&mut self, off: u64, data: &[u8], cs: &mut Contents) -> Vec<(u64, u32)> {
        let mut out = Vec::new();
        let mut pos = 0usize;
        while pos < data.len() {
            let abs = off + pos as u64;
            let pn = abs / PAGE;
            let in_page = (abs % PAGE) as usize;
            let n = (PAGE as usize - in_page).min(data.len() - pos);
            let c = if in_page == 0 && n == PAGE as usize {
                cs.intern(&data[pos..pos + n])
            } else {
                let mut b = cs.get(self.cid(pn));
                b[in_page..in_page + n].copy_from_slice(&data[pos..pos + n]);
                cs.intern(&b)
            };
            self.set(pn, c);
            out.push((pn, c));
            pos += n;
        }
        self.len = self.len.max(off + data.len() as u64);
        out
    }
}

type Views = BTreeMap<&'static str, FileView>;

fn fname(path: &str) -> &'static str {
    FILES.iter().copied().find(|f| *f == path).unwrap()
}

// ------------------------------------------------------------------------------------------
// translation of one run
// ------------------------------------------------------------------------------------------

#[derive(Default, Clone)]
pub struct SyncInfo {
    pub id: usize,
    pub op: String,           // the armed operation
    pub lines: Vec<String>,   // the section of the history file
    pub n_pg: usize,
    pub tree_writes: usize,
    pub ht_writes: usize,
    pub wal_new: usize,
    pub has_manifest_write: bool,
}

pub struct Translation {
    pub text: String, // the history file
    pub syncs: Vec<SyncInfo>,
    pub empty_windows: usize,
    pub empty_ops: Vec<String>,
    pub inflight_at_arm: usize,
    pub events_tracked: usize,
    pub events_dropped: usize,
    pub views: Views, // final reconstructed contents
    pub unsupported: Vec<String>,
}

struct Window {
    op: String,
    snap: Views,
    wal_durable: FileView,
    evs: Vec<(String, &'static str, u64, u32)>, // (kind W S C T F, file, pn/len, cid)
}

fn materialise(dir: &Path, snap: &Views, cs: &Contents) {
    use std::os::unix::fs::FileExt;
    std::fs::create_dir_all(dir).unwrap();
    for f in ["meta", "ln", "bbn"] {
        let v = &snap[f];
        let file = std::fs::File::create(dir.join(f)).unwrap();
        file.set_len(v.len_pages() * PAGE).unwrap();
        for (pn, c) in &v.pages {
            file.write_all_at(&cs.get(*c), pn * PAGE).unwrap();
        }
    }
}

fn translate(parsed: &Parsed, spool: &Path, armed_ops: &[String], work: &Path, cs: &mut Contents, sabotage: Option<&str>) -> Translation {
    let mut views: Views = FILES.iter().map(|f| (*f, FileView::default())).collect();
    let mut wal_durable = FileView::default();
    let mut text = String::new();
    text.push_str("# translated I/O trace (format: ocaml/sync_cmds.ml); starting disk: the five files empty and durable\n");
    let mut tr = Translation { text: String::new(), syncs: vec![], empty_windows: 0, empty_ops: vec![], inflight_at_arm: 0, events_tracked: 0, events_dropped: 0, views: Views::new(), unsupported: vec![] };
    let mut win: Option<Window> = None;
    let mut n_windows = 0usize;
    let mut inflight: i64 = 0;
    for it in &parsed.items {
        match it {
            Item::Arm => {
                if inflight != 0 {
                    tr.inflight_at_arm += 1;
                }
                let op = armed_ops.get(n_windows).cloned().unwrap_or_default();
                n_windows += 1;
                win = Some(Window { op, snap: views.clone(), wal_durable: wal_durable.clone(), evs: vec![] });
            }
            Item::Disarm => {
                let Some(w) = win.take() else { continue };
                if w.evs.is_empty() {
                    tr.empty_windows += 1;
                    tr.empty_ops.push(w.op.clone());
                    continue;
                }
                let id = tr.syncs.len();
                let mut si = SyncInfo { id, op: w.op.clone(), ..Default::default() };
                let mut ls: Vec<String> = Vec::new();
                ls.push(format!("sync {} {}", id, w.op.replace(' ', "_")));
                let iw = w.evs.iter().position(|e| e.0 == "W" && e.1 == "meta");
                let is_ = w.evs.iter().position(|e| e.0 == "F" && e.1 == "meta");
                si.has_manifest_write = iw.is_some();
                ls.push(format!("mold {}", w.snap["meta"].cid(0)));
                ls.push(format!("mnew {}", iw.map(|i| w.evs[i].3).unwrap_or(0)));
                // the WAL before the sync: what is durable of it (an unsynced truncation does not count)
                let wo: Vec<String> = (0..w.wal_durable.len_pages()).map(|pn| w.wal_durable.cid(pn).to_string()).collect();
                ls.push(format!("walold {}", wo.join(" ")));
                let pre = &w.evs[..iw.unwrap_or(w.evs.len())];
                let mut wn: BTreeMap<u64, u32> = BTreeMap::new();
                for e in pre.iter().filter(|e| e.0 == "W" && e.1 == "wal") {
                    wn.insert(e.2, e.3);
                }
                let wn_len = wn.keys().next_back().map(|m| m + 1).unwrap_or(0);
                let wnl: Vec<String> = (0..wn_len).map(|pn| wn.get(&pn).copied().unwrap_or(0).to_string()).collect();
                si.wal_new = wnl.len();
                ls.push(format!("walnew {}", wnl.join(" ")));
                // tree pages written before the manifest write, last content, in order of first write
                let mut order: Vec<(&str, u64)> = Vec::new();
                let mut last: HashMap<(&str, u64), u32> = HashMap::new();
                for e in pre.iter().filter(|e| (e.0 == "W" || e.0 == "S") && (e.1 == "ln" || e.1 == "bbn")) {
                    if last.insert((e.1, e.2), e.3).is_none() {
                        order.push((e.1, e.2));
                    }
                    si.tree_writes += 1;
                }
                for k in &order {
                    ls.push(format!("tree {} {} {}", k.0, k.1, last[k]));
                }
                // hash-table pages written after the manifest fsync: previous and (last) new content
                if let Some(is_) = is_ {
                    let mut order: Vec<u64> = Vec::new();
                    let mut last: HashMap<u64, u32> = HashMap::new();
                    for e in w.evs[is_ + 1..].iter().filter(|e| (e.0 == "W" || e.0 == "S") && e.1 == "ht") {
                        if last.insert(e.2, e.3).is_none() {
                            order.push(e.2);
                        }
                        si.ht_writes += 1;
                    }
                    for pn in order {
                        ls.push(format!("ht {} {} {}", pn, w.snap["ht"].cid(pn), last[&pn]));
                    }
                }
                // the pre-sync value files for the decoders, and the ids of their pages
                let pre_dir = work.join(format!("pre{}", id));
                materialise(&pre_dir, &w.snap, cs);
                for f in ["ln", "bbn"] {
                    for (pn, c) in &w.snap[f].pages {
                        ls.push(format!("pg {} {} {}", f, pn, c));
                        si.n_pg += 1;
                    }
                }
                ls.push(format!("decode {}", pre_dir.display()));
                for e in &w.evs {
                    ls.push(match e.0.as_str() {
                        "W" | "S" => format!("ev {} {} {} {}", e.0, e.1, e.2, e.3),
                        "C" | "T" => format!("ev {} {} {}", e.0, e.1, e.2),
                        _ => format!("ev F {}", e.1),
                    });
                }
                ls.push("endsync".into());
                for l in &ls {
                    text.push_str(l);
                    text.push('\n');
                }
                si.lines = ls;
                tr.syncs.push(si);
            }
            Item::Ev { seq, kind, path, off, len, ret } => {
                if !tracked(path) {
                    if ["W", "UW", "UC", "T", "S", "D"].contains(&kind.as_str()) {
                        tr.events_dropped += 1;
                    }
                    continue;
                }
                let f = fname(path);
                let mut evs: Vec<(String, &'static str, u64, u32)> = Vec::new();
                match kind.as_str() {
                    "W" => {
                        if *ret <= 0 {
                            continue;
                        }
                        let mut data = std::fs::read(spool.join(format!("{}.bin", seq))).unwrap_or_default();
                        data.truncate(*ret as usize);
                        if data.len() != *ret as usize {
                            tr.unsupported.push(format!("payload of write #{} missing", seq));
                            continue;
                        }
                        for (pn, c) in views.get_mut(f).unwrap().write(*off, &data, cs) {
                            evs.push(("W".into(), f, pn, c));
                        }
                    }
                    "UW" => {
                        let data = std::fs::read(spool.join(format!("{}.bin", seq))).unwrap_or_default();
                        if data.len() as u64 != *len || len % PAGE != 0 || off % PAGE != 0 {
                            tr.unsupported.push(format!("async write #{}: payload {} bytes at {} (len {})", seq, data.len(), off, len));
                            continue;
                        }
                        inflight += (len / PAGE) as i64;
                        for (pn, c) in views.get_mut(f).unwrap().write(*off, &data, cs) {
                            evs.push(("S".into(), f, pn, c));
                        }
                    }
                    "UC" => {
                        for i in 0..(len / PAGE).max(1) {
                            inflight -= 1;
                            evs.push(("C".into(), f, off / PAGE + i, 0));
                        }
                    }
                    "UE" => tr.unsupported.push(format!("async write #{} on {} completed with an error", seq, f)),
                    "T" => {
                        if *ret != 0 {
                            continue;
                        }
                        views.get_mut(f).unwrap().truncate(*off, cs);
                        evs.push(("T".into(), f, (off + PAGE - 1) / PAGE, 0));
                    }
                    "A" => {
                        // posix_fallocate-style growth: zero pages appear behind the end
                        if *ret == 0 && off + len > views[f].len {
                            let v = views.get_mut(f).unwrap();
                            v.len = off + len;
                            evs.push(("T".into(), f, v.len_pages(), 0));
                        }
                    }
                    "S" | "D" => {
                        if *ret != 0 {
                            continue;
                        }
                        if sabotage == Some(f) && win.is_some() {
                            continue; // self-test: what the trace of a sync that forgets this fsync looks like
                        }
                        if f == "wal" {
                            wal_durable = views["wal"].clone();
                        }
                        evs.push(("F".into(), f, 0, 0));
                    }
                    _ => continue, // C K L U N M: creation, close, lock, unlink, rename, mkdir
                }
                tr.events_tracked += evs.len();
                match win.as_mut() {
                    Some(w) => w.evs.extend(evs),
                    None => {
                        for e in evs {
                            text.push_str(&match e.0.as_str() {
                                "W" | "S" => format!("ev {} {} {} {}\n", e.0, e.1, e.2, e.3),
                                "C" | "T" => format!("ev {} {} {}\n", e.0, e.1, e.2),
                                _ => format!("ev F {}\n", e.1),
                            });
                        }
                    }
                }
            }
        }
    }
    tr.text = text;
    tr.views = views;
    tr
}

/// the reconstruction against the files the child left behind
fn compare_with_files(dir: &Path, views: &Views, cs: &Contents) -> Option<String> {
    for f in FILES {
        let data = match std::fs::read(dir.join(f)) {
            Ok(d) => d,
            Err(e) => return Some(format!("{}: {}", f, e)),
        };
        let v = &views[f];
        if data.len() as u64 != v.len {
            return Some(format!("{}: the file has {} bytes, the reconstruction {}", f, data.len(), v.len));
        }
        let zero = vec![0u8; PAGE as usize];
        for (pn, chunk) in data.chunks(PAGE as usize).enumerate() {
            let want = match v.pages.get(&(pn as u64)) {
                Some(c) => cs.get(*c),
                None => zero.clone(),
            };
            if chunk != &want[..chunk.len()] {
                return Some(format!("{}: page {} differs from the reconstruction", f, pn));
            }
        }
    }
    None
}

// ------------------------------------------------------------------------------------------
// one history
// ------------------------------------------------------------------------------------------

fn run_child_spool(dir: &Path, script: &Path, log: &Path, spool: &Path) -> (Option<i32>, String) {
    let _ = std::fs::remove_file(log);
    let exe = std::env::current_exe().unwrap();
    let out = std::process::Command::new("timeout")
        .arg("300")
        .arg(exe)
        .arg("iochild")
        .arg(dir)
        .arg(script)
        .env("LD_PRELOAD", "/verif/.cache/shim.so")
        .env("NOMT_VERIF_DIR", dir)
        .env("NOMT_VERIF_LOG", log)
        .env("NOMT_VERIF_SPOOL", spool)
        .env("NOMT_VERIF_MODE", "record")
        .env("RUST_BACKTRACE", "0")
        .stderr(std::process::Stdio::null())
        .output()
        .expect("child");
    (out.status.code(), String::from_utf8_lossy(&out.stdout).to_string())
}

#[derive(Default)]
pub struct HistOutcome {
    pub label: String,
    pub syncs: usize,
    pub nontrivial: usize,
    pub windows_without_io: usize,
    pub noio_notes: Vec<String>,
    pub events: usize,
    pub events_dropped: usize,
    pub fsync_overlaps: usize,
    pub inflight_at_arm: usize,
    pub pending_trunc_starts: usize,
    pub f8_precondition: usize, // pending WAL truncation and a durable old blob of more than one page
    pub outside_wal_safe: Vec<String>,
    pub outside_wal_safe_orig: usize,
    pub max_live: usize,
    pub max_events: usize,
    pub ops: BTreeMap<String, usize>,
    pub violations: Vec<(String, String, String)>, // sig, detail, replay
    pub sample: Vec<String>,
    pub verdicts: Vec<String>,
    pub mutants: usize,
    pub mutant_clauses: BTreeMap<String, usize>,
    pub model_s: f64,
    pub child_s: f64,
}

/// a section of the history file with runs of similar lines collapsed (for the evidence file)
fn compress(lines: &[String]) -> Vec<String> {
    let key = |l: &str| -> String {
        let t: Vec<&str> = l.split(' ').collect();
        if t[0] == "ev" { t[..3.min(t.len())].join(" ") } else if t[0] == "tree" || t[0] == "pg" { t[..2].join(" ") } else { t[0].to_string() }
    };
    let mut out: Vec<String> = Vec::new();
    let mut i = 0;
    while i < lines.len() {
        let k = key(&lines[i]);
        let mut j = i;
        while j + 1 < lines.len() && key(&lines[j + 1]) == k {
            j += 1;
        }
        out.push(lines[i].clone());
        if j > i + 1 {
            out.push(format!("#   ... {} more '{}' lines", j - i - 1, k));
        }
        if j > i {
            out.push(lines[j].clone());
        }
        i = j + 1;
    }
    out
}

fn kv_of(line: &str) -> HashMap<String, String> {
    line.split(' ').filter_map(|t| t.split_once('=')).map(|(k, v)| (k.to_string(), v.to_string())).collect()
}

pub struct RunOpts {
    pub index: usize,
    pub dump_dir: Option<String>,
    pub mutate: bool,
    pub sabotage: Option<String>,
}

pub fn run_history(h: &History, prefix: &str, tag: &str, opts: &RunOpts) -> HistOutcome {
    let mut out = HistOutcome { label: h.label.clone(), ..Default::default() };
    let work = fresh_dir(&format!("trace-{}", tag));
    std::fs::create_dir_all(&work).unwrap();
    let res = std::panic::catch_unwind(std::panic::AssertUnwindSafe(|| run_history_in(h, prefix, &work, &mut out, opts)));
    let _ = std::fs::remove_dir_all(&work);
    if res.is_err() {
        out.violations.push((format!("{}-harness", prefix), "harness panic while checking the history".into(), script_to_text(&h.ops)));
    }
    out
}

fn run_history_in(h: &History, prefix: &str, work: &Path, out: &mut HistOutcome, opts: &RunOpts) {
    let db = work.join("db");
    let spool = work.join("spool");
    std::fs::create_dir_all(&db).unwrap();
    std::fs::create_dir_all(&spool).unwrap();
    let script = work.join("history.script");
    let script_text = script_to_text(&h.ops);
    std::fs::write(&script, &script_text).unwrap();
    let log = work.join("events.log");
    let t0 = std::time::Instant::now();
    let (code, stdout) = run_child_spool(&db, &script, &log, &spool);
    out.child_s = t0.elapsed().as_secs_f64();
    let head = |extra: &str| format!("# history: {}\n# {}\n# --- history script (nv iochild <dir> <script>, every commit / rollback is an armed window)\n{}", h.label, extra, script_text);
    if code != Some(0) || !stdout.contains("DONE") {
        out.violations.push((format!("{}-record-run", prefix), format!("the recorded run failed: exit {:?} {}", code, stdout.lines().rev().take(3).collect::<Vec<_>>().join(" | ")), head("the run fails")));
        return;
    }
    let armed_ops: Vec<String> = h.ops.iter().filter(|o| matches!(o, Op::Commit { .. } | Op::Rollback(_))).map(|o| o.to_line()).collect();
    let parsed = parse_log_ordered(&log);
    let mut cs = Contents::default();
    let tr = translate(&parsed, &spool, &armed_ops, work, &mut cs, opts.sabotage.as_deref());
    out.windows_without_io = tr.empty_windows;
    for (op, line) in tr.empty_ops.iter().map(|op| (op, stdout.lines().find(|l| l.contains(" err") || l.contains("deferred") || l.contains("panic")).unwrap_or(""))) {
        if out.noio_notes.len() < 4 {
            out.noio_notes.push(format!("{}: {} [{}]", h.label, op.chars().take(30).collect::<String>(), line.chars().take(100).collect::<String>()));
        }
    }
    out.events = tr.events_tracked;
    out.events_dropped = tr.events_dropped;
    out.fsync_overlaps = parsed.fsync_overlaps;
    out.inflight_at_arm = tr.inflight_at_arm;
    if parsed.fsync_overlaps > 0 || tr.inflight_at_arm > 0 {
        // the translation places an fsync where it returned and takes the pre-sync contents at the
        // arming point: both need quiet files at those moments
        out.violations.push((format!("{}-harness-translation-assumption", prefix), format!("{} operations took effect on a tracked file while an fsync of that file was running, {} windows were armed with asynchronous writes in flight: the translated trace would not be faithful", parsed.fsync_overlaps, tr.inflight_at_arm), head("translation assumption")));
        return;
    }
    if parsed.unreturned > 0 {
        out.violations.push((format!("{}-harness-log", prefix), format!("{} synchronous operations on the tracked files have no result line in the log", parsed.unreturned), head("incomplete log")));
    }
    for u in &tr.unsupported {
        out.violations.push((format!("{}-harness-translation", prefix), format!("event outside the translation: {}", u), head(u)));
    }
    if let Some(m) = compare_with_files(&db, &tr.views, &cs) {
        out.violations.push((format!("{}-harness-reconstruction", prefix), format!("the file contents reconstructed from the trace differ from the files the run left behind: {}", m), head(&m)));
        return;
    }
    let hist = work.join("history.trace");
    std::fs::write(&hist, &tr.text).unwrap();
    let t1 = std::time::Instant::now();
    let mut model = Model::spawn();
    // "dump": the verdict lines preceded by the live set the decoders computed for each section
    let reply = model.ask_multi(&format!("synccheck {} dump", hist.display()));
    out.model_s = t1.elapsed().as_secs_f64();
    let mut lives: Vec<Vec<String>> = vec![vec![]];
    let mut verdicts: Vec<String> = Vec::new();
    for l in reply.iter() {
        if l.starts_with("live ") {
            lives.last_mut().unwrap().push(l.clone());
        } else if l.starts_with("sync ") {
            verdicts.push(l.clone());
            lives.push(vec![]);
        }
    }
    if verdicts.len() != tr.syncs.len() {
        out.violations.push((format!("{}-harness-driver", prefix), format!("the driver answered {} verdicts for {} windows: {:?}", verdicts.len(), tr.syncs.len(), reply.iter().take(3).collect::<Vec<_>>()), head("driver reply")));
        return;
    }
    if let Some(d) = &opts.dump_dir {
        std::fs::create_dir_all(d).ok();
        std::fs::write(format!("{}/{}.script", d, opts.index), &script_text).ok();
        std::fs::write(format!("{}/{}.trace", d, opts.index), self_contained(&tr.text, &lives, None)).ok();
        std::fs::write(format!("{}/{}.verdicts", d, opts.index), verdicts.join("\n") + "\n").ok();
    }
    let mut failing: Vec<(usize, String, String)> = Vec::new();
    let mut mutation_target: Option<usize> = None;
    for (si, line) in tr.syncs.iter().zip(verdicts.iter()) {
        let kv = kv_of(line);
        let g = |k: &str| kv.get(k).cloned().unwrap_or_default();
        let n = |k: &str| kv.get(k).and_then(|v| v.parse::<usize>().ok()).unwrap_or(0);
        out.syncs += 1;
        *out.ops.entry(si.op.split(' ').next().unwrap_or("").to_string()).or_default() += 1;
        if si.tree_writes > 0 && si.ht_writes > 0 && si.wal_new > 0 {
            out.nontrivial += 1;
            if n("live") > 0 && n("wal_pending") > 0 {
                if out.sample.is_empty() {
                    out.sample = compress(&si.lines);
                    out.sample.push(format!("# verdict of the extracted monitor: {}", line));
                }
                mutation_target = Some(si.id);
            }
        }
        if out.verdicts.len() < 12 {
            out.verdicts.push(line.to_string());
        }
        out.max_live = out.max_live.max(n("live"));
        out.max_events = out.max_events.max(n("events"));
        if n("wal_pending") > 0 {
            out.pending_trunc_starts += 1;
            if n("durable_wal_pages") > 1 {
                out.f8_precondition += 1;
            }
        }
        if g("wal_safe") != "1" {
            out.outside_wal_safe.push(format!("{} / sync {} ({}): durable old blob {} pages with the truncation pending, new blob {} pages", h.label, si.id, si.op.chars().take(40).collect::<String>(), n("walold"), n("walnew")));
        }
        if g("wal_safe_orig") != "1" {
            out.outside_wal_safe_orig += 1;
        }
        let ctx = format!("sync {} of the history ({}): {}", si.id, si.op.chars().take(60).collect::<String>(), line);
        if !si.has_manifest_write {
            failing.push((si.id, format!("{}-discipline-no-manifest-write", prefix), format!("the armed operation performed I/O on the store files but never wrote the manifest; {}", ctx)));
        } else if g("discipline") != "ok" {
            failing.push((si.id, format!("{}-discipline-{}", prefix, g("clause")), format!("the sync violates the discipline: clause {} at position {} [{}]; {}", g("clause"), g("pos"), g("at"), ctx)));
        }
        if g("start") != "ok" {
            failing.push((si.id, format!("{}-start-{}", prefix, g("start").trim_start_matches("FAIL:").split(',').next().unwrap_or("")), format!("the disk at the start of the sync is not as the theorem assumes: {}; {}", g("start"), ctx)));
        }
        if g("inst") != "ok" {
            failing.push((si.id, format!("{}-inst-{}", prefix, g("inst").trim_start_matches("FAIL:").split(',').next().unwrap_or("")), format!("the instance is not as the theorem assumes: {}; {}", g("inst"), ctx)));
        }
        if !g("decode").starts_with("ok") {
            failing.push((si.id, format!("{}-decode", prefix), format!("the pre-sync files cannot be decoded: {}; {}", g("decode"), ctx)));
        }
    }
    if !failing.is_empty() {
        let mut seen: HashMap<String, usize> = HashMap::new();
        for (id, sig, detail) in failing {
            let c = seen.entry(sig.clone()).or_default();
            *c += 1;
            if *c > 3 {
                continue;
            }
            let t = self_contained(&tr.text, &lives, Some(id));
            let replay = format!("{}# --- translated trace up to the failing sync (save from the next line on and run: echo 'synccheck <file>' | /verif/ocaml/model)\n{}", head(&detail), t);
            out.violations.push((sig, detail, replay));
        }
        return;
    }
    // sensitivity: the same recorded sync with one protocol step removed / displaced must be rejected
    if let (true, Some(target)) = (opts.mutate, mutation_target) {
        let base: Vec<String> = self_contained(&tr.text, &lives, Some(target)).lines().map(|l| l.to_string()).collect();
        for (name, lines) in mutants(&base, target) {
            let mpath = work.join("mutant.trace");
            std::fs::write(&mpath, lines.join("\n") + "\n").unwrap();
            let r = model.ask_multi(&format!("synccheck {}", mpath.display()));
            let v = r.iter().filter(|l| l.starts_with(&format!("sync {} ", target))).last().cloned().unwrap_or_default();
            let kv = kv_of(&v);
            out.mutants += 1;
            if kv.get("discipline").map(|d| d.starts_with("FAIL")).unwrap_or(false) {
                *out.mutant_clauses.entry(format!("{} -> {}", name, kv.get("clause").cloned().unwrap_or_default())).or_default() += 1;
            } else {
                let detail = format!("sensitivity check: the recorded sync {} with the mutation '{}' applied is still accepted by the monitor: {}", target, name, v);
                out.violations.push((format!("{}-harness-mutant-accepted", prefix), detail.clone(), format!("{}# --- mutated translated trace\n{}\n", head(&detail), lines.join("\n"))));
            }
        }
    }
}

/// the history file with the decoder input (`decode`, `pg`) replaced by the live sets the decoders
/// produced: self-contained, can be fed to `synccheck` anywhere; optionally cut after section `upto`
fn self_contained(text: &str, lives: &[Vec<String>], upto: Option<usize>) -> String {
    let mut t = String::new();
    let mut section = 0usize;
    for l in text.lines() {
        if l.starts_with("pg ") {
            continue;
        }
        if l.starts_with("decode ") {
            for x in lives.get(section).map(|v| v.as_slice()).unwrap_or(&[]) {
                t.push_str(x);
                t.push('\n');
            }
            continue;
        }
        t.push_str(l);
        t.push('\n');
        if l == "endsync" {
            if Some(section) == upto {
                break;
            }
            section += 1;
        }
    }
    t
}

/// protocol mutations of section `target` of a self-contained history: each one removes or displaces
/// one step the atomicity argument depends on
fn mutants(base: &[String], target: usize) -> Vec<(&'static str, Vec<String>)> {
    let mut out: Vec<(&'static str, Vec<String>)> = Vec::new();
    let Some(a) = base.iter().position(|l| l.starts_with(&format!("sync {} ", target))) else { return out };
    let Some(b) = base[a..].iter().position(|l| l == "endsync").map(|i| a + i) else { return out };
    let find = |from: usize, to: usize, pat: &str| -> Option<usize> { (from..to).find(|i| base[*i].starts_with(pat)) };
    let rfind = |from: usize, to: usize, pat: &str| -> Option<usize> { (from..to).rev().find(|i| base[*i].starts_with(pat)) };
    let Some(iw) = find(a, b, "ev W meta ") else { return out };
    let without = |i: usize| -> Vec<String> { base.iter().enumerate().filter(|(j, _)| *j != i).map(|(_, l)| l.clone()).collect() };
    let moved = |from: std::ops::Range<usize>, to: usize| -> Vec<String> {
        // move the lines [from) so that they start at the position of line `to` (to outside the range)
        let chunk: Vec<String> = base[from.clone()].to_vec();
        let mut v: Vec<String> = Vec::new();
        for (j, l) in base.iter().enumerate() {
            if j == to {
                v.extend(chunk.iter().cloned());
            }
            if !from.contains(&j) {
                v.push(l.clone());
            }
        }
        v
    };
    if find(a, iw, "ev S ln ").is_some() {
        if let Some(i) = rfind(a, iw, "ev F ln") {
            out.push(("no fsync of ln before the manifest write", without(i)));
        }
    }
    if find(a, iw, "ev S bbn ").is_some() {
        if let Some(i) = rfind(a, iw, "ev F bbn") {
            out.push(("no fsync of bbn before the manifest write", without(i)));
        }
    }
    if let Some(i) = rfind(a, iw, "ev F wal") {
        out.push(("no fsync of the WAL before the manifest write", without(i)));
    }
    if let Some(first_f) = find(a, iw, "ev F ") {
        out.push(("manifest written and synced before the first fsync of the sync", moved(iw..iw + 2, first_f)));
    }
    if let (Some(i), Some(_)) = (find(iw, b, "ev F ht"), find(iw, b, "ev T wal ")) {
        out.push(("no fsync of the hash table before the WAL truncation", without(i)));
    }
    if let (Some(i), Some(f)) = (rfind(iw, b, "ev T wal "), find(iw, b, "ev S ht ")) {
        if i > f {
            out.push(("WAL truncated before the hash-table pages are written", moved(i..i + 1, f)));
        }
    }
    if let Some(i) = find(iw, b, "ev C ht ") {
        out.push(("a hash-table write still in flight at its fsync", without(i)));
    }
    if let Some(i) = find(a, iw, "ev C ln ") {
        out.push(("a leaf write still in flight at the fsync of ln", without(i)));
    }
    // a write before the switch-over lands on a page the old image references
    if let (Some(lv), Some(w)) = (find(a, b, "live ln "), find(a, iw, "ev S ln ")) {
        let p = base[lv].split(' ').nth(2).unwrap_or("1").to_string();
        let t: Vec<&str> = base[w].split(' ').collect();
        let mut v = base.to_vec();
        v[w] = format!("ev S ln {} {}", p, t[4]);
        if let Some(c) = find(w, iw, &format!("ev C ln {}", t[3])).filter(|c| v[*c] == format!("ev C ln {}", t[3])) {
            v[c] = format!("ev C ln {}", p);
        }
        out.push(("a leaf write before the manifest write overwrites a live page", v));
    }
    if let Some(w) = find(a, iw, "ev W wal 0 ") {
        let mut v = base.to_vec();
        v[w] = "ev W wal 0 999999999".into();
        out.push(("a foreign header page written into the WAL", v));
    }
    if let Some(f) = find(iw, b, "ev S ht ") {
        // a hash-table page written before the manifest is durable
        out.push(("a hash-table page written before the manifest write", moved(f..f + 1, iw)));
    }
    out
}

// ------------------------------------------------------------------------------------------

pub fn cmd_trace(kv: &HashMap<String, String>) -> i32 {
    let prop = kv.get("prop").cloned().unwrap_or_else(|| "C17".into());
    let prefix = prop.to_lowercase();
    if let Some(file) = kv.get("replay") {
        // re-run the recorded history (the script section of a replay file written by this engine)
        let txt = std::fs::read_to_string(file).expect("replay file");
        let mut in_script = false;
        let mut ops: Vec<Op> = Vec::new();
        for l in txt.lines() {
            if l.starts_with("# --- history script") { in_script = true; continue; }
            if l.starts_with("# --- translated trace") { break; }
            if in_script && !l.starts_with('#') && !l.trim().is_empty() { ops.push(Op::parse(l)); }
        }
        if ops.is_empty() {
            println!("no history script in {}", file);
            return 2;
        }
        let h = History { label: "replay".into(), ops };
        let o = run_history(&h, &prefix, "replay", &RunOpts { index: 0, dump_dir: None, mutate: false, sabotage: None });
        println!("replayed history: {} syncs judged, {} violation(s)", o.verdicts.len(), o.violations.len());
        for (sig, detail, _) in &o.violations {
            println!("violation {}: {}", sig, detail.chars().take(400).collect::<String>());
        }
        return if o.violations.is_empty() { 0 } else { 1 };
    }
    let thorough = kv.get("tier").map(|t| t == "thorough").unwrap_or(false);
    let seed: u64 = kv.get("seed").and_then(|s| s.parse().ok()).unwrap_or(1);
    let n: usize = kv.get("n").and_then(|s| s.parse().ok()).unwrap_or(if thorough { 120 } else { 32 });
    let out_path = kv.get("out").cloned().expect("--out");
    let replay_dir = kv.get("replays").cloned().unwrap_or_else(|| format!("/verif/replays/{}", prop));
    let threads: usize = kv.get("threads").and_then(|s| s.parse().ok()).unwrap_or(12);
    // the replay directory is shared with the other engines of the property: only our own files go
    std::fs::create_dir_all(&replay_dir).ok();
    if let Ok(rd) = std::fs::read_dir(&replay_dir) {
        for e in rd.filter_map(|e| e.ok()) {
            if e.file_name().to_string_lossy().starts_with(&format!("{}-trace-", prop)) {
                let _ = std::fs::remove_file(e.path());
            }
        }
    }
    let dump_dir = kv.get("dump").cloned();
    // self-test of the reporting path: drop the fsyncs of one file from the armed windows
    let sabotage = kv.get("sabotage").cloned();
    let n_mutated: usize = kv.get("mutants").and_then(|s| s.parse().ok()).unwrap_or(if thorough { 12 } else { 6 });
    let t0 = std::time::Instant::now();
    let mut rng = Rng::new(seed ^ 0x7472_6163_65);
    let mut hs: Vec<(usize, History)> = (0..n).map(|i| { let mut r = rng.fork(); (i, gen_history(&mut r, thorough, i)) }).collect();
    // corpus scripts (regression histories): every commit / rollback of the script is an armed sync
    if let Some(c) = kv.get("corpus") {
        if let Ok(rd) = std::fs::read_dir(c) {
            let mut files: Vec<_> = rd.filter_map(|e| e.ok()).map(|e| e.path()).filter(|f| f.extension().map(|e| e == "script").unwrap_or(false)).collect();
            files.sort();
            for f in files {
                let ops = crate::sys::script_from_text(&std::fs::read_to_string(&f).unwrap_or_default());
                let ops: Vec<Op> = ops.into_iter().filter(|o| !matches!(o, Op::CheckAll { .. } | Op::Read(_))).collect();
                let idx = 100_000 + hs.len();
                hs.push((idx, History { label: format!("corpus {}", f.display()), ops: arm_wrap(ops) }));
            }
        }
    }
    let n = hs.len();
    let queue = std::sync::Arc::new(std::sync::Mutex::new(hs));
    let results = std::sync::Arc::new(std::sync::Mutex::new(Vec::new()));
    let mut handles = Vec::new();
    for _ in 0..threads.min(n).max(1) {
        let (q, res, prefix, dump_dir, sabotage) = (queue.clone(), results.clone(), prefix.clone(), dump_dir.clone(), sabotage.clone());
        handles.push(std::thread::spawn(move || loop {
            let item = q.lock().unwrap().pop();
            let Some((i, h)) = item else { break };
            let o = run_history(&h, &prefix, &format!("{}", i), &RunOpts { index: i, dump_dir: dump_dir.clone(), mutate: i < n_mutated, sabotage: sabotage.clone() });
            res.lock().unwrap().push((i, o));
        }));
    }
    for h in handles {
        h.join().unwrap();
    }
    let mut results = std::mem::take(&mut *results.lock().unwrap());
    results.sort_by_key(|r| r.0);
    let mut viol = Vec::new();
    let mut sigs: BTreeMap<String, usize> = BTreeMap::new();
    let (mut syncs, mut nontrivial, mut noio, mut events, mut dropped, mut overlaps, mut inflight) = (0, 0, 0, 0, 0, 0, 0);
    let (mut pend, mut f8, mut orig, mut max_live, mut max_events) = (0, 0, 0, 0, 0);
    let (mut model_s, mut child_s) = (0.0, 0.0);
    let mut mutants = 0usize;
    let mut noio_notes: Vec<J> = Vec::new();
    let mut mutant_clauses: BTreeMap<String, usize> = BTreeMap::new();
    let mut outside: Vec<J> = Vec::new();
    let mut ops: BTreeMap<String, usize> = BTreeMap::new();
    let mut labels: Vec<J> = Vec::new();
    let mut samples: Vec<J> = Vec::new();
    for (i, o) in results {
        syncs += o.syncs;
        nontrivial += o.nontrivial;
        noio += o.windows_without_io;
        for x in &o.noio_notes {
            if noio_notes.len() < 8 {
                noio_notes.push(J::s(x.clone()));
            }
        }
        events += o.events;
        dropped += o.events_dropped;
        overlaps += o.fsync_overlaps;
        inflight += o.inflight_at_arm;
        pend += o.pending_trunc_starts;
        f8 += o.f8_precondition;
        orig += o.outside_wal_safe_orig;
        max_live = max_live.max(o.max_live);
        max_events = max_events.max(o.max_events);
        model_s += o.model_s;
        child_s += o.child_s;
        for (k, v) in &o.ops {
            *ops.entry(k.clone()).or_default() += v;
        }
        mutants += o.mutants;
        for (k, v) in &o.mutant_clauses {
            *mutant_clauses.entry(k.clone()).or_default() += v;
        }
        for s in &o.outside_wal_safe {
            outside.push(J::s(s.clone()));
        }
        if labels.len() < 64 {
            labels.push(J::s(format!("{} ({} syncs)", o.label, o.syncs)));
        }
        if samples.is_empty() && !o.sample.is_empty() {
            samples.push(J::obj(vec![
                ("history", J::s(o.label.clone())),
                ("translated_sync", J::Arr(o.sample.iter().map(|s| J::s(s.clone())).collect())),
                ("first_verdicts_of_the_history", J::Arr(o.verdicts.iter().map(|s| J::s(s.clone())).collect())),
            ]));
        }
        for (vi, (sig, detail, replay)) in o.violations.into_iter().enumerate() {
            let c = sigs.entry(sig.clone()).or_default();
            *c += 1;
            if *c > 12 {
                continue;
            }
            let path = format!("{}/{}-trace-seed{}-{}-{}.txt", replay_dir, prop, seed, i, vi);
            std::fs::write(&path, format!("# property {} sig {}\n# {}\n{}", prop, sig, detail.replace('\n', " "), replay)).unwrap();
            viol.push(J::obj(vec![("replay", J::s(path)), ("sig", J::s(sig.clone())), ("kind", J::s(sig)), ("detail", J::s(detail))]));
        }
    }
    let j = J::obj(vec![
        ("engine", J::s("trace")),
        ("property", J::s(prop)),
        ("evaluations", J::Int(syncs as i64)),
        ("distinct_nontrivial", J::Int(nontrivial as i64)),
        ("rule", J::s("one evaluation = one sync (armed commit or rollback of a generated multi-commit history run by the real implementation under the I/O observer) whose recorded event trace, translated into the alphabet of SyncProto.v, is evaluated by the extracted Coq code: SyncGlue.explain (= SyncProto.discipline, discipline_explain_ok), start_okb, inst_okb on the disk obtained by replaying all earlier events through dstep; non-trivial = at least one ln/bbn write, one hash-table write and a non-empty WAL blob; distinct by construction (distinct windows of distinct histories)")),
        ("histories", J::Int(n as i64)),
        ("history_labels", J::Arr(labels)),
        ("stats", J::obj(vec![
            ("syncs_checked", J::Int(syncs as i64)),
            ("armed_operations", J::Obj(ops.into_iter().map(|(k, v)| (k, J::Int(v as i64))).collect())),
            ("armed_windows_without_store_io", J::Int(noio as i64)),
            ("armed_windows_without_store_io_first_cases", J::Arr(noio_notes)),
            ("translated_events", J::Int(events as i64)),
            ("dropped_events_on_other_files", J::Int(dropped as i64)),
            ("max_events_in_a_sync", J::Int(max_events as i64)),
            ("max_live_pages", J::Int(max_live as i64)),
            ("operations_overlapping_an_fsync_of_their_file", J::Int(overlaps as i64)),
            ("windows_armed_with_async_writes_in_flight", J::Int(inflight as i64)),
            ("syncs_started_with_pending_wal_truncation", J::Int(pend as i64)),
            ("f8_precondition_pending_truncation_and_durable_old_blob_over_one_page", J::Int(f8 as i64)),
            ("syncs_outside_wal_safe", J::Int(outside.len() as i64)),
            ("syncs_outside_wal_safe_for_end_tag_reader", J::Int(orig as i64)),
            ("sensitivity_mutants_of_recorded_syncs", J::Int(mutants as i64)),
            ("sensitivity_mutants_rejected_by_clause", J::Obj(mutant_clauses.iter().map(|(k, v)| (k.clone(), J::Int(*v as i64))).collect())),
            ("child_seconds_total", J::Num(child_s)),
            ("model_seconds_total", J::Num(model_s)),
        ])),
        ("syncs_outside_wal_safe", J::Arr(outside.into_iter().take(200).collect())),
        ("violations_by_sig", J::Obj(sigs.iter().map(|(k, v)| (k.clone(), J::Int(*v as i64))).collect())),
        ("samples", J::Arr(samples)),
        ("violations", J::Arr(viol.clone())),
        ("wall_s", J::Num(t0.elapsed().as_secs_f64())),
    ]);
    std::fs::write(&out_path, j.to_string()).unwrap();
    if viol.is_empty() { 0 } else { 1 }
}

#[allow(dead_code)]
fn _unused(_: Cfg, _: PathBuf) {}
