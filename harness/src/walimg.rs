//! E-walimg: the WAL blobs the real sync writes, decoded and redone by the extracted Coq mirror of
//! bitbox's WAL codec and recovery (`coq/theories/Wal.v`, reached through the model co-process:
//! `walopen`, `walids`, `waltags`, `walredo`).  Properties C03 / C04 (the redo that the crash argument
//! relies on is the one the proofs are about) and C16 (the decoder accepts every real blob).
//!
//! For a generated history the target commit / rollback runs in a child process under the I/O
//! observer (tools/shim.c).  An uninterrupted run gives the reference directory.  A second run is
//! killed just before the manifest write (`W meta`): the WAL is complete and fsynced, the hash
//! table file is still the old one.  On that directory
//!   1. the Coq decoder must accept the `wal` file and report seqn = old manifest seqn + 1,
//!   2. the Coq redo applied to the old `ht` file must give, for every bucket the WAL mentions, the
//!      meta byte and the page of the reference `ht` file.  Pages are compared on what a reader of
//!      the page tree can see (label, elided-children bitfield, every node slot reachable from the
//!      top of the page): the in-memory pages the sync writes come from a pool that is not zeroed
//!      (page_cache.rs, `PageMut::pristine_empty`), so unreachable slots of a freshly stored page hold
//!      garbage that the WAL does not carry.  In the other direction the reference `ht` file must
//!      be a fixed point of the redo BYTE FOR BYTE (everything the WAL says is what the sync wrote),
//!   3. the decoded entries re-encoded by the Coq encoder must be the file's bytes.
//! Further runs are killed inside the hash table writeout that follows the manifest write: the
//! `ht` file then holds an arbitrary subset of the new pages, and the redo must again give the
//! reference pages (theorem `redo_after_any_subset` on real data).
//!
//! The harness only supplies what Coq cannot compute: the 7 tag bits `hash >> 57` of the xxh3 hash of
//! each page id (re-implementing bitbox's private `hash_raw_page_id`).

use crate::io::{copy_dir, gen_io_scenario, run_child, IoScenario};
use crate::json::J;
use crate::sys::{Mask, Op, Runner};
use crate::util::{hex, unhex, Rng};
use nomt::hasher::Blake3Hasher;
use std::collections::{BTreeMap, HashMap};
use std::path::Path;

type H = Blake3Hasher;

/// bitbox/mod.rs::hash_raw_page_id, re-implemented (that function is private)
fn hash_raw_page_id(label: &[u8], seed: &[u8]) -> u64 {
    let seed_u64 = u64::from_be_bytes(seed[..8].try_into().unwrap());
    twox_hash::xxhash3_64::Hasher::oneshot_with_seed(seed_u64, label)
}

/// (sync_seqn, bitbox_num_pages, bitbox_seed) read from page 0 of the manifest file
fn read_manifest(dir: &Path) -> Option<(u32, u32, Vec<u8>)> {
    let b = std::fs::read(dir.join("meta")).ok()?;
    if b.len() < 64 {
        return None;
    }
    let u = |o: usize| u32::from_le_bytes(b[o..o + 4].try_into().unwrap());
    Some((u(24), u(28), b[32..48].to_vec()))
}

fn parse_kv(s: &str) -> HashMap<String, String> {
    s.split(' ').filter_map(|t| t.split_once('=')).map(|(k, v)| (k.to_string(), v.to_string())).collect()
}

#[derive(Default, Clone)]
pub struct WalStats {
    pub blobs: usize,
    pub nontrivial: usize,
    pub entries: u64,
    pub max_entries: u64,
    pub clears: u64,
    pub updates: u64,
    pub nodes: u64,
    pub blob_pages: u64,
    pub max_blob_pages: u64,
    pub buckets_compared: u64,
    pub pages_with_garbage: u64,
    pub torn_tables: usize,
    pub torn_buckets_compared: u64,
    pub torn_with_new_pages: usize,
    pub timing_skips: usize,
    pub empty_blobs: usize,
    pub labels: BTreeMap<String, usize>,
}

impl WalStats {
    fn merge(&mut self, o: &WalStats) {
        self.blobs += o.blobs;
        self.nontrivial += o.nontrivial;
        self.entries += o.entries;
        self.max_entries = self.max_entries.max(o.max_entries);
        self.clears += o.clears;
        self.updates += o.updates;
        self.nodes += o.nodes;
        self.blob_pages += o.blob_pages;
        self.max_blob_pages = self.max_blob_pages.max(o.max_blob_pages);
        self.buckets_compared += o.buckets_compared;
        self.pages_with_garbage += o.pages_with_garbage;
        self.torn_tables += o.torn_tables;
        self.torn_buckets_compared += o.torn_buckets_compared;
        self.torn_with_new_pages += o.torn_with_new_pages;
        self.timing_skips += o.timing_skips;
        self.empty_blobs += o.empty_blobs;
        for (k, v) in &o.labels {
            *self.labels.entry(k.clone()).or_default() += v;
        }
    }
}

pub struct WalOutcome {
    pub stats: WalStats,
    pub violations: Vec<(String, String, String)>, // (sig, detail, replay text)
    pub sample: Option<String>,
}

/// Decode + redo + re-encode on one crashed directory.  `first` = the run killed before the manifest
/// write (codec checks and statistics apply); otherwise only the redo comparison.
/// Returns Err(sig, detail) on a violation, Ok(number of buckets compared, entries) otherwise.
fn check_dir(
    model: &mut crate::model::Model,
    dir: &Path,
    reference: &Path,
    old_seqn: u32,
    tag: &str,
    first: bool,
    stats: &mut WalStats,
) -> Result<(u64, String), (String, String)> {
    // development aid (detection power): VERIF_WAL_FLIP=<byte offset> damages one bit of the WAL file
    if let Some(off) = std::env::var("VERIF_WAL_FLIP").ok().and_then(|v| v.parse::<u64>().ok()) {
        use std::os::unix::fs::FileExt;
        if let Ok(fd) = std::fs::OpenOptions::new().read(true).write(true).open(dir.join("wal")) {
            let mut b = [0u8; 1];
            if fd.read_exact_at(&mut b, off).is_ok() {
                b[0] ^= 1;
                let _ = fd.write_all_at(&b, off);
            }
        }
    }
    let line = model.ask(&format!("walopen {}", dir.display()));
    let kv = parse_kv(&line);
    if !line.starts_with("ok ") {
        return Err((format!("{}-wal-decode", tag), format!("the Coq decoder rejects the WAL file the sync wrote: {}", line)));
    }
    let g = |k: &str| kv.get(k).and_then(|v| v.parse::<u64>().ok()).unwrap_or(u64::MAX);
    if g("seqn") != old_seqn as u64 + 1 {
        return Err((format!("{}-wal-decode", tag), format!("the WAL's sync sequence number is {} but the manifest before the sync had {}: {}", g("seqn"), old_seqn, line)));
    }
    // the driver decoded the manifest with Image.v; the harness reads the same fields itself
    let (mseqn, buckets, seed) = read_manifest(dir).ok_or_else(|| ("harness".to_string(), "manifest unreadable".to_string()))?;
    if g("mseqn") != mseqn as u64 || g("buckets") != buckets as u64 || kv.get("seed").map(|s| s.as_str()) != Some(hex(&seed).as_str()) {
        return Err((format!("{}-wal-decode", tag), format!("manifest fields disagree: the harness reads seqn {} buckets {} seed {}, the Coq decoder {}", mseqn, buckets, hex(&seed), line)));
    }
    if first && mseqn != old_seqn {
        return Err(("harness".to_string(), format!("the run was not stopped before the manifest write (manifest seqn {} old {})", mseqn, old_seqn)));
    }
    if kv.get("range").map(|s| s.as_str()) != Some("ok") {
        return Err((format!("{}-wal-decode", tag), format!("a WAL entry names a bucket beyond the table's {} buckets: {}", buckets, line)));
    }
    if first {
        if kv.get("reencode").map(|s| s.as_str()) != Some("ok") {
            return Err((format!("{}-wal-reencode", tag), format!("the decoded entries re-encoded by the Coq encoder differ from the file: {}", line)));
        }
        stats.blobs += 1;
        let e = g("entries");
        if e >= 2 {
            stats.nontrivial += 1;
        }
        if e == 0 {
            stats.empty_blobs += 1;
        }
        stats.entries += e;
        stats.max_entries = stats.max_entries.max(e);
        stats.clears += g("clears");
        stats.updates += g("updates");
        stats.nodes += g("nodes");
        stats.blob_pages += g("pages");
        stats.max_blob_pages = stats.max_blob_pages.max(g("pages"));
    }
    // tag oracle
    let ids = model.ask_multi("walids");
    for chunk in ids.chunks(256) {
        let mut l = String::from("waltags");
        for id in chunk {
            let h = hash_raw_page_id(&unhex(id), &seed);
            l.push_str(&format!(" {}:{}", id, h >> 57));
        }
        model.expect_ok(&l);
    }
    let out = model.ask_multi(&format!("walredo {}", reference.display()));
    let mut checked = 0u64;
    let mut bad = Vec::new();
    let mut fixbad = Vec::new();
    for l in &out {
        if let Some(n) = l.strip_prefix("checked ") {
            let t: Vec<&str> = n.split(' ').collect();
            checked = t[0].parse().unwrap_or(0);
            stats.pages_with_garbage += t.get(2).and_then(|x| x.parse::<u64>().ok()).unwrap_or(0);
        } else if l.starts_with("fix ") {
            fixbad.push(l.clone());
        } else {
            bad.push(l.clone());
        }
    }
    if !fixbad.is_empty() {
        return Err((
            format!("{}-wal-redo-mismatch", tag),
            format!(
                "the hash table of the completed sync is not a fixed point of the Coq redo of the WAL (a changed node, label or bitfield in the WAL is not what the sync wrote) on {} of {} buckets: {}",
                fixbad.len(),
                checked,
                fixbad.iter().take(6).cloned().collect::<Vec<_>>().join("; ")
            ),
        ));
    }
    if !bad.is_empty() {
        return Err((
            format!("{}-wal-redo-mismatch", tag),
            format!(
                "the Coq redo of the WAL on the {} hash table differs from the hash table of the completed sync on {} of {} buckets: {}",
                if first { "old" } else { "partially written" },
                bad.len(),
                checked,
                bad.iter().take(6).cloned().collect::<Vec<_>>().join("; ")
            ),
        ));
    }
    Ok((checked, line))
}

/// number of 4096-byte pages in which two ht files differ
fn pages_differing(a: &Path, b: &Path) -> usize {
    let (x, y) = match (std::fs::read(a.join("ht")), std::fs::read(b.join("ht"))) {
        (Ok(x), Ok(y)) => (x, y),
        _ => return 0,
    };
    x.chunks(4096).zip(y.chunks(4096)).filter(|(p, q)| p != q).count()
}

pub fn run_wal_scenario(sc: &IoScenario, prop: &str, rng: &mut Rng, torn_points: usize, tag: &str) -> WalOutcome {
    let mut out = WalOutcome { stats: WalStats::default(), violations: vec![], sample: None };
    let ptag = prop.to_lowercase();
    if std::env::var("VERIF_WAL_XCHECK").is_ok() {
        // development aid: the same scenario through the E-io crash enumeration
        let o = crate::io::run_io_scenario(sc, "crash", &mut rng.clone(), 60, &format!("x{}", tag));
        eprintln!("[{}] E-io cross-check: {} trials, old {} new {}, {} violations", tag, o.trials, o.old, o.new, o.violations.len());
        for v in o.violations.iter().take(5) {
            eprintln!("[{}]   {} {}", tag, v.0, v.1);
        }
    }
    let mut runner = Runner::<H>::new(&format!("wal-{}", tag), Mask::default());
    runner.keep_dir = false;
    if let Err(m) = runner.run(&sc.prefix) {
        out.violations.push(("harness-prefix".into(), format!("prefix failed: {:?}", m.detail), String::new()));
        return out;
    }
    let base = runner.dir.clone();
    let work = crate::util::fresh_dir(&format!("walw-{}", tag));
    std::fs::create_dir_all(&work).unwrap();

    let mut child_ops = vec![Op::Open(sc.cfg.clone())];
    child_ops.extend(sc.prep.iter().cloned());
    child_ops.push(Op::Arm);
    child_ops.extend(sc.target.iter().cloned());
    child_ops.push(Op::Disarm);
    child_ops.push(Op::Close);
    let script = work.join("target.script");
    std::fs::write(&script, crate::sys::script_to_text(&child_ops)).unwrap();
    let replay = |extra: &str| -> String {
        let mut t = String::new();
        t += &format!("# E-walimg scenario, target operation: {}\n# {}\n", sc.label, extra);
        t += "# --- prefix (run first, in order)\n";
        t += &crate::sys::script_to_text(&sc.prefix);
        t += "# --- child script (the armed part is the target operation; it is killed at the stated I/O event)\n";
        t += &crate::sys::script_to_text(&child_ops);
        t
    };
    let finish = |out: WalOutcome| -> WalOutcome {
        if std::env::var("VERIF_WAL_KEEP").is_err() {
            let _ = std::fs::remove_dir_all(&work);
        } else {
            eprintln!("[{}] kept {}", tag, work.display());
        }
        out
    };

    let old_seqn = match read_manifest(&base) {
        Some((s, _, _)) => s,
        None => {
            out.violations.push(("harness".into(), "manifest of the base directory unreadable".into(), replay("")));
            return finish(out);
        }
    };

    // reference: the uninterrupted run
    let d0 = work.join("ref");
    copy_dir(&base, &d0);
    let rec = run_child(&d0, &script, "record", -1, "before", &work.join("rec.log"), 120);
    if rec.code != Some(0) || !rec.stdout.contains("DONE") || rec.stdout.contains(" err") || rec.stdout.contains("panic") {
        out.violations.push(("record-run".into(), format!("the uninterrupted run of the target operation failed: exit {:?} {}", rec.code, rec.stdout.replace('\n', " | ")), replay("uninterrupted run fails")));
        return finish(out);
    }
    let armed: Vec<&crate::io::Event> = rec.events.iter().filter(|e| e.armed.is_some()).collect();
    let meta_w = armed.iter().find(|e| e.kind == "W" && e.path == "meta").and_then(|e| e.armed);
    let Some(meta_w) = meta_w else {
        // a target that does not sync (deferred non-blocking commit): nothing to check
        out.stats.timing_skips += 1;
        return finish(out);
    };
    if std::env::var("VERIF_WAL_TRACE").is_ok() {
        for e in &armed {
            eprintln!("[{}] {} {} {} {} {}", tag, e.armed.unwrap(), e.kind, e.path, e.off, e.len);
        }
    }
    *out.stats.labels.entry(sc.label.clone()).or_default() += 1;

    // 1. killed just before the manifest write
    let dk = work.join("postwal");
    let mut stopped_right = false;
    for _attempt in 0..3 {
        copy_dir(&base, &dk);
        let run = run_child(&dk, &script, "crash", meta_w as i64, "before", &work.join("k.log"), 120);
        if run.code != Some(99) {
            continue;
        }
        // thread timing can move the index of the manifest write between runs: insist that the
        // event the child died at is the manifest write and that every WAL write came before it
        let died_at = run.events.iter().find(|e| e.fault.as_deref() == Some("crash-before"));
        let wal_writes_rec = armed.iter().filter(|e| e.path == "wal" && e.armed.unwrap() < meta_w).count();
        let wal_writes_run = run.events.iter().filter(|e| e.armed.is_some() && e.path == "wal").count();
        if died_at.map_or(false, |e| e.kind == "W" && e.path == "meta") && wal_writes_run >= wal_writes_rec {
            stopped_right = true;
            break;
        }
    }
    if !stopped_right {
        out.stats.timing_skips += 1;
        return finish(out);
    }
    match check_dir(&mut runner.model, &dk, &d0, old_seqn, &ptag, true, &mut out.stats) {
        Ok((n, line)) => {
            out.stats.buckets_compared += n;
            out.sample = Some(format!("{}: {}", sc.label, line));
        }
        Err((sig, detail)) => {
            out.violations.push((sig, detail, replay(&format!("killed before armed event {} (W meta)", meta_w))));
            return finish(out);
        }
    }

    // 2. killed inside the hash table writeout that follows the manifest write
    let ht_events: Vec<u64> = armed.iter().filter(|e| e.path == "ht" && e.armed.unwrap() > meta_w).map(|e| e.armed.unwrap()).collect();
    let mut points: Vec<u64> = Vec::new();
    if !ht_events.is_empty() {
        for _ in 0..torn_points {
            let k = ht_events[rng.below(ht_events.len() as u64) as usize];
            if !points.contains(&k) {
                points.push(k);
            }
        }
    }
    for k in points {
        let dt = work.join(format!("torn{}", k));
        copy_dir(&base, &dt);
        let when = if rng.chance(1, 2) { "before" } else { "after" };
        let run = run_child(&dt, &script, "crash", k as i64, when, &work.join("t.log"), 120);
        let wal_len = std::fs::metadata(dt.join("wal")).map(|m| m.len()).unwrap_or(0);
        let mseqn = read_manifest(&dt).map(|m| m.0);
        if run.code != Some(99) || wal_len == 0 || mseqn != Some(old_seqn + 1) {
            // the run got past the writeout (WAL already truncated) or died before the manifest write
            out.stats.timing_skips += 1;
            let _ = std::fs::remove_dir_all(&dt);
            continue;
        }
        let new_pages = pages_differing(&dt, &base);
        let mut scratch = WalStats::default();
        match check_dir(&mut runner.model, &dt, &d0, old_seqn, &ptag, false, &mut scratch) {
            Ok((n, _)) => {
                out.stats.torn_tables += 1;
                out.stats.torn_buckets_compared += n;
                if new_pages > 0 {
                    out.stats.torn_with_new_pages += 1;
                }
            }
            Err((sig, detail)) => {
                out.violations.push((sig, format!("{} [{} pages of the new table had reached the file]", detail, new_pages), replay(&format!("killed {} armed event {} (hash table writeout after the manifest write)", when, k))));
            }
        }
        let _ = std::fs::remove_dir_all(&dt);
    }
    finish(out)
}

/// A history whose target commit touches several hundred keys (random and densely clustered), so
/// that the WAL blob spans many pages, carries full pages of changed nodes and clears emptied pages.
pub fn gen_big_scenario(rng: &mut Rng, thorough: bool) -> IoScenario {
    use crate::gen::*;
    use crate::sys::Acc;
    let mut kg = KeyGen::new(rng);
    let mut live = Live::default();
    let mut cfg = gen_cfg(rng);
    cfg.rollback = rng.chance(1, 2);
    cfg.max_len = 100;
    cfg.ht = *rng.pick(&[4096u32, 16384]);
    cfg.cc = *rng.pick(&[1usize, 2, 4]);
    cfg.prepop = false;
    let mut prefix = vec![Op::Open(cfg.clone())];
    let (mut s, mut c) = (0u32, 0u32);
    let dense = kg.dense(rng, 12, 60);
    for round in 0..rng.range(1, 2) {
        let sz = rng.range(150, if thorough { 500 } else { 300 }) as usize;
        let mut b = gen_batch(rng, &mut kg, &live, &BatchSpec { size: sz, mix: ValueMix::Small, p_delete: 10, p_read: 0, p_rw: 10, p_existing: 20 });
        if round == 0 {
            for k in &dense[..40] {
                b.push((*k, Acc::Write(Some(gen_value(rng, ValueMix::Small)))));
            }
            b.sort_by(|a, b| a.0.cmp(&b.0));
            b.dedup_by(|a, b| a.0 == b.0);
        }
        live.apply(&b);
        s += 1;
        c += 1;
        prefix.extend(commit_ops(s, c, b, false));
    }
    prefix.push(Op::Close);
    let sz = rng.range(200, if thorough { 700 } else { 350 }) as usize;
    let mut b = gen_batch(rng, &mut kg, &live, &BatchSpec { size: sz, mix: ValueMix::Small, p_delete: 45, p_read: 0, p_rw: 20, p_existing: 60 });
    // empty most of the dense sub-trie (its pages are cleared) and add a few new keys to it
    for k in &dense[..rng.range(25, 40) as usize] {
        b.push((*k, Acc::Write(None)));
    }
    for k in &dense[40..rng.range(41, 60) as usize] {
        b.push((*k, Acc::Write(Some(gen_value(rng, ValueMix::Small)))));
    }
    b.sort_by(|a, b| a.0.cmp(&b.0));
    b.dedup_by(|a, b| a.0 == b.0);
    s += 1;
    c += 1;
    let prep = vec![Op::Begin { s, chain: vec![], witness: false }, Op::Finish { s, c, batch: b }];
    let target = vec![Op::Commit { c, nb: false }];
    IoScenario { cfg, prefix, prep, target, cont: vec![], label: "big-commit".to_string() }
}

pub fn cmd_walimg(kv: &HashMap<String, String>) -> i32 {
    let prop = kv.get("prop").cloned().expect("--prop");
    let thorough = kv.get("tier").map(|t| t == "thorough").unwrap_or(false);
    let seed: u64 = kv.get("seed").and_then(|s| s.parse().ok()).unwrap_or(1);
    let n: usize = kv.get("n").and_then(|s| s.parse().ok()).unwrap_or(if thorough { 60 } else { 12 });
    let torn: usize = kv.get("torn").and_then(|s| s.parse().ok()).unwrap_or(if thorough { 3 } else { 2 });
    let out = kv.get("out").cloned().expect("--out");
    let replay_dir = kv.get("replays").cloned().unwrap_or_else(|| format!("/verif/replays/{}", prop));
    let threads: usize = kv.get("threads").and_then(|s| s.parse().ok()).unwrap_or(8);
    // stale replays are removed by tools/check before the engines of a run start
    std::fs::create_dir_all(&replay_dir).ok();
    let t0 = std::time::Instant::now();
    let mut rng = Rng::new(seed ^ 0x3a1);
    let scen: Vec<(IoScenario, Rng)> = (0..n)
        .map(|i| {
            let mut r = rng.fork();
            // every sixth history has a large target commit (multi-page blob)
            (if i % 6 == 5 { gen_big_scenario(&mut r, thorough) } else { gen_io_scenario(&mut r, thorough, i) }, r)
        })
        .collect();
    let scen = std::sync::Arc::new(std::sync::Mutex::new(scen.into_iter().enumerate().collect::<Vec<_>>()));
    let results = std::sync::Arc::new(std::sync::Mutex::new(Vec::new()));
    let mut hs = Vec::new();
    for _ in 0..threads.min(n).max(1) {
        let scen = scen.clone();
        let results = results.clone();
        let prop = prop.clone();
        hs.push(std::thread::spawn(move || loop {
            let item = scen.lock().unwrap().pop();
            let Some((i, (sc, mut r))) = item else { break };
            let o = std::panic::catch_unwind(std::panic::AssertUnwindSafe(|| run_wal_scenario(&sc, &prop, &mut r, torn, &format!("{}", i))));
            results.lock().unwrap().push((i, o));
        }));
    }
    for h in hs {
        h.join().unwrap();
    }
    let mut results = std::mem::take(&mut *results.lock().unwrap());
    results.sort_by_key(|r| r.0);
    let mut total = WalStats::default();
    let mut viol = Vec::new();
    let mut samples = Vec::new();
    for (i, o) in results {
        match o {
            Ok(o) => {
                total.merge(&o.stats);
                if let Some(s) = o.sample {
                    if samples.len() < 3 {
                        samples.push(J::s(s));
                    }
                }
                for (vi, (sig, detail, replay)) in o.violations.into_iter().enumerate() {
                    let path = format!("{}/{}-walimg-seed{}-{}-{}.txt", replay_dir, prop, seed, i, vi);
                    std::fs::write(&path, format!("# property {} sig {}\n# {}\n{}", prop, sig, detail.replace('\n', " "), replay)).unwrap();
                    viol.push(J::obj(vec![("replay", J::s(path)), ("sig", J::s(sig.clone())), ("kind", J::s(sig)), ("detail", J::s(detail))]));
                }
            }
            Err(_) => {
                let path = format!("{}/{}-walimg-seed{}-{}-harness.txt", replay_dir, prop, seed, i);
                std::fs::write(&path, "harness panic").unwrap();
                viol.push(J::obj(vec![("replay", J::s(path)), ("sig", J::s("harness")), ("kind", J::s("harness")), ("detail", J::s("harness panic in walimg scenario"))]));
            }
        }
    }
    let s = &total;
    let j = J::obj(vec![
        ("engine", J::s("walimg")),
        ("property", J::s(prop.clone())),
        ("evaluations", J::Int(s.blobs as i64)),
        ("distinct_nontrivial", J::Int(s.nontrivial as i64)),
        ("rule", J::s("one evaluation = one WAL blob written by the real sync of a generated history (the child is killed just before the manifest write): the extracted Coq decoder (Wal.v) must accept it with seqn = old manifest seqn + 1 and every bucket in range; its entries re-encoded by the Coq encoder must equal the file byte for byte; the Coq redo applied to the old ht file must agree with the ht file of the uninterrupted run on every bucket the blob mentions (meta byte, page label, elided-children bitfield and every node slot reachable from the top of the page; unreachable slots of in-memory pages hold pool garbage by design); the ht file of the uninterrupted run must be a fixed point of the Coq redo byte for byte; the redo comparison is repeated on tables torn inside the hash table writeout that follows the manifest write; non-trivial = at least 2 entries; distinct by construction (one blob per generated history)")),
        ("scenarios", J::Int(n as i64)),
        (
            "stats",
            J::obj(vec![
                ("entries_total", J::Int(s.entries as i64)),
                ("entries_per_blob_mean", J::Num(if s.blobs > 0 { s.entries as f64 / s.blobs as f64 } else { 0.0 })),
                ("entries_per_blob_max", J::Int(s.max_entries as i64)),
                ("clears", J::Int(s.clears as i64)),
                ("updates", J::Int(s.updates as i64)),
                ("changed_nodes", J::Int(s.nodes as i64)),
                ("blob_pages_total", J::Int(s.blob_pages as i64)),
                ("blob_pages_max", J::Int(s.max_blob_pages as i64)),
                ("empty_blobs", J::Int(s.empty_blobs as i64)),
                ("buckets_compared", J::Int(s.buckets_compared as i64)),
                ("pages_equal_only_up_to_unreachable_slots", J::Int(s.pages_with_garbage as i64)),
                ("torn_tables_checked", J::Int(s.torn_tables as i64)),
                ("torn_tables_with_new_pages", J::Int(s.torn_with_new_pages as i64)),
                ("torn_buckets_compared", J::Int(s.torn_buckets_compared as i64)),
                ("skipped_on_timing", J::Int(s.timing_skips as i64)),
                ("targets", J::Obj(s.labels.iter().map(|(k, v)| (k.clone(), J::Int(*v as i64))).collect())),
            ]),
        ),
        ("samples", J::Arr(samples)),
        ("violations", J::Arr(viol.clone())),
        ("wall_s", J::Num(t0.elapsed().as_secs_f64())),
    ]);
    std::fs::write(&out, j.to_string()).unwrap();
    if viol.is_empty() { 0 } else { 1 }
}
