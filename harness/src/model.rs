//! Client of the extracted Coq model (ocaml/model), spoken to over a pipe, and evaluation of the
//! node tables it prints with the real hasher.

use crate::util::{hex, key_from_hex, Key};
use nomt_core::hasher::{NodeHasher, ValueHasher};
use nomt_core::trie::{InternalData, LeafData, Node, TERMINATOR};
use std::collections::HashMap;
use std::io::{BufRead, BufReader, Write};
use std::process::{Child, ChildStdin, ChildStdout, Command, Stdio};

pub struct Model {
    child: Child,
    stdin: ChildStdin,
    stdout: BufReader<ChildStdout>,
    pub log: Vec<String>,
    pub keep_log: bool,
}

pub fn model_path() -> String {
    std::env::var("VERIF_MODEL").unwrap_or_else(|_| "/verif/ocaml/model".to_string())
}

impl Model {
    pub fn spawn() -> Model {
        let mut child = Command::new(model_path())
            .stdin(Stdio::piped())
            .stdout(Stdio::piped())
            .spawn()
            .expect("spawn model");
        let stdin = child.stdin.take().unwrap();
        let stdout = BufReader::new(child.stdout.take().unwrap());
        Model {
            child,
            stdin,
            stdout,
            log: Vec::new(),
            keep_log: false,
        }
    }

    fn send(&mut self, line: &str) {
        if self.keep_log {
            self.log.push(line.to_string());
        }
        self.stdin.write_all(line.as_bytes()).expect("model write");
        self.stdin.write_all(b"\n").expect("model write");
        self.stdin.flush().expect("model flush");
    }

    fn recv(&mut self) -> String {
        let mut s = String::new();
        let n = self.stdout.read_line(&mut s).expect("model read");
        if n == 0 {
            panic!("model closed the pipe");
        }
        let s = s.trim_end().to_string();
        if s.starts_with("error") {
            panic!("model error: {}", s);
        }
        s
    }

    /// one-line command, one-line reply
    pub fn ask(&mut self, line: &str) -> String {
        self.send(line);
        self.recv()
    }

    /// command whose reply is several lines ended by "end"
    pub fn ask_multi(&mut self, line: &str) -> Vec<String> {
        self.send(line);
        let mut out = Vec::new();
        loop {
            let l = self.recv();
            if l == "end" {
                break;
            }
            out.push(l);
        }
        out
    }

    pub fn expect_ok(&mut self, line: &str) {
        let r = self.ask(line);
        assert!(r == "ok", "model replied {:?} to {:?}", r, line);
    }
}

impl Drop for Model {
    fn drop(&mut self) {
        let _ = self.child.kill();
        let _ = self.child.wait();
    }
}

/// value interning: equal bytes <-> equal ids (ids start at 1)
#[derive(Default)]
pub struct Values {
    by_digest: HashMap<[u8; 32], u32>,
    pub digests: Vec<[u8; 32]>, // id-1 -> digest of the bytes
    pub lens: Vec<usize>,
    pub hashes: HashMap<(u32, u8), [u8; 32]>, // (id, hasher tag) -> value hash under that hasher
}

impl Values {
    pub fn intern(&mut self, bytes: &[u8]) -> u32 {
        let d = digest(bytes);
        if let Some(id) = self.by_digest.get(&d) {
            return *id;
        }
        self.digests.push(d);
        self.lens.push(bytes.len());
        let id = self.digests.len() as u32;
        self.by_digest.insert(d, id);
        id
    }
    pub fn lookup(&self, bytes: &[u8]) -> Option<u32> {
        self.by_digest.get(&digest(bytes)).copied()
    }
}

pub fn digest(bytes: &[u8]) -> [u8; 32] {
    <nomt_core::hasher::Blake3Hasher as ValueHasher>::hash_value(bytes)
}

/// A node table printed by the model for one key/value view, evaluated under hasher H.
pub struct Table {
    pub nodes: HashMap<u32, Node>,
    pub root: Node,
    pub leaves: usize,
    pub internals: usize,
}

pub fn eval_table<H: NodeHasher>(lines: &[String], vhash: &dyn Fn(u32) -> [u8; 32]) -> Table {
    let mut nodes: HashMap<u32, Node> = HashMap::new();
    nodes.insert(0, TERMINATOR);
    let mut root = TERMINATOR;
    let (mut leaves, mut internals) = (0, 0);
    for l in lines {
        let t: Vec<&str> = l.split(' ').collect();
        match t[0] {
            "L" => {
                let id: u32 = t[1].parse().unwrap();
                let key = key_from_hex(t[2]);
                let vid: u32 = t[3].parse().unwrap();
                let n = H::hash_leaf(&LeafData {
                    key_path: key,
                    value_hash: vhash(vid),
                });
                nodes.insert(id, n);
                leaves += 1;
            }
            "I" => {
                let id: u32 = t[1].parse().unwrap();
                let l: u32 = t[2].parse().unwrap();
                let r: u32 = t[3].parse().unwrap();
                let n = H::hash_internal(&InternalData {
                    left: nodes[&l],
                    right: nodes[&r],
                });
                nodes.insert(id, n);
                internals += 1;
            }
            "root" => {
                let id: u32 = t[1].parse().unwrap();
                root = nodes[&id];
            }
            _ => panic!("bad table line {:?}", l),
        }
    }
    Table {
        nodes,
        root,
        leaves,
        internals,
    }
}

#[derive(Debug, Clone, PartialEq)]
pub enum MTerminal {
    Leaf(Key, u32),
    Term(usize),
}

/// parse "leaf <key> <vid> ; ids" | "term <depth> ; ids"
pub fn parse_proof(s: &str) -> (MTerminal, Vec<u32>) {
    let mut parts = s.split(';');
    let tm = parts.next().unwrap().trim();
    let sibs = parts.next().unwrap_or("").trim();
    let t: Vec<&str> = tm.split(' ').collect();
    let term = match t[0] {
        "leaf" => MTerminal::Leaf(key_from_hex(t[1]), t[2].parse().unwrap()),
        "term" => MTerminal::Term(t[1].parse().unwrap()),
        _ => panic!("bad proof {:?}", s),
    };
    let ids = if sibs.is_empty() {
        vec![]
    } else {
        sibs.split(' ').map(|x| x.parse().unwrap()).collect()
    };
    (term, ids)
}

pub fn khex(k: &Key) -> String {
    hex(k)
}
