mod bb;
mod conc;
mod core;
mod gen;
mod img;
mod io;
mod json;
#[cfg(feature = "hook-h5")]
mod lb;
mod lock;
mod misc;
mod model;
mod pl;
#[cfg(feature = "hook-h6")]
mod pw;
mod rbtrace;
mod scen;
mod sys;
mod trace;
mod util;
mod walimg;

use json::J;
use std::collections::HashMap;
use std::sync::{Arc, Mutex};

fn arg_map() -> (Vec<String>, HashMap<String, String>) {
    let mut pos = Vec::new();
    let mut kv = HashMap::new();
    let args: Vec<String> = std::env::args().skip(1).collect();
    let mut i = 0;
    while i < args.len() {
        if let Some(k) = args[i].strip_prefix("--") {
            let v = args.get(i + 1).cloned().unwrap_or_default();
            kv.insert(k.to_string(), v);
            i += 2;
        } else {
            pos.push(args[i].clone());
            i += 1;
        }
    }
    (pos, kv)
}

fn stats_json(s: &sys::Stats) -> J {
    J::obj(vec![
        ("ops", J::Int(s.ops as i64)),
        ("commits", J::Int(s.commits as i64)),
        ("reads_compared", J::Int(s.reads as i64)),
        ("proofs_compared", J::Int(s.proofs as i64)),
        ("roots_compared", J::Int(s.roots as i64)),
        ("witnesses_checked", J::Int(s.witnesses as i64)),
        ("witness_paths", J::Int(s.witness_paths as i64)),
        ("rollbacks", J::Int(s.rollbacks as i64)),
        ("reopens", J::Int(s.reopens as i64)),
        ("rejected_commits", J::Int(s.rejected as i64)),
        ("deferred_commits", J::Int(s.deferred as i64)),
        ("refused_chains", J::Int(s.refused_chains as i64)),
        ("stale_chains_skipped", J::Int(s.stale_chains as i64)),
        ("commits_of_change_sets_kept_across_a_close", J::Int(s.cross_handle_commits as i64)),
        ("open_lock_retries", J::Int(s.lock_retries as i64)),
        ("max_keys_in_state", J::Int(s.max_keys as i64)),
        (
            "value_length_classes",
            J::Obj(s.value_len_classes.iter().map(|(k, v)| (k.to_string(), J::Int(*v as i64))).collect()),
        ),
        ("distinct_proof_depths", J::Int(s.proof_term_depths.len() as i64)),
    ])
}

/// shrink a failing script by dropping whole ops while the same kind of mismatch persists
fn minimise(ops: &[sys::Op], mask: sys::Mask, kind: &str, budget: usize) -> Vec<sys::Op> {
    let mut cur: Vec<sys::Op> = ops.to_vec();
    let mut tries = 0;
    let mut chunk = (cur.len() / 2).max(1);
    while chunk >= 1 && tries < budget {
        let mut i = 1; // never drop the first open
        let mut progress = false;
        while i < cur.len() && tries < budget {
            let end = (i + chunk).min(cur.len());
            let mut cand = cur[..i].to_vec();
            cand.extend_from_slice(&cur[end..]);
            tries += 1;
            let ok = run_script_watchdog("min", cand.clone(), mask, 60);
            match ok {
                (Err(m), _) if m.kind == kind && m.kind != "hang" => {
                    cur = cand[..=m.op_index.min(cand.len() - 1)].to_vec();
                    progress = true;
                }
                _ => i += chunk,
            }
        }
        if !progress {
            if chunk == 1 {
                break;
            }
            chunk /= 2;
        }
    }
    cur
}

/// run a script on its own thread with a time limit; a run that does not come back is reported
/// as a hang (the thread is abandoned, the process exits at the end anyway)
fn run_script_watchdog(tag: &'static str, ops: Vec<sys::Op>, mask: sys::Mask, limit_s: u64) -> (Result<(), sys::Mismatch>, sys::Stats) {
    let (tx, rx) = std::sync::mpsc::channel();
    let n_ops = ops.len();
    std::thread::spawn(move || {
        let r = std::panic::catch_unwind(|| sys::run_script(tag, &ops, mask));
        let _ = tx.send(r);
    });
    match rx.recv_timeout(std::time::Duration::from_secs(limit_s)) {
        Ok(Ok(x)) => x,
        Ok(Err(e)) => {
            let msg = e.downcast_ref::<String>().cloned().or_else(|| e.downcast_ref::<&str>().map(|s| s.to_string())).unwrap_or_default();
            (Err(sys::Mismatch { kind: "harness", op_index: 0, detail: format!("harness panic: {}", msg) }), sys::Stats::default())
        }
        Err(_) => (
            Err(sys::Mismatch { kind: "hang", op_index: n_ops.saturating_sub(1), detail: format!("the script did not finish within {} s (an operation never returned)", limit_s) }),
            sys::Stats::default(),
        ),
    }
}

fn cmd_sys(kv: &HashMap<String, String>) -> i32 {
    let prop = kv.get("prop").cloned().expect("--prop");
    let thorough = kv.get("tier").map(|t| t == "thorough").unwrap_or(false);
    let seed: u64 = kv.get("seed").and_then(|s| s.parse().ok()).unwrap_or(1);
    let n: usize = kv.get("n").and_then(|s| s.parse().ok()).unwrap_or(16);
    let out = kv.get("out").cloned().expect("--out");
    let replay_dir = kv.get("replays").cloned().unwrap_or_else(|| format!("/verif/replays/{}", prop));
    let threads: usize = kv.get("threads").and_then(|s| s.parse().ok()).unwrap_or(12);
    let corpus = kv.get("corpus").cloned();
    // stale replays are removed by tools/check before the engines of a run start
    std::fs::create_dir_all(&replay_dir).ok();
    let mask = scen::mask_for(&prop);

    // scenario list: corpus first, then generated
    let mut scenarios: Vec<scen::Scenario> = Vec::new();
    if let Some(c) = corpus {
        if let Ok(rd) = std::fs::read_dir(&c) {
            let mut files: Vec<_> = rd.filter_map(|e| e.ok()).map(|e| e.path()).collect();
            files.sort();
            for f in files {
                if f.extension().map(|e| e == "script").unwrap_or(false) {
                    let txt = std::fs::read_to_string(&f).unwrap();
                    // `# watchdog <seconds>` in a corpus script: its own time limit (histories kept because an
                    // operation never returns)
                    let wd = txt.lines().find_map(|l| l.strip_prefix("# watchdog ")).and_then(|x| x.trim().parse::<u64>().ok());
                    let label = match wd {
                        Some(w) => format!("corpus {} watchdog={}", f.display(), w),
                        None => format!("corpus {}", f.display()),
                    };
                    scenarios.push(scen::Scenario { ops: sys::script_from_text(&txt), label });
                }
            }
        }
    }
    let n_corpus = scenarios.len();
    let mut rng = util::Rng::new(seed);
    while scenarios.len() < n_corpus + n {
        let mut r = rng.fork();
        scenarios.extend(scen::generate(&prop, &mut r, thorough));
    }

    let t0 = std::time::Instant::now();
    let queue = Arc::new(Mutex::new((0usize, Vec::<(usize, Result<(), sys::Mismatch>, sys::Stats)>::new())));
    let scenarios = Arc::new(scenarios);
    let mut handles = Vec::new();
    for _ in 0..threads.min(scenarios.len()).max(1) {
        let q = queue.clone();
        let sc = scenarios.clone();
        let rd = replay_dir.clone();
        handles.push(std::thread::spawn(move || loop {
            let i = {
                let mut g = q.lock().unwrap();
                let i = g.0;
                g.0 += 1;
                i
            };
            if i >= sc.len() {
                break;
            }
            let limit = sc[i].label.split("watchdog=").nth(1).and_then(|x| x.trim().parse::<u64>().ok()).unwrap_or(120);
            // the history in flight is on disk while it runs: if the whole process dies (a panic that
            // cannot unwind aborts it), tools/check finds the histories that were running and re-runs
            // each in a process of its own to find the one that kills it
            let inflight = format!("{}/inflight-{}.script", rd, i);
            std::fs::write(&inflight, format!("# scenario: {}\n{}", sc[i].label, sys::script_to_text(&sc[i].ops))).ok();
            let (res, st) = run_script_watchdog("sys", sc[i].ops.clone(), mask, limit);
            std::fs::remove_file(&inflight).ok();
            q.lock().unwrap().1.push((i, res, st));
        }));
    }
    for h in handles {
        h.join().unwrap();
    }
    let mut results = std::mem::take(&mut queue.lock().unwrap().1);
    results.sort_by_key(|r| r.0);

    let mut total = sys::Stats::default();
    let mut violations = Vec::new();
    let mut skipped = 0;
    let mut skip_notes: Vec<J> = Vec::new();
    let mut nontrivial = 0;
    let mut labels = std::collections::BTreeSet::new();
    for (i, res, st) in &results {
        total.merge(st);
        if st.commits > 0 {
            nontrivial += 1;
        }
        labels.insert(sys::script_to_text(&scenarios[*i].ops));
        if let Err(m) = res {
            if m.kind == "skip" {
                skipped += 1;
                skip_notes.push(J::s(format!("op {}: {}", m.op_index, m.detail)));
                continue;
            }
            // minimise and write the replay
            let upto = &scenarios[*i].ops[..=m.op_index.min(scenarios[*i].ops.len() - 1)];
            // minimise only the first few violations of a run (each costs up to 60 re-runs)
            let small = if m.kind == "harness" || m.kind == "hang" || violations.len() >= 4 { upto.to_vec() } else { minimise(upto, mask, m.kind, 60) };
            let path = format!("{}/{}-seed{}-{}.script", replay_dir, prop, seed, i);
            let mut txt = format!("# property {} kind {} at op {}\n# {}\n# scenario: {}\n", prop, m.kind, m.op_index, m.detail.replace('\n', " "), scenarios[*i].label);
            txt += &sys::script_to_text(&small);
            std::fs::write(&path, txt).unwrap();
            // a violation on a corpus history carries the history's name, so that a listed known finding
            // is exactly that history and nothing else
            let sig = match scenarios[*i].label.strip_prefix("corpus ") {
                Some(rest) => {
                    let file = rest.split(' ').next().unwrap_or("");
                    let base = std::path::Path::new(file).file_stem().map(|x| x.to_string_lossy().to_string()).unwrap_or_default();
                    format!("{}@{}", m.kind, base)
                }
                None => m.kind.to_string(),
            };
            violations.push(J::obj(vec![
                ("replay", J::s(path)),
                ("sig", J::s(sig)),
                ("kind", J::s(m.kind)),
                ("detail", J::s(m.detail.clone())),
                ("ops", J::Int(small.len() as i64)),
            ]));
        }
    }
    let samples: Vec<J> = scenarios
        .iter()
        .skip(n_corpus)
        .take(2)
        .map(|s| {
            J::obj(vec![
                ("label", J::s(s.label.clone())),
                ("first_ops", J::Arr(s.ops.iter().take(6).map(|o| {
                    let l = o.to_line();
                    J::s(if l.len() > 300 { format!("{}...", &l[..300]) } else { l })
                }).collect())),
                ("n_ops", J::Int(s.ops.len() as i64)),
            ])
        })
        .collect();
    let j = J::obj(vec![
        ("engine", J::s("sys")),
        ("property", J::s(prop.clone())),
        ("evaluations", J::Int(results.len() as i64)),
        ("distinct_nontrivial", J::Int(labels.len().min(nontrivial) as i64)),
        ("rule", J::s("one evaluation = one generated operation script run against the real Nomt API and the extracted Coq Store/Trie model with every armed observable compared; non-trivial = at least one successful commit; distinct = distinct script text")),
        ("corpus_cases", J::Int(n_corpus as i64)),
        ("skipped_on_unarmed_disagreement", J::Int(skipped)),
        ("skip_notes", J::Arr(skip_notes.into_iter().take(10).collect())),
        ("stats", stats_json(&total)),
        ("samples", J::Arr(samples)),
        ("violations", J::Arr(violations.clone())),
        ("wall_s", J::Num(t0.elapsed().as_secs_f64())),
    ]);
    std::fs::write(&out, j.to_string()).unwrap();
    std::process::exit(if violations.is_empty() { 0 } else { 1 })
}

fn cmd_replay(pos: &[String], kv: &HashMap<String, String>) -> i32 {
    let file = &pos[1];
    let prop = kv.get("prop").cloned().unwrap_or_else(|| "all".into());
    let txt = std::fs::read_to_string(file).expect("replay file");
    let ops = sys::script_from_text(&txt);
    let (res, st) = sys::run_script("replay", &ops, scen::mask_for(&prop));
    match res {
        Ok(()) => {
            println!("replay ok: {} ops, {} commits", st.ops, st.commits);
            0
        }
        Err(m) => {
            println!("replay mismatch kind={} op={} ({}): {}", m.kind, m.op_index, ops[m.op_index].to_line().chars().take(120).collect::<String>(), m.detail);
            1
        }
    }
}

fn main() {
    // engine processes provoke panics in the implementation on purpose (caught and classified);
    // keep stderr quiet unless asked
    if std::env::var("VERIF_VERBOSE").is_err() {
        std::panic::set_hook(Box::new(|_| {}));
    }
    let (pos, kv) = arg_map();
    let code = match pos.first().map(|s| s.as_str()) {
        Some("sys") => cmd_sys(&kv),
        Some("replay") => cmd_replay(&pos, &kv),
        Some("io") => io::cmd_io(&kv),
        Some("core") => core::cmd_core(&kv),
        Some("lock") => lock::cmd_lock(&kv),
        Some("conc") => conc::cmd_conc(&kv),
        Some("pl") => pl::cmd_pl(&kv),
        Some("img") => img::cmd_img(&kv),
        Some("misc") => misc::cmd_misc(&kv),
        Some("trace") => trace::cmd_trace(&kv),
        Some("rbtrace") => rbtrace::cmd_rbtrace(&kv),
        Some("walimg") => walimg::cmd_walimg(&kv),
        Some("bb") => bb::cmd_bb(&kv),
        #[cfg(feature = "hook-h5")]
        Some("lb") => lb::cmd_lb(&kv),
        #[cfg(feature = "hook-h6")]
        Some("pw") => pw::cmd_pw(&kv),
        Some("lockchild") => lock::lockchild_main(&pos[1], &pos[2], &pos[3], &pos[4], &pos[5]),
        Some("iochild") => io::child_main(&pos[1], &pos[2]),
        _ => {
            eprintln!("usage: nv sys --prop Cxx --tier quick|thorough --seed N --n K --out FILE | nv replay FILE [--prop Cxx]");
            2
        }
    };
    std::process::exit(code);
}
